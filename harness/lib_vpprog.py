"""Generated programs with constant sub-expressions (C07, C15).

A program is a JSON list of steps; each step applies a real spox constructor to earlier Vars and
appends its result Var(s). `gen_program` keeps track of dtypes / shapes / constness so that every
program is valid; `run_program` interprets it against the real library.
"""
from __future__ import annotations

import warnings
from typing import Any, Optional

import numpy as np

from harness import lib_valueprop as L

NUM = ["i64", "i32", "f32", "f64"]
_NP = {"i64": np.int64, "i32": np.int32, "f32": np.float32, "f64": np.float64, "bool": np.bool_,
       "str": np.str_, "f16": np.float16, "u8": np.uint8, "i8": np.int8, "i16": np.int16, "u16": np.uint16,
       "u32": np.uint32, "u64": np.uint64}


# ---------------------------------------------------------------------------------- generation

class _V:
    """What the generator knows about a Var."""

    def __init__(self, kind, dt, shape, const, elem=None):
        self.kind, self.dt, self.shape, self.const, self.elem = kind, dt, shape, const, elem


def _data(rng, dt, shape):
    n = int(np.prod(shape)) if shape else 1
    if dt == "bool":
        vals = [bool(rng.randrange(2)) for _ in range(n)]
    elif dt == "str":
        vals = [rng.choice(["a", "bc", "ü", "", "xyz"]) for _ in range(n)]
    elif dt in ("f32", "f64"):
        vals = [rng.choice([0.5, 1.5, -2.25, 3.0, 0.1, 7.75, -0.3]) for _ in range(n)]
    else:
        vals = [rng.randrange(-4, 9) for _ in range(n)]
    return vals


def gen_program(rng, size: int = 10, with_args: bool = True, control_flow: bool = True, random_ops: bool = False) -> list:
    steps: list = []
    vs: list = []  # _V per var

    def emit(step, *outs):
        steps.append(step)
        vs.extend(outs)
        return len(vs) - len(outs)

    def pick(pred):
        cands = [i for i, v in enumerate(vs) if pred(v)]
        return rng.choice(cands) if cands else None

    def new_const(dt=None, shape=None, how=None):
        dt = dt or rng.choice(NUM + ["i64", "bool", "str"])
        shape = shape if shape is not None else rng.choice([[2], [3], [2, 3], [1], [], [2, 2], [4]])
        how = how or rng.choice(["value", "value", "init"] if dt != "str" else ["value"])
        return emit({"op": "const", "how": how, "dt": dt, "shape": shape, "data": _data(rng, dt, shape)},
                    _V("tensor", dt, list(shape), True))

    def new_attr_const():
        how = rng.choice(["value_int", "value_ints", "value_float", "value_floats", "value_string",
                          "value_strings"])
        if how == "value_int":
            return emit({"op": "const", "how": how, "data": rng.randrange(-3, 9)}, _V("tensor", "i64", [], True))
        if how == "value_ints":
            d = [rng.randrange(0, 5) for _ in range(rng.randrange(1, 4))]
            return emit({"op": "const", "how": how, "data": d}, _V("tensor", "i64", [len(d)], True))
        if how == "value_float":
            return emit({"op": "const", "how": how, "data": rng.choice([0.5, 0.1, 2.75])}, _V("tensor", "f32", [], True))
        if how == "value_floats":
            d = [rng.choice([0.5, 0.1, 2.75, -1.0]) for _ in range(rng.randrange(1, 4))]
            return emit({"op": "const", "how": how, "data": d}, _V("tensor", "f32", [len(d)], True))
        # strings incl. non-ASCII, embedded / trailing NULs; given as str or as UTF-8 bytes
        if how == "value_string":
            st = {"op": "const", "how": how, "data": rng.choice(["a", "ü", "hello", "a\0", "a\0b", "ü\0", "\0x"])}
            if rng.random() < 0.4:  # UTF-8 bytes, mostly non-ASCII
                st["bytes"] = True
                st["data"] = rng.choice(["ü", "ü\0", "aü", "hello", "日本"])
            return emit(st, _V("tensor", "str", [], True))
        d = [rng.choice(["a", "ü", "hello", "", "a\0", "x\0y"]) for _ in range(rng.randrange(1, 4))]
        st = {"op": "const", "how": how, "data": d}
        if rng.random() < 0.4:
            st["bytes"] = True
            st["data"] = [rng.choice(["ü", "a", "aü\0", "日本"]) for _ in d]
        return emit(st, _V("tensor", "str", [len(d)], True))

    def new_arg(dt=None, shape=None):
        dt = dt or rng.choice(NUM)
        shape = shape if shape is not None else rng.choice([[2], [3], [2, 3]])
        return emit({"op": "arg", "dt": dt, "shape": shape}, _V("tensor", dt, list(shape), False))

    is_t = lambda v: v.kind == "tensor"  # noqa: E731
    is_num = lambda v: v.kind == "tensor" and v.dt in NUM  # noqa: E731

    new_const("i64", [3])
    new_const("f32", [2, 3])
    if with_args and rng.random() < 0.8:
        new_arg()
    for _ in range(size):
        choice = rng.choice([
            "const", "const", "attr_const", "arg", "unary", "binary", "binary", "compare", "cast", "shape",
            "reshape", "reshape_computed", "expand", "tile", "slice", "gather", "concat", "transpose",
            "reduce", "topk", "split", "unique", "seq", "seq_at", "optional", "where", "inline",
            "range", "const_of_shape", "size", "identity", "unsqueeze", "if", "binary_arg", "concat_from_seq",
            "arg_default", "arg_default", "seq_pair", "opt_pair",
            "inline0", "inline0", "intdiv", "intdiv", "intdiv_shape", "intdiv_shape",
            "intros", "intros", "unsafe", "inline_const", "inline_const",
            "loop_perm", "loop_perm", "bigconst", "bigconst", "inline_mix", "inline_mix", "inline_mix",
        ])
        if random_ops and rng.random() < 0.15:
            # a NON-DETERMINISTIC operator on a constant (history correspondence: the model's "skips propagation"
            # flag covers subgraph-carrying and non-deterministic nodes alike); its result is no constant
            i = pick(lambda v: is_t(v) and v.dt in ("f32", "f64") and v.const)
            if i is not None:
                fn = rng.choice(["random_uniform_like", "random_normal_like", "bernoulli"])
                emit({"op": "mlop", "name": fn, "mod": "v17", "fn": fn, "args": [i], "in_dt": "const", "kwargs": {}, "np_kwargs": [], "variadic": False, "nout": 1},
                     _V("tensor", vs[i].dt, vs[i].shape, False))
                continue
        if choice == "const":
            new_const()
        elif choice == "attr_const":
            new_attr_const()
        elif choice == "arg":
            if with_args:
                new_arg()
        elif choice == "arg_default":
            # an argument WITH a default: the run-time binding overrides it, so it is no constant
            if with_args:
                dt = rng.choice(["i64", "f32"])
                shape = rng.choice([[3], [2, 3], [2]])
                emit({"op": "arg_default", "dt": dt, "shape": shape, "data": _data(rng, dt, shape), "name": f"d{len(vs)}"},
                     _V("tensor", dt, list(shape), False))
        elif choice == "seq_pair":
            # structurally identical nodes whose Sequence inputs have equal types but different contents
            dt, shape = rng.choice(["i64", "f32"]), rng.choice([[2], [3]])
            xs = [new_const(dt, shape, "value") for _ in range(4)]
            s1 = emit({"op": "sequence_construct", "args": [xs[0], xs[1]]}, _V("seq", dt, shape, True, 2))
            s2 = emit({"op": "sequence_construct", "args": [xs[2], xs[3]]}, _V("seq", dt, shape, True, 2))
            t = emit({"op": "const", "how": "value", "dt": "i64", "shape": [], "data": [rng.randrange(2)]}, _V("tensor", "i64", [], True))
            for sq in (s1, s2):
                emit({"op": "sequence_at", "args": [sq, t]}, _V("tensor", dt, shape, True))
            for sq in (s1, s2):
                emit({"op": "concat_from_sequence", "args": [sq]}, _V("tensor", dt, [shape[0] * 2], True))
        elif choice == "opt_pair":
            dt, shape = rng.choice(["i64", "f32"]), rng.choice([[2], [3]])
            xs = [new_const(dt, shape, "value") for _ in range(2)]
            os_ = [emit({"op": "optional", "args": [x]}, _V("opt", dt, shape, True)) for x in xs]
            for o in os_:
                emit({"op": "optional_get_element", "args": [o]}, _V("tensor", dt, shape, True))
        elif choice == "unary":
            i = pick(is_num)
            if i is not None:
                emit({"op": rng.choice(["neg", "abs"]), "args": [i]}, _V("tensor", vs[i].dt, vs[i].shape, vs[i].const))
        elif choice == "identity":
            i = pick(lambda v: True)
            if i is not None:
                v = vs[i]
                emit({"op": "identity", "args": [i]}, _V(v.kind, v.dt, v.shape, v.const, v.elem))
        elif choice in ("binary", "binary_arg"):
            i = pick(is_num)
            if i is not None:
                want_const = choice == "binary"
                j = pick(lambda v: is_num(v) and v.dt == vs[i].dt and v.shape == vs[i].shape
                         and (v.const or not want_const))
                if j is None:
                    j = new_const(vs[i].dt, vs[i].shape, "value")
                emit({"op": rng.choice(["add", "sub", "mul"]), "args": [i, j]},
                     _V("tensor", vs[i].dt, vs[i].shape, vs[i].const and vs[j].const))
        elif choice == "compare":
            i = pick(is_num)
            if i is not None:
                j = new_const(vs[i].dt, vs[i].shape, "value")
                emit({"op": rng.choice(["equal", "less"]), "args": [i, j]},
                     _V("tensor", "bool", vs[i].shape, vs[i].const))
        elif choice == "cast":
            i = pick(lambda v: is_num(v) or (is_t(v) and v.dt == "bool"))
            if i is not None:
                to = rng.choice(NUM)
                emit({"op": "cast", "args": [i], "to": to}, _V("tensor", to, vs[i].shape, vs[i].const))
        elif choice == "shape":
            i = pick(is_t)
            if i is not None:
                emit({"op": "shape", "args": [i]}, _V("tensor", "i64", [len(vs[i].shape)], True))
        elif choice == "size":
            i = pick(is_t)
            if i is not None:
                emit({"op": "size", "args": [i]}, _V("tensor", "i64", [], True))
        elif choice == "reshape":
            i = pick(lambda v: is_t(v) and int(np.prod(v.shape)) in (2, 3, 4, 6))
            if i is not None:
                n = int(np.prod(vs[i].shape))
                tgt = rng.choice({2: [[2], [1, 2], [2, 1], [-1]], 3: [[3], [1, 3], [3, 1], [-1, 1]],
                                  4: [[4], [2, 2], [-1, 2], [4, 1]], 6: [[6], [2, 3], [3, 2], [-1, 2], [1, 6]]}[n])
                t = emit({"op": "const", "how": "value", "dt": "i64", "shape": [len(tgt)], "data": tgt},
                         _V("tensor", "i64", [len(tgt)], True))
                real = [n // max(1, int(np.prod([d for d in tgt if d > 0]))) if d == -1 else d for d in tgt]
                emit({"op": "reshape", "args": [i, t]}, _V("tensor", vs[i].dt, real, vs[i].const))
        elif choice == "reshape_computed":
            # the target is itself a constant *expression*: shape(y) or a product of constants
            i = pick(lambda v: is_t(v) and int(np.prod(v.shape)) == 6)
            if i is not None:
                a = emit({"op": "const", "how": "value", "dt": "i64", "shape": [2], "data": [1, 3]},
                         _V("tensor", "i64", [2], True))
                b = emit({"op": "const", "how": rng.choice(["value", "init"]), "dt": "i64", "shape": [2], "data": [rng.choice([2, 3, 6]), 1]},
                         _V("tensor", "i64", [2], True))
                bd = steps[-1]["data"]
                tgt = [1 * bd[0], 3 * bd[1]]
                if tgt[0] * tgt[1] != 6:
                    # make it consistent: use a -1
                    steps[-1]["data"] = [2, 1]
                    tgt = [2, 3]
                t = emit({"op": "mul", "args": [a, b]}, _V("tensor", "i64", [2], True))
                emit({"op": "reshape", "args": [i, t]}, _V("tensor", vs[i].dt, tgt, vs[i].const))
        elif choice == "expand":
            i = pick(lambda v: is_t(v) and v.dt != "str" and len(v.shape) <= 2)
            if i is not None:
                tgt = [rng.choice([2, 3])] + list(vs[i].shape)
                t = emit({"op": "const", "how": "value", "dt": "i64", "shape": [len(tgt)], "data": tgt},
                         _V("tensor", "i64", [len(tgt)], True))
                emit({"op": "expand", "args": [i, t]}, _V("tensor", vs[i].dt, tgt, vs[i].const))
        elif choice == "tile":
            i = pick(lambda v: is_num(v) and 1 <= len(v.shape) <= 2)
            if i is not None:
                reps = [rng.choice([1, 2]) for _ in vs[i].shape]
                t = emit({"op": "const", "how": "value", "dt": "i64", "shape": [len(reps)], "data": reps},
                         _V("tensor", "i64", [len(reps)], True))
                emit({"op": "tile", "args": [i, t]},
                     _V("tensor", vs[i].dt, [a * b for a, b in zip(vs[i].shape, reps)], vs[i].const))
        elif choice == "slice":
            i = pick(lambda v: is_t(v) and len(v.shape) >= 1 and v.shape[0] >= 2)
            if i is not None:
                s, e = 0 if rng.random() < 0.5 else 1, vs[i].shape[0] - (0 if rng.random() < 0.5 else 1)
                if e <= s:
                    s, e = 0, 1
                st = emit({"op": "const", "how": "value", "dt": "i64", "shape": [1], "data": [s]}, _V("tensor", "i64", [1], True))
                en = emit({"op": "const", "how": "value", "dt": "i64", "shape": [1], "data": [e]}, _V("tensor", "i64", [1], True))
                emit({"op": "slice", "args": [i, st, en]},
                     _V("tensor", vs[i].dt, [e - s] + list(vs[i].shape[1:]), vs[i].const))
        elif choice == "gather":
            i = pick(lambda v: is_t(v) and len(v.shape) >= 1 and v.shape[0] >= 1)
            if i is not None:
                idx = [rng.randrange(vs[i].shape[0]) for _ in range(rng.randrange(1, 3))]
                t = emit({"op": "const", "how": "value", "dt": "i64", "shape": [len(idx)], "data": idx},
                         _V("tensor", "i64", [len(idx)], True))
                emit({"op": "gather", "args": [i, t]},
                     _V("tensor", vs[i].dt, [len(idx)] + list(vs[i].shape[1:]), vs[i].const))
        elif choice == "concat":
            i = pick(lambda v: is_t(v) and len(v.shape) >= 1)
            if i is not None:
                j = pick(lambda v: is_t(v) and v.dt == vs[i].dt and len(v.shape) == len(vs[i].shape)
                         and v.shape[1:] == vs[i].shape[1:])
                emit({"op": "concat", "args": [i, j]},
                     _V("tensor", vs[i].dt, [vs[i].shape[0] + vs[j].shape[0]] + list(vs[i].shape[1:]),
                        vs[i].const and vs[j].const))
        elif choice == "transpose":
            i = pick(lambda v: is_t(v) and len(v.shape) == 2)
            if i is not None:
                emit({"op": "transpose", "args": [i]}, _V("tensor", vs[i].dt, vs[i].shape[::-1], vs[i].const))
        elif choice == "reduce":
            i = pick(lambda v: is_num(v) and len(v.shape) >= 1)
            if i is not None:
                t = emit({"op": "const", "how": "value", "dt": "i64", "shape": [1], "data": [0]}, _V("tensor", "i64", [1], True))
                emit({"op": "reduce_sum", "args": [i, t]}, _V("tensor", vs[i].dt, vs[i].shape[1:], vs[i].const))
        elif choice == "unsqueeze":
            i = pick(is_t)
            if i is not None:
                t = emit({"op": "const", "how": "value", "dt": "i64", "shape": [1], "data": [0]}, _V("tensor", "i64", [1], True))
                emit({"op": "unsqueeze", "args": [i, t]}, _V("tensor", vs[i].dt, [1] + list(vs[i].shape), vs[i].const))
        elif choice == "topk":
            i = pick(lambda v: is_num(v) and len(v.shape) >= 1 and v.shape[-1] >= 2)
            if i is not None:
                k = rng.randrange(1, vs[i].shape[-1] + 1)
                t = emit({"op": "const", "how": "value", "dt": "i64", "shape": [1], "data": [k]}, _V("tensor", "i64", [1], True))
                shp = list(vs[i].shape[:-1]) + [k]
                emit({"op": "topk", "args": [i, t]}, _V("tensor", vs[i].dt, shp, vs[i].const),
                     _V("tensor", "i64", shp, vs[i].const))
        elif choice == "split":
            i = pick(lambda v: is_t(v) and v.dt != "str" and len(v.shape) >= 1 and v.shape[0] in (2, 4))
            if i is not None:
                h = vs[i].shape[0] // 2
                shp = [h] + list(vs[i].shape[1:])
                emit({"op": "split", "args": [i]}, _V("tensor", vs[i].dt, shp, vs[i].const),
                     _V("tensor", vs[i].dt, shp, vs[i].const))
        elif choice == "unique":
            i = pick(lambda v: v.kind == "tensor" and v.dt in ("i64", "f32") and len(v.shape) == 1 and v.const)
            if i is not None:
                # shapes of Unique's outputs depend on the data: leave them to the library
                emit({"op": "unique", "args": [i]}, *[_V("opaque", None, None, True) for _ in range(4)])
        elif choice == "seq":
            i = pick(lambda v: is_t(v) and v.dt != "str")
            if i is not None:
                j = pick(lambda v: is_t(v) and v.dt == vs[i].dt and v.shape == vs[i].shape)
                emit({"op": "sequence_construct", "args": [i, j]},
                     _V("seq", vs[i].dt, vs[i].shape, vs[i].const and vs[j].const, 2))
        elif choice == "seq_at":
            i = pick(lambda v: v.kind == "seq")
            if i is not None:
                t = emit({"op": "const", "how": "value", "dt": "i64", "shape": [], "data": [rng.randrange(2)]}, _V("tensor", "i64", [], True))
                emit({"op": "sequence_at", "args": [i, t]}, _V("tensor", vs[i].dt, vs[i].shape, vs[i].const))
        elif choice == "concat_from_seq":
            i = pick(lambda v: v.kind == "seq" and len(v.shape) >= 1)
            if i is not None:
                emit({"op": "concat_from_sequence", "args": [i]},
                     _V("tensor", vs[i].dt, [vs[i].shape[0] * 2] + list(vs[i].shape[1:]), vs[i].const))
        elif choice == "optional":
            i = pick(lambda v: is_t(v) and v.dt != "str")
            if i is not None:
                o = emit({"op": "optional", "args": [i]}, _V("opt", vs[i].dt, vs[i].shape, vs[i].const))
                if rng.random() < 0.7:
                    emit({"op": "optional_get_element", "args": [o]}, _V("tensor", vs[i].dt, vs[i].shape, vs[i].const))
        elif choice == "where":
            i = pick(is_num)
            if i is not None:
                c = new_const("bool", vs[i].shape, "value")
                j = new_const(vs[i].dt, vs[i].shape, "value")
                emit({"op": "where", "args": [c, i, j]}, _V("tensor", vs[i].dt, vs[i].shape, vs[i].const))
        elif choice == "range":
            lim = rng.randrange(1, 5)
            a = emit({"op": "const", "how": "value", "dt": "i64", "shape": [], "data": [0]}, _V("tensor", "i64", [], True))
            b = emit({"op": "const", "how": "value", "dt": "i64", "shape": [], "data": [lim]}, _V("tensor", "i64", [], True))
            c = emit({"op": "const", "how": "value", "dt": "i64", "shape": [], "data": [1]}, _V("tensor", "i64", [], True))
            emit({"op": "range", "args": [a, b, c]}, _V("tensor", "i64", [lim], True))
        elif choice == "const_of_shape":
            shp = [rng.choice([1, 2, 3]) for _ in range(rng.randrange(1, 3))]
            t = emit({"op": "const", "how": "value", "dt": "i64", "shape": [len(shp)], "data": shp}, _V("tensor", "i64", [len(shp)], True))
            emit({"op": "constant_of_shape", "args": [t], "fill": rng.randrange(1, 5)}, _V("tensor", "i64", shp, True))
        elif choice == "inline":
            i = pick(lambda v: is_num(v) and v.shape == [3] and v.dt == "i64")
            if i is not None:
                j = pick(lambda v: is_num(v) and v.shape == [3] and v.dt == "i64")
                emit({"op": "inline", "args": [i, j]}, _V("tensor", "i64", [3], vs[i].const and vs[j].const),
                     _V("tensor", "i64", [3], vs[i].const and vs[j].const))
        elif choice == "loop_perm":
            # Loop with >= 2 carried values with constant initial values whose body hands them on permuted /
            # rotated / untouched; the trip count is a model input (0..3 at run time) or a constant
            if control_flow:
                k = rng.choice([2, 2, 3])
                inits_data = [[3, 4], [2, 6], [4, 3]][:k]
                perm = rng.choice({2: [[1, 0], [1, 0], [0, 1]], 3: [[1, 2, 0], [2, 0, 1], [0, 2, 1], [1, 0, 2]]}[k])
                if with_args and rng.random() < 0.75:
                    nvar = new_arg("i64", [])
                else:
                    nvar = emit({"op": "const", "how": "value", "dt": "i64", "shape": [], "data": [rng.randrange(0, 4)]}, _V("tensor", "i64", [], True))
                inits = [emit({"op": "const", "how": rng.choice(["value", "init"]), "dt": "i64", "shape": [2], "data": d}, _V("tensor", "i64", [2], True))
                         for d in inits_data]
                first = emit({"op": "loop_perm", "args": [nvar] + inits, "perm": perm},
                             *[_V("tensor", "i64", [2], False) for _ in range(k)])
                data = new_const(rng.choice(["f32", "i64"]), [12], "value")
                emit({"op": "reshape", "args": [data, first + rng.randrange(k)]}, _V("opaque", None, None, False))
        elif choice == "inline_mix":
            # an inlined model called with a MIX of constant and non-constant arguments (every combination), with /
            # without control flow whose bodies capture values derived from the non-constant argument
            kind = rng.choice(MIX_KINDS)
            if kind != "plain" and not control_flow and False:
                kind = "plain"
            def operand(want_const):
                if want_const or not with_args:
                    return new_const("i64", [2], rng.choice(["value", "init"]))
                return new_arg("i64", [2])
            combo = rng.choice([(True, False), (True, False), (False, True), (True, True), (False, False)])
            c, x = operand(combo[0]), operand(combo[1])
            allc = vs[c].const and vs[x].const
            nout = 3 if kind == "plain" else 2
            outs = [_V("tensor", "i64", [2], allc) for _ in range(2)] + ([_V("tensor", "i64", [1], True)] if kind == "plain" else [])
            first = emit({"op": "inline_mix", "kind": kind, "args": [c, x], "how": rng.choice(["kw", "mixed"])}, *outs[:nout])
            # what comes out is used: as a Reshape target and once more
            emit({"op": "identity", "args": [first + 1]}, _V("tensor", "i64", [2], allc))
        elif choice == "bigconst":
            # size classes around the 1024-element boundary x byte orders x Constant / initializer
            n = rng.choice([1023, 1024, 1025, 5000])
            dt = rng.choice(["f32", "i32", "i64", "f64"])
            st = {"op": "const", "how": rng.choice(["value", "init"]), "dt": dt, "shape": rng.choice([[n], [n]] + ([[n // 8, 8]] if n % 8 == 0 else [])), "gen": "pattern"}
            if rng.random() < 0.6:
                st["endian"] = ">"
            b = emit(st, _V("tensor", dt, list(st["shape"]), True))
            lo = emit({"op": "const", "how": "value", "dt": "i64", "shape": [1], "data": [0]}, _V("tensor", "i64", [1], True))
            hi = emit({"op": "const", "how": "value", "dt": "i64", "shape": [1], "data": [3]}, _V("tensor", "i64", [1], True))
            emit({"op": "slice", "args": [b, lo, hi]}, _V("tensor", dt, [3] + list(st["shape"][1:]), True))
        elif choice == "intros":
            # spox._internal_op.intros / intro: aliases with a shared dependency. A non-constant Var standing
            # *before* constants of the same dtype / shape (a slot shift would hand it a "constant").
            i = pick(is_t)
            if i is not None:
                v = vs[i]
                same = lambda w: is_t(w) and w.dt == v.dt and w.shape == v.shape  # noqa: E731
                group = [i]
                if v.dt in NUM + ["bool", "str"]:
                    group += [new_const(v.dt, v.shape, "value") for _ in range(rng.randrange(1, 3))]
                if with_args and v.dt in NUM and rng.random() < 0.7:
                    group.insert(rng.randrange(0, len(group)), new_arg(v.dt, v.shape))
                j = pick(same)
                if j is not None and rng.random() < 0.5:
                    group.insert(rng.randrange(0, len(group) + 1), j)
                emit({"op": "intros" if rng.random() < 0.7 else "intro", "args": group},
                     *([_V(vs[g].kind, vs[g].dt, vs[g].shape, vs[g].const, vs[g].elem) for g in group]))
                if steps[-1]["op"] == "intro":  # only the last alias is returned
                    del vs[len(vs) - len(group):len(vs) - 1]
        elif choice == "unsafe":
            # unsafe_reshape / unsafe_cast to a type the value really has (they copy the propagated value)
            i = pick(lambda v: is_t(v) and v.dt in NUM and control_flow)
            if i is not None:
                v = vs[i]
                shp = [d if rng.random() < 0.6 else None for d in v.shape]
                emit({"op": rng.choice(["unsafe_reshape", "unsafe_cast"]), "args": [i], "dt": v.dt, "shape": shp},
                     _V("tensor", v.dt, v.shape, v.const))
        elif choice == "inline_const":
            # a model WITHOUT graph inputs (constants only), inlined with no arguments
            emit({"op": "inline_const", "data": [rng.randrange(-4, 9) for _ in range(3)]}, _V("tensor", "i64", [3], True))
        elif choice == "inline0":
            # a node-less pass-through model (its outputs are its inputs) inlined on a constant / any tensor
            i = pick(lambda v: is_t(v) and v.dt in NUM + ["bool"] and (v.const or rng.random() < 0.3))
            if i is not None:
                emit({"op": "inline0", "args": [i], "dt": vs[i].dt, "shape": list(vs[i].shape)},
                     _V("tensor", vs[i].dt, vs[i].shape, vs[i].const))
        elif choice == "intdiv":
            # signed integer Div / Mod of constants with both signs and inexact quotients, rank 0 / 1
            dt = rng.choice(["i64", "i64", "i32"])
            n = rng.choice([0, 1, 2, 4])
            pool = [(-7, 2), (7, -2), (-9, 4), (8, -3), (-1, 2), (5, 3), (-5, -3), (-13, 5), (9, -4), (-6, 3)]
            prs = [rng.choice(pool) for _ in range(max(n, 1))]
            shape = [] if n == 0 else [n]
            a = emit({"op": "const", "how": rng.choice(["value", "init"]), "dt": dt, "shape": shape, "data": [p[0] for p in prs]}, _V("tensor", dt, shape, True))
            b = emit({"op": "const", "how": "value", "dt": dt, "shape": shape, "data": [p[1] for p in prs]}, _V("tensor", dt, shape, True))
            which = rng.choice(["div", "div", "mod0", "mod1"])
            if which == "div":
                emit({"op": "div", "args": [a, b]}, _V("tensor", dt, shape, True))
            else:
                emit({"op": "mod", "args": [a, b], "fmod": int(which[-1])}, _V("tensor", dt, shape, True))
        elif choice == "intdiv_shape":
            # ... and the quotient used as a shape-like input (Slice start, Tile repeats, Expand / Reshape target, Gather index)
            C = lambda data, shape: emit({"op": "const", "how": rng.choice(["value", "value", "init"]), "dt": "i64", "shape": shape, "data": data}, _V("tensor", "i64", list(shape), True))  # noqa: E731
            num, den = rng.choice([(-7, 2), (7, -2), (-5, 2), (-9, 4), (-7, 3)])
            q = int(num / den)  # ONNX integer Div truncates: -3, -3, -2, -2, -2
            d = emit({"op": "div", "args": [C([num], [1]), C([den], [1])]}, _V("tensor", "i64", [1], True))
            xdt = rng.choice(["i64", "f32"])
            use = rng.choice(["slice", "tile", "expand", "reshape", "gather"])
            if use == "slice":
                x = new_const(xdt, [6], "value")
                emit({"op": "slice", "args": [x, d, C([6], [1])]}, _V("tensor", xdt, [-q], True))
            elif use == "gather":
                x = new_const(xdt, [6], "value")
                emit({"op": "gather", "args": [x, d]}, _V("tensor", xdt, [1], True))
            else:
                pos = emit({"op": "neg", "args": [d]}, _V("tensor", "i64", [1], True))  # 3 or 2
                if use == "tile":
                    x = new_const(xdt, [2], "value")
                    emit({"op": "tile", "args": [x, pos]}, _V("tensor", xdt, [2 * -q], True))
                elif use == "expand":
                    x = new_const(xdt, [1], "value")
                    emit({"op": "expand", "args": [x, pos]}, _V("tensor", xdt, [-q], True))
                else:
                    x = new_const(xdt, [6], "value")
                    t = emit({"op": "concat", "args": [pos, C([-1], [1])]}, _V("tensor", "i64", [2], True))
                    emit({"op": "reshape", "args": [x, t]}, _V("tensor", xdt, [-q, 6 // -q], True))
        elif choice == "if":
            i = pick(lambda v: is_num(v)) if control_flow else None
            if i is not None:
                c = new_const("bool", [], "value")
                emit({"op": "if", "args": [c, i]}, _V("tensor", vs[i].dt, vs[i].shape, False))
    # constants / initializers created from NON-NATIVE-ENDIAN arrays (np.frombuffer(buf, '>f4') ...):
    # same values, other byte order - also for the shape-like targets emitted above
    for st in steps:
        if st["op"] == "const" and st.get("how") in ("value", "init") and st.get("dt") in NUM and rng.random() < 0.3:
            st["endian"] = ">"
    return steps


# -------------------------------------------------------------------------------- interpretation

_INLINE_MODEL = None


def _inline_model():
    """f(p, q) = (p * q + p, p - q) over int64[3]: two outputs of the same type."""
    global _INLINE_MODEL
    if _INLINE_MODEL is None:
        import spox.opset.ai.onnx.v17 as op
        from spox import Tensor, argument, build

        with L.backend_setting("none"):
            p = argument(Tensor(np.int64, (3,)))
            q = argument(Tensor(np.int64, (3,)))
            _INLINE_MODEL = build({"p": p, "q": q},
                                  {"r": op.add(op.mul(p, q), p), "s": op.sub(p, q)})
    return _INLINE_MODEL


_PASSTHROUGH: dict = {}
_CONSTMODEL: dict = {}
_MIXMODEL: dict = {}

MIX_KINDS = ["plain", "if_capture", "loop_capture", "if_const_only", "sampling", "sampling"]


def mix_model(kind: str):
    """g(c, x) over int64[2] with several outputs of different dependence (hand-written ModelProto, opset 17):
      plain        : y1 = c + c            y2 = c * x              y3 = Shape(x)
      if_capture   : y1 = c + c            y2 = If(sum(c) > 0) then (x + c, computed OUTSIDE the body and captured) else c
      loop_capture : y1 = c + c            y2 = Loop(trip = 2, v0 = c) { v = v + x  (x captured) }
      if_const_only: y1 = c + c            y2 = If(sum(c) > 0) then c + c else c   (control flow over constants only)
    A value for y2 (y3 excepted: the shape is static) can only be right if x is a constant too."""
    import onnx
    import onnx.helper as oh

    if kind in _MIXMODEL:
        return _MIXMODEL[kind]
    I64 = onnx.TensorProto.INT64
    vi = lambda n, shape=(2,), t=I64: oh.make_tensor_value_info(n, t, list(shape))  # noqa: E731
    nodes = [oh.make_node("Add", ["c", "c"], ["y1"])]
    outs = [vi("y1")]
    if kind == "plain":
        nodes += [oh.make_node("Mul", ["c", "x"], ["y2"]), oh.make_node("Shape", ["x"], ["y3"])]
        outs += [vi("y2"), vi("y3", (1,))]
    elif kind in ("if_capture", "if_const_only"):
        nodes += [oh.make_node("ReduceSum", ["c"], ["s"], keepdims=0),
                  oh.make_node("Constant", [], ["zero"], value=oh.make_tensor("zero", I64, [], [0])),
                  oh.make_node("Greater", ["s", "zero"], ["cond"]),
                  oh.make_node("Add", ["x", "c"] if kind == "if_capture" else ["c", "c"], ["t"])]
        then_g = oh.make_graph([oh.make_node("Identity", ["t"], ["then_out"])], "then", [], [vi("then_out")])
        else_g = oh.make_graph([oh.make_node("Identity", ["c"], ["else_out"])], "else", [], [vi("else_out")])
        nodes.append(oh.make_node("If", ["cond"], ["y2"], then_branch=then_g, else_branch=else_g))
        outs.append(vi("y2"))
    elif kind == "sampling":
        # a SAMPLING operator inside the inlined model: y2 = c + cast(10 * RandomUniformLike(cast(c))) - no constant
        nodes += [oh.make_node("Cast", ["c"], ["cf"], to=onnx.TensorProto.FLOAT), oh.make_node("RandomUniformLike", ["cf"], ["r"]),
                  oh.make_node("Constant", [], ["ten"], value=oh.make_tensor("ten", onnx.TensorProto.FLOAT, [], [10.0])),
                  oh.make_node("Mul", ["r", "ten"], ["r10"]), oh.make_node("Cast", ["r10"], ["ri"], to=I64),
                  oh.make_node("Add", ["c", "ri"], ["y2pre"]), oh.make_node("Add", ["y2pre", "x"], ["y2"])]
        outs.append(vi("y2"))
    elif kind == "loop_capture":
        body = oh.make_graph([oh.make_node("Add", ["v", "x"], ["v_out"]), oh.make_node("Identity", ["cond_in"], ["cond_out"])], "body",
                             [vi("i", ()), vi("cond_in", (), onnx.TensorProto.BOOL), vi("v")],
                             [vi("cond_out", (), onnx.TensorProto.BOOL), vi("v_out")])
        nodes += [oh.make_node("Constant", [], ["trip"], value=oh.make_tensor("trip", I64, [], [2])),
                  oh.make_node("Constant", [], ["true"], value=oh.make_tensor("true", onnx.TensorProto.BOOL, [], [True])),
                  oh.make_node("Loop", ["trip", "true", "c"], ["y2"], body=body)]
        outs.append(vi("y2"))
    else:
        raise ValueError(kind)
    g = oh.make_graph(nodes, "mix_" + kind, [vi("c"), vi("x")], outs)
    m = oh.make_model(g, opset_imports=[oh.make_operatorsetid("", 17)], ir_version=8)
    onnx.checker.check_model(m, full_check=True)
    _MIXMODEL[kind] = m
    return m


def _constant_model(data: tuple):
    """A model without graph inputs: y = Constant(data) * 2 (int64)."""
    import onnx
    import onnx.helper as oh

    if data not in _CONSTMODEL:
        c = oh.make_node("Constant", [], ["c"], value=oh.make_tensor("c", onnx.TensorProto.INT64, [len(data)], list(data)))
        m = oh.make_node("Add", ["c", "c"], ["y"])
        g = oh.make_graph([c, m], "constmodel", [], [oh.make_tensor_value_info("y", onnx.TensorProto.INT64, [len(data)])])
        _CONSTMODEL[data] = oh.make_model(g, opset_imports=[oh.make_operatorsetid("", 17)])
    return _CONSTMODEL[data]


def _passthrough_model(dt: str, shape: tuple):
    """A model without nodes: its single output *is* its input (`x`)."""
    import onnx
    import onnx.helper as oh

    key = (dt, shape)
    if key not in _PASSTHROUGH:
        et = oh.np_dtype_to_tensor_dtype(np.dtype(_NP[dt]))
        vi = oh.make_tensor_value_info("x", et, list(shape))
        g = oh.make_graph([], "passthrough", [vi], [vi])
        _PASSTHROUGH[key] = oh.make_model(g, opset_imports=[oh.make_operatorsetid("", 17)])
    return _PASSTHROUGH[key]


def _array(step):
    dt = step["dt"]
    if step.get("gen") == "pattern":
        n = int(np.prod(step["shape"]))
        base = (np.arange(n, dtype=np.int64) * 7919) % 2003 - 1000
        arr = (base / 8.0 if dt in ("f32", "f64") else base).astype(_NP[dt]).reshape(tuple(step["shape"]))
    else:
        arr = np.array(step["data"], dtype=_NP[dt]).reshape(tuple(step["shape"]))
    if step.get("endian") == ">":
        arr = arr.astype(arr.dtype.newbyteorder(">"))
    return arr


def apply_step(step: dict, vars_: list) -> list:
    """Apply one step with the real constructors; returns the list of new Vars."""
    import spox.opset.ai.onnx.v17 as op
    from spox import Tensor, argument, inline
    from spox._public import initializer

    o = step["op"]
    a = [vars_[i] for i in step.get("args", [])]
    if o == "const":
        how = step["how"]
        if how == "value":
            return [op.constant(value=_array(step))]
        if how == "init":
            return [initializer(_array(step))]
        enc = (lambda x: x.encode("utf-8")) if step.get("bytes") else (lambda x: x)
        if how == "value_string":
            return [op.constant(value_string=enc(step["data"]))]
        if how == "value_strings":
            return [op.constant(value_strings=[enc(x) for x in step["data"]])]
        if how in ("value_int", "value_float"):
            return [op.constant(**{how: step["data"]})]
        return [op.constant(**{how: list(step["data"])})]
    if o == "arg":
        return [argument(Tensor(_NP[step["dt"]], tuple(step["shape"])))]
    if o == "arg_default":
        from spox._graph import arguments

        return list(arguments(**{step["name"]: _array(step)}))
    if o in ("neg", "abs", "identity", "shape", "size", "transpose", "optional", "optional_get_element",
             "concat_from_sequence"):
        if o == "concat_from_sequence":
            return [op.concat_from_sequence(a[0], axis=0)]
        return [getattr(op, o)(a[0])]
    if o == "mod":
        return [op.mod(a[0], a[1], fmod=step["fmod"])]
    if o == "compress":
        return [op.compress(a[0], a[1], axis=step["axis"])]
    if o == "one_hot":
        return [op.one_hot(a[0], a[1], a[2], axis=step["axis"])]
    if o == "pad":
        return [op.pad(a[0], a[1])]
    if o == "squeeze":
        return [op.squeeze(a[0], a[1] if len(a) > 1 else None)]
    if o == "split_sizes":
        return list(op.split(a[0], a[1], outputs_count=2, axis=step["axis"]))
    if o == "non_zero":
        return [op.non_zero(a[0])]
    if o == "cumsum":
        return [op.cumsum(a[0], a[1])]
    if o == "slice_n":
        return [op.slice(*a)]
    if o == "reduce_sum_k":
        return [op.reduce_sum(a[0], a[1], keepdims=step["keepdims"])]
    if o == "gather_ax":
        return [op.gather(a[0], a[1], axis=step["axis"])]
    if o == "resize":
        if step["by"] == "sizes":
            return [op.resize(a[0], None, None, a[1], mode="nearest")]
        return [op.resize(a[0], None, a[1], None, mode="nearest")]
    if o == "loop_perm":
        perm = step["perm"]
        trips = op.min([op.abs(a[0]), op.constant(value=np.array(3, dtype=np.int64))])
        return list(op.loop(trips, v_initial=list(a[1:]),
                            body=lambda _i, _c, *vs: [op.constant(value=np.array(True))] + [vs[p] for p in perm]))
    if o == "intros":
        from spox._internal_op import intros

        return list(intros(*a))
    if o == "intro":
        from spox._internal_op import intro

        return [intro(*a)]
    if o == "unsafe_reshape":
        from spox._internal_op import unsafe_reshape

        return [unsafe_reshape(a[0], tuple(step["shape"]))]
    if o == "unsafe_cast":
        from spox._internal_op import unsafe_cast

        return [unsafe_cast(a[0], Tensor(_NP[step["dt"]], tuple(step["shape"])))]
    if o == "inline_legacy":
        from harness import lib_vplegacy as LG

        m = LG.legacy_model(step["spec"])
        if step.get("how") == "kw":
            r = inline(m)(**{i.name: v for i, v in zip(m.graph.input, a)})
        else:
            r = inline(m)(*a)
        return list(r.values())
    if o == "identity_m":
        import importlib

        return [importlib.import_module("spox.opset.ai.onnx." + step["mod"]).identity(a[0])]
    if o == "mlop":
        from harness import lib_vpdtype as DT

        return DT.apply_mlop(step, a)
    if o == "inline_mix":
        m = mix_model(step["kind"])
        r = inline(m)(a[0], x=a[1]) if step.get("how") == "mixed" else inline(m)(c=a[0], x=a[1])
        return list(r.values())
    if o == "loop_break":
        # Loop with a CONSTANT trip count M, cond omitted / constant true, whose body turns the condition off
        # after `k` iterations: the scan output has k + 1 (< M) rows, whatever M promises
        kconst = op.constant(value=np.array(step["k"], dtype=np.int64))
        cond = None if step["cond"] == "omitted" else op.constant(value=np.array(True))
        data = a[1] if len(a) > 1 else None

        def body(i, _c, *vs):
            elem = op.add(i, i) if data is None else op.mul(data, op.cast(i, to=np.float32))
            return [op.less(i, kconst)] + list(vs) + [elem]

        return list(op.loop(a[0], cond, v_initial=[], body=body))
    if o == "inline_const":
        return list(inline(_constant_model(tuple(step["data"])))().values())
    if o == "inline0":
        return list(inline(_passthrough_model(step["dt"], tuple(step["shape"])))(x=a[0]).values())
    if o in ("add", "sub", "mul", "div", "equal", "less", "reshape", "expand", "tile", "sequence_at"):
        return [getattr(op, o)(a[0], a[1])]
    if o == "cast":
        return [op.cast(a[0], to=_NP[step["to"]])]
    if o == "slice":
        return [op.slice(a[0], a[1], a[2])]
    if o == "gather":
        return [op.gather(a[0], a[1], axis=0)]
    if o == "concat":
        return [op.concat([a[0], a[1]], axis=0)]
    if o == "reduce_sum":
        return [op.reduce_sum(a[0], a[1], keepdims=0)]
    if o == "unsqueeze":
        return [op.unsqueeze(a[0], a[1])]
    if o == "topk":
        return list(op.top_k(a[0], a[1], axis=step.get("axis", -1)))
    if o == "split":
        return list(op.split(a[0], outputs_count=2))
    if o == "unique":
        return list(op.unique(a[0], sorted=1))
    if o == "sequence_construct":
        return [op.sequence_construct([a[0], a[1]])]
    if o == "where":
        return [op.where(a[0], a[1], a[2])]
    if o == "range":
        return [op.range(a[0], a[1], a[2])]
    if o == "constant_of_shape":
        return [op.constant_of_shape(a[0], value=np.array([step["fill"]], dtype=np.int64))]
    if o == "inline":
        r = inline(_inline_model())(p=a[0], q=a[1])
        return [r["r"], r["s"]]
    if o == "if":
        x = a[1]
        return list(op.if_(a[0], then_branch=lambda: [op.add(x, x)], else_branch=lambda: [op.mul(x, x)]))
    raise ValueError(step)


def run_program(steps: list, sel: str, script=None, at: str = "run") -> dict:
    """Interpret the program under backend `sel`. `script(call_index, model) -> backend-json | None`
    injects faults below spox. Returns {"vars": [...], "raised": (step index, class) | None,
    "calls": n, "step_of_var": [...]}."""
    vars_: list = []
    step_of: list = []
    state = {"n": 0}

    def fn(model):
        i = state["n"]
        state["n"] += 1
        return None if script is None else script(i, model)

    sb = L.ScriptedBackend(fn, at=at)
    raised = None
    with warnings.catch_warnings():
        warnings.simplefilter("ignore")
        with L.backend_setting(sel), sb.installed():
            for k, st in enumerate(steps):
                try:
                    new = apply_step(st, vars_)
                except Exception as e:  # noqa: BLE001
                    raised = (k, type(e).__name__, str(e)[:200])
                    break
                vars_.extend(new)
                step_of.extend([k] * len(new))
    return {"vars": vars_, "raised": raised, "calls": state["n"], "step_of_var": step_of}


# ------------------------------------------------------------------------- model-free helpers

def has_argument_in_cone(var) -> bool:
    """Structural: does any Argument node feed (transitively) into `var`? (own graph walk)"""
    seen, stack = set(), [var]
    while stack:
        v = stack.pop()
        if id(v) in seen or v is None:
            continue
        seen.add(id(v))
        node = v._op
        if type(node).__name__ == "Argument":
            return True
        stack.extend(node.inputs.get_vars().values())
    return False


def to_plain(x) -> Any:
    """ORT-format value -> nested lists/arrays for comparison."""
    return x


def nul_class(prop, runtime) -> Optional[str]:
    """Is the difference between two string values only about NUL characters? -> finding family."""
    try:
        a = [str(x) for x in np.asarray(prop).reshape(-1)]
        b = [str(x) for x in np.asarray(runtime).reshape(-1)]
    except Exception:  # noqa: BLE001
        return None
    if len(a) != len(b) or a == b:
        return None
    if all(x == y.rstrip("\0") for x, y in zip(a, b)):
        return "trailing-NUL-stripped"
    if all(x == y or x == y.split("\0")[0] or x == y.rstrip("\0") for x, y in zip(a, b)):
        return "embedded-NUL-truncated"
    return None


def values_equal(a, b, rtol=1e-6, atol=1e-7) -> Optional[str]:
    """Compare a propagated value (ORT format) with a runtime result; None if equal."""
    if a is None or b is None:
        return None if a is None and b is None else f"none-vs-{type(b).__name__ if a is None else type(a).__name__}"
    if isinstance(a, list) or isinstance(b, list):
        if not (isinstance(a, list) and isinstance(b, list)):
            return "list-vs-nonlist"
        if len(a) != len(b):
            return f"len:{len(a)}-vs-{len(b)}"
        for x, y in zip(a, b):
            why = values_equal(x, y, rtol, atol)
            if why:
                return "elem-" + why
        return None
    a, b = np.asarray(a), np.asarray(b)
    if a.shape != b.shape:
        return f"shape:{a.shape}-vs-{b.shape}"
    ka, kb = a.dtype.kind, b.dtype.kind
    if ka in "UO" or kb in "UO":
        ok = [str(x) for x in a.reshape(-1)] == [str(y) for y in b.reshape(-1)]
        return None if ok else "strings-differ"
    if a.dtype != b.dtype:
        return f"dtype:{a.dtype}-vs-{b.dtype}"
    if ka in "fc":
        if a.dtype == np.float16:  # one float16 ulp is 1e-3 relative
            rtol = max(rtol, 4e-3)
            atol = min(atol, -1e-3) if atol < 0 else max(atol, 1e-3)
        if atol < 0:  # negative: scale by the magnitude of the runtime array
            fin = np.abs(b[np.isfinite(b)]) if b.size else b
            atol = -atol * max(1.0, float(fin.max()) if fin.size else 1.0)
        ok = np.allclose(a, b, rtol=rtol, atol=atol, equal_nan=True)
        return None if ok else "floats-differ"
    return None if np.array_equal(a, b) else "values-differ"


# ------------------------------------------------------------------------------ oracles (model-free)

_ONNX_NP = {1: np.float32, 6: np.int32, 7: np.int64, 11: np.float64, 9: np.bool_, 10: np.float16, 2: np.uint8,
            3: np.int8, 5: np.int16, 4: np.uint16, 12: np.uint32, 13: np.uint64}


def opn_of(steps: list, k: int, sel: str = "") -> str:
    """Operator label of step k used in failure keys. Inlined legacy models are labelled by the operator
    they exercise, the imported-version band and the operators after them as their downstream."""
    st = steps[k]
    if st["op"] == "inline_legacy":
        from harness import lib_vplegacy as LG

        ver = st["spec"]["ver"]
        band = "lt13" if ver < 13 else ("13to17" if ver < 18 else "ge18")
        return f"legacy-{LG.main_op(st['spec'])}-{band}@{sel}"
    if st["op"] == "mlop":
        return f"{st['name']}-{st.get('in_dt', '')}@{sel}"
    if st["op"] not in ("const", "arg", "arg_default"):
        for j in range(k - 1, -1, -1):
            if steps[j]["op"] == "inline_legacy":
                return opn_of(steps, j, sel) + "-downstream"
            if steps[j]["op"] == "mlop":
                return opn_of(steps, j, sel) + "-downstream"
    return st["op"]


def _short(x, n: int = 70) -> str:
    return " ".join(str(x).split())[:n]


def _is_arg(v) -> bool:
    return type(v._op).__name__ == "Argument"


def _exposable(v) -> bool:
    """ORT cannot return Optional-typed graph outputs through the Identity spox emits."""
    from spox import Optional as SOptional

    return v.type is not None and not isinstance(v.type, SOptional) and v.type._is_concrete


def random_feed(model, seed: int) -> dict:
    g = np.random.default_rng(seed)
    feed = {}
    for inp in model.graph.input:
        tt = inp.type.tensor_type
        shape = tuple(d.dim_value for d in tt.shape.dim)
        feed[inp.name] = g.integers(-3, 6, size=shape).astype(_ONNX_NP[tt.elem_type])
    return feed


def ort_run(model, feed):
    import onnxruntime

    opts = onnxruntime.SessionOptions()
    opts.log_severity_level = 3
    sess = onnxruntime.InferenceSession(model.SerializeToString(), opts)
    return sess.run(None, feed)


def type_key(t) -> str:
    from spox import Optional as SOptional, Sequence as SSequence

    if t is None:
        return "untyped"
    if isinstance(t, SSequence):
        return "seq"
    if isinstance(t, SOptional):
        return "opt"
    return "tensor"


# operator-level float32 rounding (exp / pow / accumulation order, cancellation in DFT / normalisations):
# 2e-5 relative, absolute part scaled by the magnitude of the array
LEGACY_TOL = {"rtol": 2e-5, "atol": -2e-6}


def legacy_as_written(step: dict) -> dict:
    """The inlined legacy model AS WRITTEN run by both third-party evaluators on the spec's constants
    (model-free evidence used only to *name* a third-party family, never to pass a difference)."""
    from harness import lib_vplegacy as LG

    spec = step["spec"]
    model = LG.legacy_model(spec)
    feed = {i["name"]: LG.arr_of(i) for i in spec["inputs"]}
    out = {"ort": None, "ref": None}
    try:
        out["ort"] = ort_run(model, feed)
    except Exception:  # noqa: BLE001
        pass
    try:
        import onnx.reference

        out["ref"] = onnx.reference.ReferenceEvaluator(model).run(None, feed)
    except Exception:  # noqa: BLE001
        pass
    return out


def legacy_family(step: dict, k: int, prop, built, sel: str, cache: dict) -> Optional[str]:
    """Why does the propagated value of output k of an inlined legacy model differ from the built model?
    -> 'inline-converter' (onnx.version_converter's output computes something else than the model as
    written does under onnxruntime, and the propagated value IS what the model as written computes under
    the selected backend), 'inline-reference-vs-ort' (the two evaluators disagree on the model as written
    and the propagated value is the selected evaluator's), or None (not explained by third parties)."""
    if "w" not in cache:
        cache["w"] = legacy_as_written(step)
    w = cache["w"]
    O = None if w["ort"] is None else w["ort"][k]
    R = None if w["ref"] is None else w["ref"][k]
    mine = O if sel == "onnxruntime" else R
    if mine is None or values_equal(prop, _like(mine, prop), **LEGACY_TOL) is not None:
        return None  # the propagated value is not what the selected evaluator computes for the model as written
    if O is not None and values_equal(_like(O, built), built, **LEGACY_TOL) is not None:
        return "inline-converter"
    if sel == "reference" and O is not None and values_equal(_like(R, O), O, **LEGACY_TOL) is not None:
        return "inline-reference-vs-ort"
    if sel == "reference" and O is None:
        # onnxruntime cannot run the model as written (Add-6 `axis`, Gemm-6 ...): the propagated value is
        # onnx.reference's, the built model is the converter's reading - nobody else to ask
        return "inline-reference-vs-converter"
    return None


def _like(x, y):
    """x in the representation of y (object string arrays -> str)."""
    x = np.asarray(x)
    if x.dtype.kind == "O":
        x = x.astype(str)
    return x


def _semantic_only(steps: list, step_of_var: list, i: int) -> bool:
    k = step_of_var[i]
    if steps[k]["op"] == "inline_mix":
        return True
    return steps[k]["op"] == "identity" and steps[step_of_var[steps[k]["args"][0]]]["op"] == "inline_mix"


def _where_truncated(steps: list, prop, runtime) -> bool:
    """A difference explained by Where on string tensors of different widths upstream: every propagated string
    (or split piece / length derived from one) stems from a runtime string cut short. Only claimed when the program
    has a Where over string operands and the propagated strings are proper prefixes of the runtime ones."""
    has_where = any(st["op"] == "where" and any(steps[a]["op"] == "const" and steps[a].get("dt") == "str" or steps[a]["op"] == "mlop" or steps[a]["op"] in ("gather", "concat", "identity", "where", "cast")
                                                  for a in st["args"][1:]) for st in steps)
    if not has_where:
        return False
    try:
        a, b = np.asarray(prop), np.asarray(runtime)
        if a.dtype.kind in "UO" and b.dtype.kind in "UO":
            if a.shape == b.shape:
                xs, ys = [str(x) for x in a.reshape(-1)], [str(y) for y in b.reshape(-1)]
                return xs != ys and all(y.startswith(x) for x, y in zip(xs, ys))
            return a.ndim == b.ndim == 2 and a.shape[0] == b.shape[0] and a.shape[1] < b.shape[1]  # StringSplit of a cut string: fewer pieces
        if a.dtype.kind == "i" and b.dtype.kind == "i" and a.shape == b.shape:  # StringSplit's piece counts
            return any(st["op"] == "mlop" and st.get("name") == "StringSplit" for st in steps) and bool(np.all(a <= b)) and bool(np.any(a < b))
    except Exception:  # noqa: BLE001
        return False
    return False


def c07_check_program(steps: list, sel: str, seed: int) -> dict:
    """C07 on one program under one backend. Returns {"failures": [(key, what)], "stats": {...}}."""
    import spox

    fails: list = []
    stats = {"valued": 0, "compared": 0, "derived_types": 0, "multi": 0}
    r = run_program(steps, sel)
    infra = None
    if r["raised"] and sel != "none":
        # value propagation only adds information: a program that constructs with propagation off must construct
        # under every backend (a propagated value of the wrong representation makes the NEXT constructor choke)
        off = run_program(steps, "none")
        if not off["raised"]:
            k_r, cls, msg = r["raised"]
            fails.append((f"construct-raises:{steps[k_r]['op'] if steps[k_r]['op'] != 'mlop' else steps[k_r]['name']}:{cls}",
                          f"[{sel}] step {k_r} {json_short(steps[k_r])} raised {cls} ({msg[:90]}) but constructs with propagation off"))
    if r["raised"]:
        # judge the Vars constructed before the raising step all the same (a wrong propagated constant
        # typically shows up *before* the operator that chokes on it)
        infra = f"program raised {r['raised']}"
    vars_ = r["vars"]
    valued = [(i, v) for i, v in enumerate(vars_) if L.has_value(v)]
    stats["valued"] = len(valued)
    stats["control_flow_valued"] = sum(1 for i, _ in valued if steps[r["step_of_var"][i]]["op"] in ("if", "loop_perm", "loop_break"))
    for i, v in valued:
        opn = opn_of(steps, r["step_of_var"][i], sel)
        why = L.conforms_var(v)
        if why:
            fails.append((f"value-not-of-type:{opn}:{type_key(v.type)}", f"var {i} of {opn}: {why}; type {v.type}"))
        try:
            dep = has_argument_in_cone(v)
        except Exception:  # noqa: BLE001 - graph walk not observable: the execution comparison still runs
            dep = False
        if dep and _semantic_only(steps, r["step_of_var"], i):
            # an output of an inlined model called with a MIX of constant and non-constant arguments may be a
            # function of the constants alone: structural dependence is no failure of the statement there -
            # the comparison with the runtime under several bindings of the inputs below is what judges it
            dep = False
        if dep:
            fails.append((f"input-dependent:{opn}", f"var {i} of {opn} carries a value but depends on an argument"))
    args = {f"a{i}": v for i, v in enumerate(vars_) if _is_arg(v)}
    exposed = [(i, v) for i, v in enumerate(vars_) if _exposable(v)]
    if not exposed:
        return {"failures": fails, "stats": stats, "infra": infra}
    try:
        model = spox.build(args, {f"v{i}": v for i, v in exposed})
    except Exception as e:  # noqa: BLE001
        return {"failures": fails, "stats": stats, "infra": f"build failed {type(e).__name__}: {str(e)[:200]}"}
    n_bind = 4 if any(st["op"] == "inline_mix" for st in steps) else 2
    for trial in range(n_bind):  # different bindings of the (unrelated) inputs
        feed = random_feed(model, seed * 7 + trial)
        try:
            outs = ort_run(model, feed)
        except Exception as e:  # noqa: BLE001
            return {"failures": fails, "stats": stats, "infra": f"ort failed {type(e).__name__}: {str(e)[:200]}"}
        ref_outs: list = []  # onnx.reference on the built model, computed only if onnxruntime disagrees
        legacy_cache: dict = {}
        legacy_class: dict = {}

        def second_opinion(pos):
            """The other evaluator's result for output `pos` of the *built* model (None if unavailable)."""
            if not ref_outs:
                try:
                    import onnx.reference

                    ref_outs.append(onnx.reference.ReferenceEvaluator(model).run(None, feed))
                except Exception:  # noqa: BLE001
                    ref_outs.append(None)
            return None if ref_outs[0] is None else ref_outs[0][pos]

        for pos, ((i, v), o) in enumerate(zip(exposed, outs)):
            opn = opn_of(steps, r["step_of_var"][i], sel)
            if L.has_value(v):
                stats["compared"] += 1
                if steps[r["step_of_var"][i]]["op"] in ("inline_legacy", "mlop"):
                    stats["focus_compared"] = stats.get("focus_compared", 0) + 1
                if opn in ("topk", "split", "unique", "inline", "inline0", "intros"):
                    stats["multi"] += 1
                k_step = r["step_of_var"][i]
                is_legacy = steps[k_step]["op"] == "inline_legacy"
                down_of = next((j for j in range(k_step - 1, -1, -1) if steps[j]["op"] == "inline_legacy"), None) \
                    if steps[k_step]["op"] not in ("const", "arg", "arg_default", "inline_legacy") else None
                after_mlop = any(steps[j]["op"] == "mlop" for j in range(k_step + 1)) and steps[k_step]["op"] not in ("const", "arg", "arg_default")
                tol = LEGACY_TOL if (is_legacy or down_of is not None or after_mlop) else {}
                why = values_equal(v._get_value(), o, **tol)
                if why and is_legacy:
                    try:
                        kk = int(str(v._which_output).rsplit("_", 1)[1])
                        fam = legacy_family(steps[k_step], kk, v._get_value(), o, sel, legacy_cache.setdefault(k_step, {}))
                    except Exception:  # noqa: BLE001
                        fam = None
                    if fam:
                        legacy_class[k_step] = fam
                        from harness import lib_vplegacy as LG

                        fails.append((f"{fam}:{LG.main_op(steps[k_step]['spec'])}",
                                      f"[{sel}] var {i} ({opn}): propagated {_short(v._get_value())} = the selected evaluator on the inlined model as written, "
                                      f"but the built (version-converted) model computes {_short(o)}"))
                        why = None
                if why and down_of is not None and legacy_class.get(down_of):
                    why = None  # consequence of the (reported) difference at the inlined model's own output
                if why and sel == "reference" and _where_truncated(steps, v._get_value(), o):
                    # onnx.reference's Where returns `np.where(c, x, y).astype(x.dtype)`: with fixed-width numpy strings
                    # the elements taken from y are cut to x's width (third-party; listed family, never a silent pass)
                    fails.append(("string:reference-where-truncates",
                                  f"[{sel}] var {i} ({opn}): propagated {_short(v._get_value(), 60)} but the built model computes {_short(o, 60)}"))
                    why = None
                if why == "strings-differ":
                    fam = nul_class(v._get_value(), o)
                    if fam:  # numpy fixed-width strings / the ORT feed drop NULs: its own (listed) family
                        fails.append((f"string:{fam}", f"[{sel}] var {i} ({opn}): propagated {v._get_value()!r:.60} but the built model computes {o!r:.60}"))
                        why = None
                if why:
                    # onnxruntime is the reference for "what the model computes", but it has defects of its
                    # own (1.30: Gather on 2-D string tensors drops elements). A disagreement counts only if
                    # onnx.reference, run on the same built model, does not side with the propagated value.
                    alt = second_opinion(pos)
                    if alt is not None and values_equal(v._get_value(), alt) is None:
                        # the two third-party evaluators disagree on the built model and the propagated value
                        # sides with onnx.reference: a separate failure family (listed per operator in
                        # findings.d when it is a known third-party defect), never a silent pass
                        kind = "str" if np.asarray(o).dtype.kind in "UO" else np.asarray(o).dtype.kind
                        stats["evaluators_disagree"] = stats.get("evaluators_disagree", 0) + 1
                        fails.append((f"evaluators-disagree:{opn}:{kind}",
                                      f"[{sel}] var {i} ({opn}): propagated {str(v._get_value())[:60]} = onnx.reference on the built model, "
                                      f"but onnxruntime computes {str(o)[:60]}"))
                        why = None
                if why:
                    which = v._which_output
                    fails.append((f"value-differs:{opn}:{which}:{why.split(':')[0]}",
                                  f"[{sel}] var {i} ({opn}->{which}) propagated {_short(v._get_value(), 80)} but the built model computes {_short(o, 80)} ({why})"))
            # derived types (Reshape/Expand/Slice/Tile targets ...) against the runtime value
            stats["derived_types"] += 1
            if isinstance(o, np.ndarray):
                why = L.conforms(o if o.dtype.kind != "O" else o.astype(str), v.type)
                if why:
                    alt = second_opinion(pos)
                    if isinstance(alt, np.ndarray) and L.conforms(alt if alt.dtype.kind != "O" else alt.astype(str), v.type) is None:
                        why = None
                if why:
                    fails.append((f"type-unsound:{opn}:{why.split(':')[0]}",
                                  f"[{sel}] var {i} of {opn} reported {v.type} but the built model gives {o.dtype}{list(o.shape)}"))
    return {"failures": fails, "stats": stats, "infra": infra}


FAULT_KINDS = ["raise", "unknown-name", "list2", "none", "scalar", "wrongdtype", "wrongshape", "truncated",
               "nested-bad", "ragged", "opaque", "input-name", "noniterable", "empty", "nested-list",
               "objstr-wrongshape", "str-wrongshape", "objstr-wrongrank", "bool-wrongshape"]


def make_fault(kind: str, model, rng_id: int) -> dict:
    A = lambda dt, shape, pid: {"r": "arr", "dt": dt, "shape": shape, "pid": pid}  # noqa: E731
    names = [o.name for o in model.graph.output]
    per = {
        "list2": {"r": "list", "xs": [A("c64", [5], 1), A("c64", [5], 2)]},
        "none": {"r": "none"},
        "scalar": {"r": "scalar", "dt": "c64", "pid": 3},
        "wrongdtype": A("c64", [7, 1, 1, 1], 3),
        "wrongshape": A("i64", [7, 1, 1, 1, 1], 3),
        "nested-bad": {"r": "list", "xs": [A("c64", [3], 3), A("str", [1], 5)]},
        "ragged": {"r": "ragged"},
        "opaque": {"r": "opaque", "pid": 3},
        "nested-list": {"r": "list", "xs": [{"r": "list", "xs": [A("c64", [3], 3)]}]},
        # right element class for string / bool outputs, wrong shape or rank
        "objstr-wrongshape": A("object", [7], 3),
        "str-wrongshape": A("str", [7, 1], 3),
        "objstr-wrongrank": A("object", [1, 1, 1, 1, 7], 3),
        "bool-wrongshape": A("bool", [7, 1, 1, 1, 1], 1),
    }
    if kind == "raise":
        return {"raise": {"isExc": True, "id": rng_id}}
    if kind.startswith("raisev:"):  # an exception VALUE (lib_valueprop.EXC_VALUES) of the class `rng_id`
        return {"raise": {"isExc": True, "id": rng_id, "val": int(kind.split(":")[1])}}
    if kind.startswith("arr:"):  # "arr:<dt>:<d0>x<d1>..." - an explicit array, right dtype / chosen extents (round 10b)
        _, dt, sh = kind.split(":")
        shape = [int(x) for x in sh.split("x")] if sh else []
        n = 1
        for d in shape:
            n *= d
        return {"names": names, "vals": [A(dt, shape, 3 if n else 0)] * len(names)}
    if kind == "unknown-name":
        return {"names": ["zzz"] + names, "vals": [A("i64", [2], 1)] * (len(names) + 1)}
    if kind == "truncated":
        return {"names": names, "vals": []}
    if kind == "empty":
        return {"names": [], "vals": []}
    if kind == "noniterable":
        return {"names": names, "noniterable": True}
    if kind == "input-name":
        ins = [i.name for i in model.graph.input] or ["zzz"]
        return {"names": ins, "vals": [A("c64", [7], 3)] * len(ins)}
    return {"names": names, "vals": [per[kind]] * len(names)}


def c15_check_program(steps: list, sel: str, k: int, kind: str, at: str, exc_id: int = 0) -> dict:
    """Inject one fault at the k-th backend call of the program; judge the property on the real code."""
    fails: list = []
    base = run_program(steps, sel)
    if base["raised"]:
        return {"failures": [], "infra": f"fault-free program raised {base['raised']}", "calls": base["calls"]}
    if base["calls"] == 0:
        return {"failures": [], "calls": 0}
    k = k % base["calls"]
    faulty = run_program(steps, sel, script=lambda i, m: make_fault(kind, m, exc_id) if i == k else None, at=at)
    if faulty["raised"]:
        st, cls, msg = faulty["raised"]
        ctor = "+".join(sorted({type_key(v.type) for v, s in zip(base["vars"], base["step_of_var"]) if s == st})) or "?"
        fails.append((f"escape:{kind}:{ctor}", f"[{sel}] {steps[st]['op']} raised {cls} ({msg[:80]}) under a '{kind}' backend fault"))
        return {"failures": fails, "calls": base["calls"]}
    effective = True
    for i, (vf, vb) in enumerate(zip(faulty["vars"], base["vars"])):
        opn = steps[base["step_of_var"][i]]["op"]
        if L.has_value(vf):
            why = L.conforms_var(vf)
            if why:
                fails.append((f"bad-value:{kind}:{type_key(vf.type)}", f"[{sel}] var {i} of {opn}: attached value does not conform to {vf.type}: {why}"))
            if not L.has_value(vb) or values_equal(vf._get_value(), vb._get_value()):
                effective = False  # the fault produced a conforming but different value: out of scope
    if effective:
        for i, (vf, vb) in enumerate(zip(faulty["vars"], base["vars"])):
            if not L.more_permissive(vf.type, vb.type):
                opn = steps[base["step_of_var"][i]]["op"]
                fails.append((f"type-changed:{kind}:{opn}", f"[{sel}] var {i} of {opn}: type {vf.type} under the fault, {vb.type} without"))
    return {"failures": fails, "calls": base["calls"], "effective": effective}


def _graph_sig(graph) -> list:
    """Nodes and initializers of a graph, without the type annotations (shapes are allowed to be
    less precise with propagation off), recursively through subgraph attributes."""
    import onnx

    def strip(g):
        g = onnx.GraphProto.FromString(g.SerializeToString())
        del g.value_info[:]
        for vi in list(g.input) + list(g.output):
            vi.ClearField("type")
        for n in g.node:
            for a in n.attribute:
                if a.type == onnx.AttributeProto.GRAPH:
                    a.g.CopyFrom(strip(a.g))
                elif a.type == onnx.AttributeProto.GRAPHS:
                    gs = [strip(x) for x in a.graphs]
                    del a.graphs[:]
                    a.graphs.extend(gs)
        return g

    g = strip(graph)
    return [n.SerializeToString(deterministic=True) for n in g.node] + \
        [t.SerializeToString(deterministic=True) for t in g.initializer]


def json_short(step) -> str:
    return str({k: v for k, v in step.items() if k != "data"} | {"data": str(step.get("data"))[:40]})


def off_check_program(steps: list, sel: str, seed: int) -> dict:
    """Build the program with propagation on and off: same nodes, same behaviour."""
    import spox

    fails: list = []
    on = run_program(steps, sel)
    off = run_program(steps, "none")
    if on["raised"]:
        st, cls, msg = on["raised"]
        if steps[st]["op"] == "const":  # no backend involved: spox's own Constant / initializer propagation raised
            return {"failures": [(f"const-raises:{cls}", f"constructing {json_short(steps[st])} raised {cls}: {msg[:100]}")]}
        if not off["raised"]:  # constructs with propagation off, fails with it on (no fault injected)
            nm = steps[st]["name"] if steps[st]["op"] == "mlop" else steps[st]["op"]
            return {"failures": [(f"on-raises:{nm}:{cls}", f"[{sel}] {json_short(steps[st])} raised {cls} ({msg[:90]}) with propagation on, constructs with it off")]}
        return {"failures": [], "infra": f"program raised {on['raised']}"}
    if off["raised"]:
        st, cls, msg = off["raised"]
        return {"failures": [(f"off-raises:{steps[st]['op']}:{cls}", f"with propagation off {steps[st]['op']} raised {cls}: {msg[:100]}")]}
    idx = [i for i, (a, b) in enumerate(zip(on["vars"], off["vars"])) if _exposable(a) and _exposable(b)]
    idx = idx[-6:]
    if not idx:
        return {"failures": []}
    models = []
    # user names: plain, or (odd seeds) the formal parameter names of ONNX operators - a name of the build must never
    # meet a field key used for a propagated value
    keys_in = ["A", "B", "X", "input", "data", "shape", "axes", "indices", "x", "condition", "target_type", "pads", "split", "K", "starts", "ends"]
    keys_out = ["C", "Y", "output", "reshaped", "y", "Z", "reduced", "expanded", "squeezed", "Values", "Indices", "outputs_0", "concat_result", "transposed"]
    fancy = seed % 2 == 1
    in_name = lambda k, i: keys_in[k] if fancy and k < len(keys_in) else f"a{i}"  # noqa: E731
    out_name = lambda k, i: keys_out[k] if fancy and k < len(keys_out) else f"v{i}"  # noqa: E731
    for r in (on, off):
        args = {in_name(k, i): v for k, (i, v) in enumerate((i, v) for i, v in enumerate(r["vars"]) if _is_arg(v))}
        try:
            models.append(spox.build(args, {out_name(k, i): r["vars"][i] for k, i in enumerate(idx)}))
        except Exception as e:  # noqa: BLE001
            which = "on" if r is on else "off"
            if which == "off" and len(models) == 1:
                if "does not specify the shape" in str(e) or "not concrete" in str(e):
                    # fewer types are known without propagated values and `build` insists on known ranks: no model to compare
                    return {"failures": [], "infra": f"builds only with propagation on: {str(e)[:120]}"}
                return {"failures": [(f"off-build-fails:{type(e).__name__}", f"build fails only with propagation off: {str(e)[:150]}")]}
            return {"failures": [], "infra": f"build failed ({which}) {type(e).__name__}: {str(e)[:150]}"}
    m_on, m_off = models
    if _graph_sig(m_on.graph) != _graph_sig(m_off.graph):
        fails.append(("off-graph-differs", "the emitted nodes / initializers differ between propagation on and off"))
    try:
        feed = random_feed(m_on, seed)
        a, b = ort_run(m_on, feed), ort_run(m_off, feed)
    except Exception as e:  # noqa: BLE001
        return {"failures": fails, "infra": f"ort failed {type(e).__name__}: {str(e)[:150]}"}
    if any(st["op"] == "mlop" and st.get("fn") in ("random_uniform", "random_normal", "random_uniform_like", "random_normal_like", "multinomial", "bernoulli")
           or st["op"] == "mlop" and st.get("name") == "dropout_train" for st in steps):
        return {"failures": fails}  # two runs of a sampling program differ by nature: only the emitted graphs are compared
    for i, x, y in zip(idx, a, b):
        why = values_equal(x, y)
        if why:
            fails.append((f"off-behaviour-differs:{steps[on['step_of_var'][i]]['op']}", f"var {i}: {why}"))
    return {"failures": fails}


# ------------------------------------------------------------- history correspondence (tie H, C07)

def _const_array(step):
    how = step["how"]
    if how in ("value", "init"):
        return _array(step)
    if how == "value_int":
        return np.array(step["data"], dtype=np.int64)
    if how == "value_ints":
        return np.array(list(step["data"]), dtype=np.int64).reshape(-1)
    if how == "value_float":
        return np.array(step["data"], dtype=np.float32)
    if how == "value_floats":
        return np.array(list(step["data"]), dtype=np.float32).reshape(-1)
    if how == "value_string":
        return np.array(step["data"], dtype=np.str_)
    return np.array(list(step["data"]), dtype=np.str_).reshape(-1)


NON_DETERMINISTIC = {"RandomUniform", "RandomNormal", "RandomUniformLike", "RandomNormalLike", "Multinomial", "Bernoulli", "Dropout"}


def schema_non_deterministic(node) -> bool:
    """Is the node a sampling operator of the default domain? (the harness's own list from the ONNX operator
    documentation: `OpSchema.non_deterministic` of onnx 1.22 is also set for Range / If / Loop / *Window)"""
    try:
        ot = node.op_type
        return ot.domain in ("", "ai.onnx") and ot.identifier in NON_DETERMINISTIC
    except Exception:  # noqa: BLE001
        return False


def model_has_control_flow(model) -> bool:
    """Does any node of the (top-level) graph carry a GRAPH / GRAPHS attribute? (own scan of the ModelProto)"""
    import onnx

    return any(a.type in (onnx.AttributeProto.GRAPH, onnx.AttributeProto.GRAPHS) for n in model.graph.node for a in n.attribute)


def record_history(steps: list, sel: str, script=None, at: str = "run") -> dict:
    """Run the program and describe it as a model history (`VP.Step` list) together with the values
    the real code attached. Programs with control flow are not described (returns {"skip": ...})."""
    if any(st["op"] in ("if", "loop_perm", "loop_break", "unsafe_reshape", "unsafe_cast") for st in steps):
        return {"skip": "control flow / unsafe_* (outside the history model)"}
    reg = L.PidRegistry()
    nonconf: list = []
    vars_: list = []
    ref_of: dict = {}
    hist: list = []
    real_vals: list = []
    state = {"n": 0}

    def fn(model):
        i = state["n"]
        state["n"] += 1
        return None if script is None else script(i, model)

    sb = L.ScriptedBackend(fn, at=at)
    with warnings.catch_warnings():
        warnings.simplefilter("ignore")
        with L.backend_setting(sel), sb.installed():
            for k, st in enumerate(steps):
                before = len(sb.log)
                try:
                    new = apply_step(st, vars_)
                except Exception as e:  # noqa: BLE001
                    return {"raised": (k, type(e).__name__, str(e)[:200])}
                calls = sb.log[before:]
                if len(calls) > 1:
                    return {"skip": "several backend calls in one step"}
                node = new[0]._op
                idx = len(hist)
                outs = [{"key": key, "type": L.canon_type(v.type)} for key, v in node.outputs.get_vars().items()]
                if st["op"] in ("arg", "arg_default"):
                    hist.append({"k": "argument", "key": "arg", "type": L.canon_type(new[0].type)})
                elif st["op"] == "const":
                    arr = _const_array(st)
                    hist.append({"k": "constant", "key": outs[0]["key"], "type": outs[0]["type"],
                                 "payload": {"p": "arr", "dt": L.arr_code(arr), "shape": list(arr.shape), "pid": reg(arr)}})
                else:
                    ins, names, seen = [], [], set()
                    for key, v in node.inputs.get_vars().items():
                        if id(v) in seen:
                            continue
                        seen.add(id(v))
                        ins.append(ref_of[id(v)])
                        names.append(key)
                    if calls:
                        c = calls[0]
                        backend = ({"raise": c["raise"]} if "raise" in c else
                                   {"names": c.get("names", []), "vals": [L.to_ref_json(o, reg) for o in c.get("objs", [])]})
                    else:
                        backend = {"names": [], "vals": []}
                    h = {"sel": sel, "inputs": ins, "inNames": names, "outs": outs, "backend": backend}
                    # the three facts behind "propagate_values returns early" are observed separately, with the
                    # harness's own means (operator list from the ONNX documentation, node.subgraphs, a scan of the
                    # inlined ModelProto); the MODEL combines them (`Traits.skips`, `propagates`)
                    if type(node).__name__ == "_Inline":
                        h.update({"k": "inline", "gnames": [o.name for o in node.graph.output], "hasSubgraph": False,
                                  "sampling": any(n.op_type in NON_DETERMINISTIC and n.domain in ("", "ai.onnx") for n in node.model.graph.node),
                                  "inlineControlFlow": model_has_control_flow(node.model)})
                    else:
                        h.update({"k": "standard", "sampling": schema_non_deterministic(node), "inlineControlFlow": False,
                                  "hasSubgraph": next(iter(node.subgraphs), None) is not None})
                    hist.append(h)
                for j, (key, v) in enumerate(node.outputs.get_vars().items()):
                    ref_of[id(v)] = {"node": idx, "out": j}
                real_vals.append([{"key": key, "value": L.canon_pv(v._value, reg)}
                                  for key, v in node.outputs.get_vars().items()])
                for key, v in node.outputs.get_vars().items():
                    if L.has_value(v):
                        why = L.conforms_var(v)
                        if why:
                            nonconf.append((f"value-not-of-type:{st['op']}:{type_key(v.type)}",
                                            f"[{sel}] {st['op']}->{key}: attached value does not conform to {v.type}: {why}"))
                vars_.extend(new)
    return {"steps": hist, "real": real_vals, "failures": nonconf}


# ------------------------------------------------ derived types: operators whose inference reads constants

DERIVED_TEMPLATES = ["compress", "one_hot", "topk", "range", "constant_of_shape", "pad", "squeeze", "unsqueeze",
                     "split_sizes", "shape_gather", "non_zero_shape", "unique_size", "cumsum", "slice", "tile",
                     "expand", "reshape", "reduce", "gather", "resize", "loop_break"]


def gen_derived_program(rng, template: Optional[str] = None) -> list:
    """A small program around ONE operator whose type inference (ONNX data propagation or a spox
    override) reads a constant operand, with boundary constants (too long, negative, zero, INT64_MAX),
    on constant *and* on argument data."""
    steps: list = []
    count = [0]

    def emit(step, nout=1):
        steps.append(step)
        count[0] += nout
        return count[0] - nout

    def C(dt, shape, data, how=None):
        st = {"op": "const", "how": how or rng.choice(["value", "value", "init"]), "dt": dt, "shape": list(shape), "data": list(data)}
        if dt in NUM and rng.random() < 0.25:
            st["endian"] = ">"
        if dt in ("bool", "str"):
            st["how"] = "value" if dt == "str" else st["how"]
        return emit(st)

    def X(dt, shape):
        """The data operand: a constant or a model input."""
        if rng.random() < 0.5:
            return emit({"op": "arg", "dt": dt, "shape": list(shape)})
        return C(dt, shape, _data(rng, dt, shape))

    t = template or rng.choice(DERIVED_TEMPLATES)
    n, m = rng.choice([2, 3, 4]), rng.choice([2, 3])
    fdt = rng.choice(["f32", "i64"])
    if t == "compress":
        shape = rng.choice([[n], [n, m]])
        axis = rng.choice([None, 0, -1])
        alen = int(np.prod(shape)) if axis is None else shape[axis]
        L_ = max(1, alen + rng.choice([-1, 0, 0, 2, 3]))
        cond = [bool(rng.randrange(2)) for _ in range(L_)]
        if L_ > alen:
            cond[-1] = True  # a True past the end of the axis
        x = X(fdt, shape)
        c = C("bool", [L_], cond)
        emit({"op": "compress", "args": [x, c], "axis": axis})
    elif t == "one_hot":
        depth = rng.choice([1, 3, 5])
        idx = X("i64", rng.choice([[n], [n, m]]))
        ddt = rng.choice(["i64", "f32", "i32"])
        d = C(ddt, rng.choice([[], [1]]), [depth])
        v = C("f32", [2], [0.0, 1.0])
        emit({"op": "one_hot", "args": [idx, d, v], "axis": rng.choice([-1, 0])})
    elif t == "topk":
        x = X("f32", [n, m])
        axis = rng.choice([-1, 0])
        k = rng.choice([0, 1, [n, m][axis]])
        emit({"op": "topk", "args": [x, C("i64", [1], [k])], "axis": axis}, 2)
    elif t == "range":
        dt = rng.choice(["i64", "f32", "i32"])
        s_, l_, d_ = rng.choice([(0, 5, 1), (5, 0, -1), (5, 0, -2), (3, 3, 1), (0, 5, 2), (4, 1, 1), (-2, 3, 2), (1, -6, -3)])
        emit({"op": "range", "args": [C(dt, [], [s_]), C(dt, [], [l_]), C(dt, [], [d_])]})
    elif t == "constant_of_shape":
        shp = rng.choice([[0], [2, 0], [3], [1, 1, 2], []])
        emit({"op": "constant_of_shape", "args": [C("i64", [len(shp)], shp)], "fill": 3})
    elif t == "pad":
        shape = rng.choice([[n], [n, m]])
        r = len(shape)
        pads = [rng.choice([-1, 0, 0, 1, 2]) for _ in range(2 * r)]
        for ax in range(r):
            while shape[ax] + pads[ax] + pads[ax + r] < 0:
                pads[ax] += 1
        x = X("f32", shape)
        emit({"op": "pad", "args": [x, C("i64", [2 * r], pads)]})
    elif t == "squeeze":
        x = X(fdt, [1, n, 1])
        axes = rng.choice([[0], [-1], [0, 2], [0, -1], [2], None])
        if axes is None:
            emit({"op": "squeeze", "args": [x]})
        else:
            emit({"op": "squeeze", "args": [x, C("i64", [len(axes)], axes)]})
    elif t == "unsqueeze":
        x = X(fdt, [n, m])
        axes = rng.choice([[0], [-1], [0, 2], [-1, -3], [3, 0], [1]])
        emit({"op": "unsqueeze", "args": [x, C("i64", [len(axes)], axes)]})
    elif t == "split_sizes":
        shape = rng.choice([[n], [n, m]])
        axis = rng.choice([0, -1])
        k = rng.randrange(0, shape[axis] + 1)
        x = X(fdt, shape)
        emit({"op": "split_sizes", "args": [x, C("i64", [2], [k, shape[axis] - k])], "axis": axis}, 2)
    elif t == "shape_gather":
        x = X(fdt, [n, m])
        s = emit({"op": "shape", "args": [x]})
        idx = rng.choice([[-1], [0], [1, 0], [-2]])
        g = emit({"op": "gather", "args": [s, C("i64", [len(idx)], idx)]})
        if len(idx) == 1 and rng.random() < 0.5:
            emit({"op": "tile", "args": [C("f32", [2], [0.5, 1.5]), g]})
        else:
            emit({"op": "constant_of_shape", "args": [g], "fill": 2})
    elif t == "non_zero_shape":
        data = [rng.choice([0, 0, 1, 2]) for _ in range(n + 1)]
        c = C("i64", [n + 1], data) if rng.random() < 0.7 else emit({"op": "arg", "dt": "i64", "shape": [n + 1]})
        nz = emit({"op": "non_zero", "args": [c]})
        s = emit({"op": "shape", "args": [nz]})
        emit({"op": "constant_of_shape", "args": [s], "fill": 1})
    elif t == "unique_size":
        data = [rng.choice([1, 2, 2, 5]) for _ in range(n + 1)]
        c = C("i64", [n + 1], data)
        u = emit({"op": "unique", "args": [c]}, 4)
        sz = emit({"op": "size", "args": [u]})
        emit({"op": "range", "args": [C("i64", [], [0]), sz, C("i64", [], [1])]})
    elif t == "cumsum":
        x = X("f32", [n, m])
        emit({"op": "cumsum", "args": [x, C(rng.choice(["i64", "i32"]), rng.choice([[], [1]]), [rng.choice([0, -1, 1, -2])])]})
    elif t == "slice":
        x = X(fdt, [n, m])
        big = 2**63 - 1
        st_, en_, ax_, sp_ = rng.choice([([0], [big], [0], [1]), ([-1], [-big], [0], [-1]), ([1], [100], [-1], [1]),
                                         ([-2], [big], [1], [1]), ([0, 0], [1, big], [0, 1], [1, 2]), ([5], [7], [0], [1]),
                                         ([-100], [1], [-2], [1]), ([n - 1], [0], [0], [-2])])
        args = [x, C("i64", [len(st_)], st_), C("i64", [len(en_)], en_)]
        if rng.random() < 0.8:
            args.append(C("i64", [len(ax_)], ax_))
            if rng.random() < 0.7:
                args.append(C("i64", [len(sp_)], sp_))
        elif len(st_) == 1 and ax_ != [0]:
            args.append(C("i64", [len(ax_)], ax_))
        emit({"op": "slice_n", "args": args})
    elif t == "tile":
        x = X(fdt, [n, m])
        emit({"op": "tile", "args": [x, C("i64", [2], [rng.choice([0, 1, 2]), rng.choice([0, 1, 3])])]})
    elif t == "expand":
        x = X(fdt, [n, 1])
        tgt = rng.choice([[1, m], [n, m], [2, n, 1], [m], [1], [1, 1, 1]])
        emit({"op": "expand", "args": [x, C("i64", [len(tgt)], tgt)]})
    elif t == "reshape":
        x = X(fdt, [n, m])
        tgt = rng.choice([[0, -1], [-1], [n * m], [0, m], [1, 0, -1], [-1, 1], [m, n], [1, n * m, 1]])
        emit({"op": "reshape", "args": [x, C("i64", [len(tgt)], tgt)]})
    elif t == "reduce":
        x = X("f32", [n, m])
        axes = rng.choice([[-1], [0, 1], [0], [-2], [1, -2]])
        emit({"op": "reduce_sum_k", "args": [x, C("i64", [len(axes)], axes)], "keepdims": rng.randrange(2)})
    elif t == "gather":
        x = X(fdt, [n, m])
        idx = rng.choice([[-1], [0, -1], [[0], [-1]], [n - 1, 0, 0]])
        arr = np.array(idx)
        emit({"op": "gather_ax", "args": [x, C(rng.choice(["i64", "i32"]), [int(d) for d in arr.shape], [int(v) for v in arr.reshape(-1)])],
              "axis": rng.choice([0, -2])})
    elif t == "loop_break":
        # constant trip count M, cond omitted / constant true, the body breaks after k < M iterations; the scan
        # output (k + 1 rows) and everything derived from its shape must be typed soundly
        M = rng.choice([3, 4, 5, 7])
        k = rng.randrange(0, M - 1)
        if rng.random() < 0.2:
            k = M + 1  # never breaks: M rows
        trip = C("i64", [], [M], rng.choice(["value", "init"]))
        args = [trip]
        if rng.random() < 0.5:
            args.append(C("f32", [2], [0.5, 1.5]))
        sc = emit({"op": "loop_break", "args": args, "k": k, "cond": rng.choice(["omitted", "true"])})
        sh = emit({"op": "shape", "args": [sc]})
        if rng.random() < 0.5:
            emit({"op": "constant_of_shape", "args": [sh], "fill": 2})
        else:
            emit({"op": "size", "args": [sc]})
    elif t == "resize":
        x = X("f32", [1, 1, 2, m])
        if rng.random() < 0.5:
            emit({"op": "resize", "args": [x, C("i64", [4], [1, 1, rng.choice([1, 3, 4]), rng.choice([2, 5])])], "by": "sizes"})
        else:
            emit({"op": "resize", "args": [x, C("f32", [4], [1.0, 1.0, rng.choice([0.5, 1.5, 2.0]), rng.choice([1.0, 2.5])])], "by": "scales"})
    return steps
