"""C05 support: operator vocabulary, schema-driven call generator, real-constructor runner with
capture of the inference request, and the model-free oracle (hand-built node -> onnx strict inference).

Nothing in the *oracle* half (`oracle_*`, `ty_to_proto`, `proto_to_ty`) touches spox: it works from
`onnx.defs` and the abstract call only.
"""
from __future__ import annotations

import collections
import copy
import dataclasses
import hashlib
import importlib
import contextlib
import inspect
import re
import warnings
from typing import Any, Optional

import numpy as np
import onnx
import onnx.defs
import onnx.helper
import onnx.numpy_helper
import onnx.shape_inference

ORIG_INFER_SHAPES = onnx.shape_inference.infer_shapes  # saved before anything can be patched
# (onnxruntime is never imported in the parent process: its threads would not survive the fork of the
#  worker pool; its stderr noise is silenced around the call instead)

MODULES = [
    ("spox.opset.ai.onnx.v17", "", 17),
    ("spox.opset.ai.onnx.v18", "", 18),
    ("spox.opset.ai.onnx.v19", "", 19),
    ("spox.opset.ai.onnx.v20", "", 20),
    ("spox.opset.ai.onnx.v21", "", 21),
    ("spox.opset.ai.onnx.ml.v3", "ai.onnx.ml", 3),
    ("spox.opset.ai.onnx.ml.v4", "ai.onnx.ml", 4),
    ("spox.opset.ai.onnx.ml.v5", "ai.onnx.ml", 5),
]

ELEM = {
    "float": 1, "uint8": 2, "int8": 3, "uint16": 4, "int16": 5, "int32": 6, "int64": 7,
    "string": 8, "bool": 9, "float16": 10, "double": 11, "uint32": 12, "uint64": 13,
    "complex64": 14, "complex128": 15, "bfloat16": 16,
    "float8e4m3fn": 17, "float8e4m3fnuz": 18, "float8e5m2": 19, "float8e5m2fnuz": 20, "uint4": 21, "int4": 22,
}
ELEM_NAME = {v: k for k, v in ELEM.items()}
# element types the generator uses (numpy has them natively)
GEN_ELEMS = [1, 2, 3, 4, 5, 6, 7, 8, 9, 10, 11, 12, 13, 14, 15]
CONST_ELEMS = set(range(1, 14))  # element types the generator makes constants of
NP_OF = {
    1: np.float32, 2: np.uint8, 3: np.int8, 4: np.uint16, 5: np.int16, 6: np.int32, 7: np.int64,
    8: np.str_, 9: np.bool_, 10: np.float16, 11: np.float64, 12: np.uint32, 13: np.uint64,
    14: np.complex64, 15: np.complex128,
}
try:  # the element types numpy does not have natively (spox takes them from ml_dtypes)
    import ml_dtypes as _mld

    for _k, _n in ((16, "bfloat16"), (17, "float8_e4m3fn"), (18, "float8_e4m3fnuz"), (19, "float8_e5m2"),
                   (20, "float8_e5m2fnuz"), (21, "uint4"), (22, "int4")):
        if hasattr(_mld, _n):
            NP_OF[_k] = getattr(_mld, _n)
            GEN_ELEMS.append(_k)
except Exception:  # noqa: BLE001
    pass
ELEM_OF_NP = {np.dtype(v): k for k, v in NP_OF.items() if k != 8}


# --------------------------------------------------------------------------------------- types
def parse_type_str(s: str):
    """'seq(tensor(float))' -> ('seq', ('tensor', 1)); None if it mentions something we do not generate."""
    s = s.strip()
    if s.startswith("tensor(") and s.endswith(")"):
        e = ELEM.get(s[7:-1])
        return ("tensor", e) if e in GEN_ELEMS else None
    if s.startswith("seq(") and s.endswith(")"):
        inner = parse_type_str(s[4:-1])
        return ("seq", inner) if inner else None
    if s.startswith("optional(") and s.endswith(")"):
        inner = parse_type_str(s[9:-1])
        return ("opt", inner) if inner else None
    return None


def ty_to_proto(ty) -> onnx.TypeProto:
    if "t" in ty:
        return onnx.helper.make_tensor_type_proto(ty["t"], ty["s"])
    if "seq" in ty:
        return onnx.helper.make_sequence_type_proto(ty_to_proto(ty["seq"]))
    return onnx.helper.make_optional_type_proto(ty_to_proto(ty["opt"]))


def proto_to_ty(tp: onnx.TypeProto, keep_param=lambda s: True):
    """TypeProto -> abstract type (None for an empty TypeProto). Dim params rejected by `keep_param`
    (those the inference invented) are reported as unknown."""
    if tp.HasField("tensor_type"):
        tt = tp.tensor_type
        if not tt.HasField("shape"):
            return {"t": tt.elem_type, "s": None}
        dims = []
        for d in tt.shape.dim:
            if d.HasField("dim_value"):
                dims.append(int(d.dim_value))
            elif d.HasField("dim_param") and d.dim_param and keep_param(d.dim_param):
                dims.append(str(d.dim_param))
            else:
                dims.append(None)
        return {"t": tt.elem_type, "s": dims}
    if tp.HasField("sequence_type"):
        return {"seq": proto_to_ty(tp.sequence_type.elem_type, keep_param)}
    if tp.HasField("optional_type"):
        return {"opt": proto_to_ty(tp.optional_type.elem_type, keep_param)}
    if tp.WhichOneof("value") is None:
        return None
    return {"other": tp.WhichOneof("value")}


def proto_json(tp: onnx.TypeProto):
    """A TypeProto field by field, presence included (the model's `PTy`): rank 0 = shape present
    without dims, unknown rank = no shape; a dim carries a value, a parameter name, or nothing.
    None for what the model's types cannot express (map, sparse, empty)."""
    if tp.HasField("tensor_type"):
        tt = tp.tensor_type
        shape = None
        if tt.HasField("shape"):
            shape = [{"v": int(d.dim_value)} if d.HasField("dim_value") else {"p": str(d.dim_param)} if d.HasField("dim_param") else {}
                     for d in tt.shape.dim]
        return {"elem": int(tt.elem_type), "shape": shape}
    for k, f in (("seq", "sequence_type"), ("opt", "optional_type")):
        if tp.HasField(f):
            inner = proto_json(getattr(tp, f).elem_type)
            return None if inner is None else {k: inner}
    return None


def has_other(ty) -> bool:
    """the type mentions something spox's type system (and the model's `Ty`) cannot express (map, sparse)"""
    if not isinstance(ty, dict):
        return False
    if "other" in ty:
        return True
    return has_other(ty.get("seq")) or has_other(ty.get("opt"))


def dim_params(ty, acc: set):
    if ty is None:
        return acc
    if "t" in ty:
        for d in ty["s"] or []:
            if isinstance(d, str):
                acc.add(d)
    elif "seq" in ty:
        dim_params(ty["seq"], acc)
    elif "opt" in ty:
        dim_params(ty["opt"], acc)
    return acc


def const_array(c) -> np.ndarray:
    dt = NP_OF[c["dtype"]]
    return np.array(c["data"], dtype=dt).reshape(c["shape"])


def array_digest(elem: int, shape, flat) -> str:
    if elem == 8:
        raw = "\x00".join(x.decode() if isinstance(x, bytes) else str(x) for x in flat).encode()
    else:
        raw = np.ascontiguousarray(np.asarray(flat)).tobytes()
    return f"{elem}:{list(shape)}:{hashlib.sha1(raw).hexdigest()[:12]}"


# --------------------------------------------------------------------------------- vocabulary
@dataclasses.dataclass
class Op:
    module: str
    domain: str
    modver: int
    name: str
    shared_with: Optional[str] = None  # first module that ships the same node class

    @property
    def key(self):
        return f"{self.module.rsplit('.', 1)[1] if '.ml.' not in self.module else 'ml.' + self.module.rsplit('.', 1)[1]}.{self.name}"

    def schema(self) -> onnx.defs.OpSchema:
        return onnx.defs.get_schema(self.name, self.modver, self.domain)


SUBGRAPH_OPS: set = set()  # (all four subgraph operators are generated)
BODY_OPS = {"If", "Loop", "Scan", "SequenceMap"}  # generated with Identity bodies over outer-scope values


_SIG_RE = re.compile(r"Signature: ``([\w.]+)@(\d+)::(\w+)``")
_CTOR_CACHE: dict = {}


def module_constructors(modname: str) -> dict:
    """Public constructor functions of an opset module, by ONNX operator name (found through the
    `Signature: ``domain@version::Name``` line of their docstring - no private table is read)."""
    if modname not in _CTOR_CACHE:
        m = importlib.import_module(modname)
        out = {}
        for attr in sorted(dir(m)):
            if attr.startswith("_"):
                continue
            f = getattr(m, attr)
            doc = getattr(f, "__doc__", None)
            if callable(f) and isinstance(doc, str):
                mm = _SIG_RE.search(doc)
                if mm:
                    out.setdefault(mm.group(3), f)
        _CTOR_CACHE[modname] = out
    return _CTOR_CACHE[modname]


def load_vocabulary():
    """All (module, operator) pairs of the shipped opset modules (public constructors only)."""
    ops, first = [], {}
    for mod, dom, ver in MODULES:
        for name, fn in sorted(module_constructors(mod).items()):
            o = Op(mod, dom, ver, name)
            if fn in first:
                o.shared_with = first[fn]
            else:
                first[fn] = mod
            ops.append(o)
    return ops


def constructor(op: Op):
    return module_constructors(op.module)[op.name]


def node_class(op: Op):
    """The node class behind the constructor (spox-internal; only the correspondence needs it).
    None if it cannot be found."""
    try:
        return getattr(importlib.import_module(op.module), "_OPERATORS", {}).get(op.name)
    except Exception:  # noqa: BLE001
        return None


def real(op: Op):
    return node_class(op), constructor(op)


# Operators whose inference spox supplements / replaces itself on the pinned tree
# ((domain, name, since_version)); for these the oracle only demands "rejects at least what ONNX
# rejects". Everything else is compared in full, whatever the class looks like today.
SUPPLEMENTED = {
    ("", "Compress", 11), ("", "Loop", 16),
    ("ai.onnx.ml", "ArrayFeatureExtractor", 1), ("ai.onnx.ml", "Binarizer", 1), ("ai.onnx.ml", "CategoryMapper", 1),
    ("ai.onnx.ml", "Imputer", 1), ("ai.onnx.ml", "LinearRegressor", 1), ("ai.onnx.ml", "Normalizer", 1),
    ("ai.onnx.ml", "OneHotEncoder", 1), ("ai.onnx.ml", "Scaler", 1),
    ("ai.onnx.ml", "TreeEnsembleClassifier", 3), ("ai.onnx.ml", "TreeEnsembleRegressor", 3),
}


# ml operators for which ONNX infers an element type and no shape (Binarizer: the input type as it is)
ML_ELEM_ONLY = {"Scaler", "LinearRegressor", "Normalizer", "Imputer", "Binarizer"}  # (ArrayFeatureExtractor, OneHotEncoder: ONNX infers a shape too)


def is_supplemented(op: Op) -> bool:
    return (op.domain, op.name, op.schema().since_version) in SUPPLEMENTED


def is_patched(cls) -> bool:
    """(correspondence only) the class has its own `infer_output_types`."""
    from spox._standard import StandardNode

    for k in cls.__mro__:
        if k is StandardNode:
            return False
        if "infer_output_types" in k.__dict__:
            return True
    return False


def calls_onnx(cls) -> bool:
    """the operator's own `infer_output_types` runs the standard ONNX routine first (source inspection)"""
    import inspect as _i
    import textwrap

    try:
        src = textwrap.dedent(_i.getsource(cls.infer_output_types))
    except (OSError, TypeError):
        return False
    return "infer_output_types_onnx()" in src or "super().infer_output_types()" in src


# ---------------------------------------------------------------------------------- generator
STRING_CHOICES = {
    "auto_pad": ["NOTSET", "SAME_UPPER", "SAME_LOWER", "VALID"],
    "direction": ["forward", "reverse", "bidirectional"],
    "mode": None,  # per operator; default used
    "reduction": ["none", "sum", "mean"],
    "equation": ["ij->ji", "ij,jk->ik", "i,i->", "...ij->...ji"],
    "coordinate_transformation_mode": ["half_pixel", "asymmetric", "align_corners"],
    "nearest_mode": ["round_prefer_floor", "floor", "ceil"],
    "padding_mode": ["zeros", "border", "reflection"],
    "norm": ["MAX", "L1", "L2"],
    "post_transform": ["NONE", "SOFTMAX", "LOGISTIC"],
    "kernel_type": ["LINEAR", "POLY", "RBF", "SIGMOID"],
    "aggregate_function": ["AVERAGE", "SUM", "MIN", "MAX"],
    "cast_to": ["TO_FLOAT", "TO_STRING", "TO_INT64"],
    "map_form": ["DENSE", "SPARSE"],
    "string_vocabulary": None,
    "case_change_action": ["LOWER", "UPPER", "NONE"],
    "locale": ["en_US"],
    "activation": ["Relu", "Tanh", "Sigmoid"],
}


def _pick(rng, weighted):
    tot = sum(w for _, w in weighted)
    x = rng.random() * tot
    for v, w in weighted:
        x -= w
        if x <= 0:
            return v
    return weighted[-1][0]


SYM_POOLS = [(("N", "M", "K"), 80), (("batch_size", "N", "d_\u00e9"), 7), (("0", "unk_1", "N"), 6),
             (("unk__0", "N", "unk__12"), 7)]  # the caller's own names that look like ONNX's invented ones
_SYM_POOL = [("N", "M", "K")]  # the pool of the call being generated (set by gen_call)


def _rand_dims(rng, rank, sym_pool=None):
    dims = []
    sym_pool = sym_pool or _SYM_POOL[0]
    for _ in range(rank):
        k = rng.random()
        if k < 0.72:
            dims.append(rng.choice([1, 2, 2, 3, 3, 4, 5]))
        elif k < 0.86:
            dims.append(rng.choice(sym_pool))
        else:
            dims.append(None)
    return dims


def _variant(rng, base):
    """A shape related to `base`: same / broadcastable / fresh / unknown rank."""
    k = rng.random()
    if k < 0.55:
        return list(base)
    if k < 0.72:
        s = list(base)
        cut = rng.randint(0, len(s))
        s = s[cut:]
        return [1 if rng.random() < 0.3 else d for d in s]
    if k < 0.80:
        return None
    if k < 0.90:
        return _rand_dims(rng, rng.randint(0, 4))
    s = list(base)
    if s:
        i = rng.randrange(len(s))
        s[i] = rng.choice([1, 2, 3, 4, 5, None])
    return s


def _const_data(rng, elem, shape):
    n = int(np.prod(shape)) if shape else 1
    if elem == 8:
        return [rng.choice(["a", "b", "cc"]) for _ in range(n)]
    if elem == 9:
        return [bool(rng.getrandbits(1)) for _ in range(n)]
    if elem in (1, 10, 11):
        return [rng.choice([0.0, 0.5, 1.0, 2.0, -1.5]) for _ in range(n)]
    if elem in (2, 4, 12, 13):
        return [rng.randint(0, 4) for _ in range(n)]
    return [rng.randint(-2, 4) for _ in range(n)]


def _gen_attr_value(rng, op_name, aname, a, rank, is_dtype=False):
    T = onnx.defs.OpSchema.AttrType
    t = a.type
    r = max(rank, 1)
    if t == T.INT:
        if is_dtype:
            return {"dtype": rng.choice([1, 6, 7, 9, 11, 10, 2] + [x for x in (16, 17, 22) if x in NP_OF and rng.random() < 0.3])}
        if aname in ("to", "dtype", "output_datatype"):
            return rng.choice([1, 6, 7, 9, 11, 10, 2])
        if aname == "axis":
            return rng.randint(-r, r - 1) if rng.random() < 0.9 else r + 1
        if aname in ("keepdims", "largest", "sorted", "exclusive", "reverse", "allowzero",
                     "noop_with_empty_axes", "select_last_index", "ceil_mode", "count_include_pad",
                     "new_axis", "training_mode", "transA", "transB", "linear_before_reset",
                     "layout", "upper", "center_point_box", "time_axis", "batch_axis", "onesided",
                     "inverse", "periodic", "antialias", "exclude_outside", "storage_order",
                     "input_forget", "channels_last", "detect_negative", "detect_positive",
                     "align_corners", "is_case_sensitive", "keepdims"):
            return rng.choice([0, 1])
        if aname in ("blocksize", "group", "num_outputs", "hidden_size", "k", "batch_dims",
                     "num_groups", "p", "seed", "sample_size", "max_gram_length", "min_gram_length",
                     "max_skip_count", "stash_type", "n_targets", "targets", "n_supports"):
            return rng.choice([1, 2, 3]) if aname != "stash_type" else 1
        return rng.choice([0, 1, 2, -1])
    if t == T.INTS:
        if aname == "axes":
            k = rng.randint(0, min(r, 2))
            return sorted(rng.sample(range(r), k)) if rng.random() < 0.85 else [r + 2]
        if aname == "perm":
            p = list(range(rank))
            rng.shuffle(p)
            return p if rng.random() < 0.9 else p + [rank + 1]
        if aname in ("kernel_shape", "strides", "dilations", "output_padding"):
            sp = max(rank - 2, 1)
            return [rng.choice([1, 2]) for _ in range(sp)]
        if aname == "pads":
            sp = max(rank - 2, 1)
            return [rng.choice([0, 1]) for _ in range(2 * sp)]
        if aname in ("shape", "output_shape", "scales"):
            return [rng.choice([1, 2, 3]) for _ in range(rng.randint(1, 3))]
        if aname == "split":
            return [rng.choice([1, 2]) for _ in range(rng.randint(1, 3))]
        return [rng.choice([0, 1, 2]) for _ in range(rng.randint(0, 3))]
    if t == T.FLOAT:
        return rng.choice([0.0, 0.5, 1.0, 0.01, 2.0])
    if t == T.FLOATS:
        return [rng.choice([0.0, 0.5, 1.0, 2.0]) for _ in range(rng.randint(1, 3))]
    if t == T.STRING:
        ch = STRING_CHOICES.get(aname)
        if ch and rng.random() < 0.8:
            return rng.choice(ch)
        if a.default_value is not None and a.default_value.s:
            return a.default_value.s.decode()
        if ch:
            return rng.choice(ch)
        return rng.choice(["a", "NONE"])
    if t == T.STRINGS:
        return [rng.choice(["a", "b", "c"]) for _ in range(rng.randint(1, 3))]
    if t == T.TENSOR:
        e = rng.choice([1, 7, 6, 9, 11])
        shape = rng.choice([[1], [1], [], [2]]) if op_name == "ConstantOfShape" and rng.random() < 0.85 else _rand_dims(rng, rng.randint(0, 2), sym_pool=(2,))
        shape = [d if isinstance(d, int) else 2 for d in shape]
        return {"tensor": {"dtype": e, "shape": shape, "data": _const_data(rng, e, shape)}}
    if t == T.TYPE_PROTO:
        return {"type": {"t": rng.choice([1, 7]), "s": _rand_dims(rng, rng.randint(0, 2), sym_pool=("N", "M", "K"))}}
    return None  # GRAPH / SPARSE_TENSOR: not generated


def _known_scalar(rng, call, v, p):
    """with probability p make Var `v` (int / bool / float tensor with a concrete shape of at most 6
    elements) a constant with a known value, and switch value propagation on for the call"""
    if v is None or rng.random() >= p:
        return
    var = call["vars"][v]
    t = var["ty"]
    if t is None or "t" not in t or t["s"] is None or not all(isinstance(d, int) for d in t["s"]) or t["t"] not in CONST_ELEMS:
        return
    n = int(np.prod(t["s"] or [1]))
    if n > 6:
        return
    if t["t"] in (6, 7):
        data = [rng.choice([0, 1, 2, 3, 5]) for _ in range(n)]
    else:
        data = _const_data(rng, t["t"], t["s"])
    var["const"] = {"dtype": t["t"], "shape": list(t["s"]), "data": data}
    call.setdefault("vp", _pick(rng, [("default", 45), ("reference", 40), ("none", 15)]))


def _gen_body_call(rng, op: Op, force: Optional[str] = None) -> dict:
    """If / Loop: bodies are Identity nodes over outer-scope values (`sub` names them by Var id)."""
    family = force or _pick(rng, [("plain", 70), ("illtyped", 14), ("untyped", 6), ("unkrank", 10)])
    e = rng.choice([1, 7, 11, 9, 6])
    base = _rand_dims(rng, rng.randint(0, 3))
    vars_ = []

    def tvar(elem, shape):
        vars_.append({"ty": {"t": elem, "s": shape}, "const": None})
        return len(vars_) - 1

    def pool_var(k):
        r = rng.random()
        if family == "unkrank" and r < 0.4:
            return tvar(e, None)
        if r < 0.6:
            return tvar(e, list(base))
        if r < 0.85:
            return tvar(e, _variant(rng, base))
        return tvar(rng.choice([x for x in (1, 7, 9, 11) if x != e]) if family == "illtyped" or rng.random() < 0.2 else e, list(base))

    cond_elem = 9 if family != "illtyped" or rng.random() < 0.5 else rng.choice([1, 7])
    cond_shape = [] if rng.random() < 0.8 else rng.choice([[1], None, [2]])
    if op.name == "SequenceMap":
        vars_.append({"ty": {"seq": {"t": e, "s": list(base) if family != "unkrank" else None}}, "const": None})
        seq = len(vars_) - 1
        add = []
        for k in range(rng.choice([0, 0, 1, 2])):
            if rng.random() < 0.5:
                add.append(pool_var(k))
            else:
                vars_.append({"ty": {"seq": {"t": rng.choice([e, 7]), "s": _variant(rng, base)}}, "const": None})
                add.append(len(vars_) - 1)
        if family == "illtyped":
            vars_[seq] = {"ty": {"t": e, "s": list(base)}, "const": None}  # a tensor where a sequence is required
        outs = [rng.randrange(1 + len(add)) for _ in range(rng.choice([1, 1, 2, 3]))]
        call = {"module": op.module, "op": "SequenceMap", "vars": vars_, "args": [seq, add], "attrs": {},
                "sub": {"outs": outs}, "out_count": len(outs), "family": family}
    elif op.name == "Scan":
        L0 = rng.choice([3, 4, "T", None])
        ns, nscan = rng.choice([0, 1, 1, 2]), rng.choice([1, 1, 2])
        state = [pool_var(k) for k in range(ns)]
        scan = []
        for k in range(nscan):
            sh = _variant(rng, base)
            if family == "unkrank" and rng.random() < 0.4:
                scan.append(tvar(e, None))
            else:
                d0 = L0 if rng.random() < 0.85 else rng.choice([2, 5])
                scan.append(tvar(e if rng.random() < 0.8 else 7, [d0] + (sh if sh is not None else [])))
        souts = [rng.randrange(nscan) for _ in range(rng.choice([0, 1, 1, 2]) if ns else rng.choice([1, 2]))]
        sattrs = {"num_scan_inputs": nscan if family != "illtyped" or rng.random() < 0.5 else nscan + ns + 1}
        if rng.random() < 0.45:  # non-default axes / directions
            if rng.random() < 0.7:
                axes = []
                for v in scan:
                    sh = vars_[v]["ty"]["s"]
                    r = len(sh) if sh else 1
                    axes.append(rng.randint(-r, r - 1) if rng.random() < 0.9 else r + 1)
                sattrs["scan_input_axes"] = axes
            if rng.random() < 0.4:
                sattrs["scan_input_directions"] = [rng.choice([0, 1]) for _ in scan]
            if souts and rng.random() < 0.5:
                oaxes = []
                for j in souts:
                    sh = vars_[scan[j]]["ty"]["s"]
                    r = len(sh) if sh else 1  # rank of the scan output = rank of the slice + 1
                    oaxes.append(rng.randint(-r, r - 1))
                sattrs["scan_output_axes"] = oaxes
            if souts and rng.random() < 0.3:
                sattrs["scan_output_directions"] = [rng.choice([0, 1]) for _ in souts]
        call = {"module": op.module, "op": "Scan", "vars": vars_, "args": [state + scan],
                "attrs": sattrs,
                "sub": {"n_state": ns, "scan_outs": souts}, "out_count": ns + len(souts), "family": family}
    elif op.name == "If":
        cond = tvar(cond_elem, cond_shape)
        n = rng.choice([1, 1, 2, 3])
        then, els = [], []
        for k in range(n):
            a = pool_var(k)
            then.append(a)
            els.append(a if rng.random() < 0.5 else pool_var(k))
        if rng.random() < 0.05:
            els = els[:-1] or els
        call = {"module": op.module, "op": "If", "vars": vars_, "args": [cond], "attrs": {},
                "sub": {"then": then, "else": els}, "out_count": len(els), "family": family}
        _known_scalar(rng, call, cond, 0.35)
    else:
        M = tvar(7 if family != "illtyped" or rng.random() < 0.6 else 6, [] if rng.random() < 0.8 else [1]) if rng.random() < 0.7 else None
        cond = tvar(cond_elem, cond_shape) if rng.random() < 0.7 else None
        nc = rng.choice([0, 1, 1, 2])
        carried = [pool_var(k) for k in range(nc)]
        csrc = []
        for k in range(nc):
            r = rng.random()
            csrc.append("same" if r < 0.7 else pool_var(k))
        scan = [pool_var(k) for k in range(rng.choice([0, 0, 1, 2]) if nc else rng.choice([1, 2]))]
        call = {"module": op.module, "op": "Loop", "vars": vars_, "args": [M, cond, carried], "attrs": {},
                "sub": {"carried": csrc, "scan": scan}, "out_count": nc + len(scan), "family": family}
        # a trip count / condition whose VALUE is known at the call: the number of iterations is still
        # not (the body may end the loop), so nothing about the outputs may be derived from it
        _known_scalar(rng, call, M, 0.5)
        _known_scalar(rng, call, cond, 0.4)
        for v in carried:
            _known_scalar(rng, call, v, 0.15)
    if family == "untyped":
        present = [v for a in call["args"] for v in (a if isinstance(a, list) else [a]) if v is not None]
        if present:
            vars_[rng.choice(present)] = {"ty": None, "const": None}
    return call


# operators whose ONNX shape inference aborts the process natively on an empty constant operand
# (seen: OneHot with an empty `depth`/`values` -> libstdc++ assertion): never given zero-size dims
ZERO_DIM_FRAGILE = {"OneHot", "SplitToSequence"}


def zeroize(rng, call) -> bool:
    """Make one or two constant dimensions of the operands 0 (zero-size tensors: `if dim:` /
    `if shape:` truthiness confuses 0 with unknown and () with None). Constants follow their type."""
    if call["op"] in ZERO_DIM_FRAGILE:
        return False
    cands = []
    for i, v in enumerate(call["vars"]):
        t = v["ty"]
        while t is not None and "t" not in t:
            t = t.get("seq") or t.get("opt")
        if t is not None and t["s"]:
            cands += [(t, v, k) for k, d in enumerate(t["s"]) if isinstance(d, int) and d > 0]
    if not cands:
        return False
    for t, v, k in rng.sample(cands, min(len(cands), rng.choice([1, 1, 2]))):
        t["s"][k] = 0
        if v["const"] is not None and v["ty"] is t:
            v["const"] = {"dtype": t["t"], "shape": list(t["s"]), "data": []}
    call["zero_dim"] = True
    return True


TWL = ["NONE", "CRITICAL", "INITIAL", "OUTPUTS"]


def _ambient(rng, call):
    """ambient scoped settings the verdict must not depend on: the type-warning level"""
    if "skip" not in call and rng.random() < 0.1:
        call["twl"] = rng.choice(TWL)
    return call


VP_MODES = ["default", "reference", "onnxruntime"]
VP_WEIGHTS = [("default", 45), ("reference", 40), ("onnxruntime", 15)]  # onnxruntime cases run in a forked child


def constify(rng, call) -> bool:
    """Turn every present tensor operand into a constant with a known value (concrete small shape):
    the calling form 'all inputs are known constants', under which value propagation runs.
    Sets call['vp'] to a value-propagation mode. Returns False if some operand cannot be a constant."""
    used = [v for a in call["args"] for v in (a if isinstance(a, list) else [a]) if v is not None]
    ok = True
    sym = {}
    for v in dict.fromkeys(used):
        var = call["vars"][v]
        t = var["ty"]
        if t is None or "t" not in t or t["t"] not in CONST_ELEMS:
            ok = False
            continue
        if var["const"] is not None:
            continue
        shape = t["s"] if t["s"] is not None else [rng.choice([1, 2, 3]) for _ in range(rng.randint(0, 2))]
        conc = []
        for d in shape:
            if isinstance(d, int):
                conc.append(d)
            elif isinstance(d, str):
                conc.append(sym.setdefault(d, rng.choice([1, 2, 3])))
            else:
                conc.append(rng.choice([1, 2, 3]))
        if int(np.prod(conc or [1])) > 256:
            ok = False
            continue
        data = _const_data(rng, t["t"], conc)
        if t["t"] == 9 or call["op"] in ("NonZero", "Compress", "Unique"):
            pass
        var["ty"] = {"t": t["t"], "s": conc}
        var["const"] = {"dtype": t["t"], "shape": conc, "data": data}
    call["vp"] = _pick(rng, VP_WEIGHTS)
    call["family"] = "constfed" if ok else call["family"]
    return ok


def gen_call(rng, op: Op, force: Optional[str] = None) -> dict:
    """One abstract constructor call for `op`. `force` selects a calling-form family
    ("constfed": every operand a known constant, value propagation on)."""
    _SYM_POOL[0] = _pick(rng, SYM_POOLS)
    if op.name in BODY_OPS and "unk__0" in _SYM_POOL[0]:
        # (names reaching the outputs through a body's outer-scope values are not operand names: the
        #  constructor only looks at the input types - not generated, see design.d)
        _SYM_POOL[0] = ("N", "M", "K")
    if op.name in BODY_OPS:
        return _ambient(rng, _gen_body_call(rng, op, "plain" if force == "constfed" else force))
    constfed = force == "constfed"
    if constfed:
        force = "plain"
    sch = op.schema()
    O = onnx.defs.OpSchema.FormalParameterOption
    tc = {c.type_param_str: list(c.allowed_type_strs) for c in sch.type_constraints}

    # ---- type variable bindings (mostly valid)
    bind: dict[str, Any] = {}

    def choose(tstr):
        if tstr in tc:
            if tstr not in bind:
                cands = [p for p in (parse_type_str(s) for s in tc[tstr]) if p]
                pref = [c for c in cands if c == ("tensor", 1) or c == ("tensor", 7) or c == ("tensor", 11)]
                def inner(c):
                    while c[0] != "tensor":
                        c = c[1]
                    return c[1]
                prev = [inner(b) for b in bind.values() if b]
                coh = [c for c in cands if prev and inner(c) == prev[0]]
                if not cands:
                    bind[tstr] = None
                elif coh and rng.random() < 0.7:
                    bind[tstr] = rng.choice(coh)
                elif pref and rng.random() < 0.55:
                    bind[tstr] = rng.choice(pref)
                else:
                    bind[tstr] = rng.choice(cands)
            return bind[tstr]
        return parse_type_str(tstr)

    base_rank = _pick(rng, [(0, 1), (1, 2), (2, 4), (3, 3), (4, 3)])
    if op.name in RANK_HINT:
        lo, hi = RANK_HINT[op.name]
        base_rank = rng.randint(lo, hi) if rng.random() < 0.9 else base_rank
    base = _rand_dims(rng, base_rank)
    family = force or _pick(rng, [("plain", 70), ("illtyped", 10), ("untyped", 4), ("reuse", 10), ("unkrank", 6)])

    vars_: list[dict] = []
    args: list[Any] = []

    def shape_for(pname):
        if family == "unkrank" and rng.random() < 0.5:
            return None
        return _variant(rng, base)

    def mk_type(p, pname):
        if p is None:
            return None
        if p[0] == "tensor":
            return {"t": p[1], "s": shape_for(pname)}
        if p[0] == "seq":
            return {"seq": mk_type(p[1], pname)}
        return {"opt": mk_type(p[1], pname)}

    def new_var(param):
        p = choose(param.type_str)
        if p is None:
            return None
        ty = mk_type(p, param.name)
        const = None
        if "t" in ty:
            fixed_int = param.type_str in ("tensor(int64)", "tensor(int32)") or (
                param.type_str in tc and set(tc[param.type_str]) <= {"tensor(int64)", "tensor(int32)"}
            )
            shape_like = fixed_int and param.name not in ("indices", "X", "input", "data", "x", "A", "B", "target", "labels")
            if shape_like and rng.random() < 0.7:
                n = rng.randint(0, max(base_rank, 1) + 1) if rng.random() < 0.85 else None
                if param.name in ("axes",):
                    r = max(base_rank, 1)
                    data = sorted(rng.sample(range(r), rng.randint(0, min(r, 2))))
                    shape = [len(data)]
                elif param.name in ("K", "k", "depth", "num_outputs", "axis", "position", "start", "limit", "delta", "max_output_boxes_per_class", "trip_count", "M", "dft_length", "frame_length", "frame_step", "size"):
                    scalar = rng.random() < 0.5
                    data = [rng.randint(1, 3)]
                    shape = [] if scalar else [1]
                elif param.name in ("shape", "repeats", "sizes", "pads", "starts", "ends", "steps", "split", "output_shape"):
                    L = base_rank if rng.random() < 0.75 else rng.randint(0, 4)
                    if param.name == "pads":
                        L = 2 * L
                    if param.name == "shape" and rng.random() < 0.5 and all(isinstance(d, int) for d in base) and base:
                        data = list(base)
                        rng.shuffle(data)
                        if rng.random() < 0.3:
                            data[rng.randrange(len(data))] = -1
                    else:
                        data = [rng.choice([1, 1, 2, 3, 0, -1]) if param.name in ("shape", "starts", "ends") else rng.choice([1, 1, 2, 3]) for _ in range(L)]
                    shape = [len(data)]
                else:
                    L = n if n is not None else 1
                    data = [rng.randint(0, 3) for _ in range(L)]
                    shape = [L]
                ty = {"t": ty["t"], "s": shape}
                const = {"dtype": ty["t"], "shape": shape, "data": data}
            elif ty["s"] is not None and all(isinstance(d, int) for d in ty["s"]) and rng.random() < 0.07 and int(np.prod(ty["s"] or [1])) <= 24 and ty["t"] in CONST_ELEMS:
                const = {"dtype": ty["t"], "shape": list(ty["s"]), "data": _const_data(rng, ty["t"], ty["s"])}
        vars_.append({"ty": ty, "const": const, "tstr": param.type_str})
        return len(vars_) - 1

    def var_for(param):
        # one Var in several slots
        if vars_ and (family == "reuse" and rng.random() < 0.6 or rng.random() < 0.04):
            same = [i for i, v in enumerate(vars_) if v["tstr"] == param.type_str]
            if same:
                return rng.choice(same)
        return new_var(param)

    skip = False
    for i, p in enumerate(sch.inputs):
        if p.option == O.Single:
            v = var_for(p)
            if v is None:
                skip = True
            args.append(v)
        elif p.option == O.Optional:
            present = rng.random() < (0.55 if i >= sch.min_input else 0.8)
            if present:
                v = var_for(p)
                if v is None:
                    present = False
                args.append(v if present else None)
            else:
                args.append(None)
        else:
            n = _pick(rng, [(0, 4), (1, 22), (2, 44), (3, 30)])
            vs = []
            for _ in range(n):
                v = var_for(p)
                if v is None:
                    skip = True
                    break
                vs.append(v)
            args.append(vs)
    if skip:
        return {"skip": "input type not generated"}

    # ---- ill-typed: change one tensor var's element type
    if family == "illtyped":
        cands = [v for v in vars_ if v["ty"] and "t" in v["ty"]]
        if cands:
            v = rng.choice(cands)
            e = rng.choice([x for x in GEN_ELEMS if x != v["ty"]["t"]])
            v["ty"] = {"t": e, "s": v["ty"]["s"]}
            if v["const"]:
                v["const"] = {"dtype": e, "shape": v["const"]["shape"], "data": _const_data(rng, e, v["const"]["shape"])} if e in CONST_ELEMS else None
    if family == "untyped" and vars_:
        v = rng.choice(vars_)
        v["ty"] = None
        v["const"] = None

    # ---- attributes
    attrs = {}
    T = onnx.defs.OpSchema.AttrType
    try:
        ann = {p.name: str(p.annotation) for p in inspect.signature(constructor(op)).parameters.values()}
    except (TypeError, ValueError):
        ann = {}
    for aname, a in sorted(sch.attributes.items()):
        if a.type in (T.GRAPH, T.GRAPHS, T.SPARSE_TENSOR, T.SPARSE_TENSORS, T.TENSORS, T.TYPE_PROTOS):
            if a.required:
                return {"skip": f"attribute kind {a.type}"}
            continue
        give = a.required or rng.random() < 0.3
        if op.name == "Constant":
            continue
        if give:
            val = _gen_attr_value(rng, op.name, aname, a, base_rank, "DTypeLike" in ann.get(aname, ""))
            if val is not None:
                attrs[aname] = val
    if op.name == "Constant":
        aname = rng.choice(["value", "value_float", "value_floats", "value_int", "value_ints", "value_string", "value_strings"])
        attrs[aname] = _gen_attr_value(rng, op.name, aname, sch.attributes[aname], base_rank)
    fix = RECIPES.get(op.name)
    call = {"module": op.module, "op": op.name, "vars": [{"ty": v["ty"], "const": v["const"]} for v in vars_],
            "args": args, "attrs": attrs, "out_count": None, "family": family}
    if fix and family in ("plain", "reuse") and rng.random() < 0.75:
        fix(rng, call, base)
    if op.name == "SplitToSequence" and len(call["args"]) > 1 and call["args"][1] is not None:
        # onnx's shape inference divides by a constant `split` of 0 (SIGFPE kills the process - also the
        # user's): excluded from generation
        c = call["vars"][call["args"][1]]["const"]
        if c is not None:
            c["data"] = [x if x != 0 else 1 for x in c["data"]]
    if constfed:
        constify(rng, call)
    # variadic outputs
    for o in sch.outputs:
        if o.option == O.Variadic:
            call["out_count"] = call.get("out_count") or rng.choice([1, 2, 3])
            if "num_outputs" in sch.attributes:
                # Split-18+: the constructor takes the number of outputs from `num_outputs`
                call["attrs"]["num_outputs"] = call["out_count"]
    if rng.random() < 0.07:
        zeroize(rng, call)
    # the same attribute value spelled as a caller may: tuple / one-shot generator / numpy array /
    # numpy scalar / bool for 0-1 / int for an integral float
    for aname, val in call["attrs"].items():
        opts = spellings_for(val)
        if opts and rng.random() < 0.12:
            call.setdefault("spell", {})[aname] = rng.choice(opts)
    return _ambient(rng, call)


# operators that need a minimum rank to be accepted at all
RANK_HINT = {
    "Conv": (3, 4), "ConvTranspose": (3, 4), "ConvInteger": (3, 4), "QLinearConv": (3, 4), "MaxPool": (3, 4), "AveragePool": (3, 4),
    "LpPool": (3, 4), "GlobalAveragePool": (3, 4), "GlobalMaxPool": (3, 4), "GlobalLpPool": (3, 4),
    "MaxRoiPool": (4, 4), "RoiAlign": (4, 4), "MaxUnpool": (3, 4), "InstanceNormalization": (3, 4),
    "BatchNormalization": (2, 4), "DepthToSpace": (4, 4), "SpaceToDepth": (4, 4), "LRN": (3, 4),
    "MatMul": (2, 3), "MatMulInteger": (2, 3), "QLinearMatMul": (2, 3), "Gemm": (2, 2),
    "LSTM": (3, 3), "GRU": (3, 3), "RNN": (3, 3), "Flatten": (1, 4), "Col2Im": (3, 3),
    "GridSample": (4, 4), "NonMaxSuppression": (3, 3), "Det": (2, 3), "Trilu": (2, 4),
    "Softmax": (1, 4), "LogSoftmax": (1, 4), "Hardmax": (1, 4), "Transpose": (1, 4),
    "GroupNormalization": (3, 4), "LayerNormalization": (2, 4), "DeformConv": (4, 4),
    "CenterCropPad": (2, 3), "AffineGrid": (3, 3), "ImageDecoder": (1, 1),
}


def _set_shape(call, argi, shape, elem=None):
    a = call["args"][argi]
    if a is None or isinstance(a, list):
        return
    v = call["vars"][a]
    if v["ty"] is None or "t" not in v["ty"] or v["const"]:
        return
    v["ty"] = {"t": elem if elem else v["ty"]["t"], "s": shape}


def _r_matmul(rng, call, base):
    a, b, c = rng.choice([2, 3, "N"]), rng.choice([2, 3, 4]), rng.choice([1, 2, "M"])
    if call["args"][0] == call["args"][1]:
        return
    _set_shape(call, 0, [a, b])
    _set_shape(call, 1, [b, c])


def _r_gemm(rng, call, base):
    if call["args"][0] == call["args"][1]:
        return
    a, b, c = rng.choice([2, 3]), rng.choice([2, 3, 4]), rng.choice([1, 2, 5])
    ta, tb = call["attrs"].get("transA", 0), call["attrs"].get("transB", 0)
    _set_shape(call, 0, [b, a] if ta else [a, b])
    _set_shape(call, 1, [c, b] if tb else [b, c])
    _set_shape(call, 2, rng.choice([[c], [a, c], [1, c], []]))


def _r_conv(rng, call, base):
    sp = rng.choice([1, 2])
    N, C, M = rng.choice([1, 2, "N"]), rng.choice([2, 4]), rng.choice([2, 4])
    g = 1
    call["attrs"].pop("group", None)
    ks = [rng.choice([1, 2, 3]) for _ in range(sp)]
    for k in ("kernel_shape", "strides", "dilations", "pads", "auto_pad", "output_padding", "output_shape"):
        call["attrs"].pop(k, None)
    if rng.random() < 0.5:
        call["attrs"]["kernel_shape"] = ks
    if rng.random() < 0.4:
        call["attrs"]["strides"] = [rng.choice([1, 2]) for _ in range(sp)]
    if rng.random() < 0.3:
        call["attrs"]["pads"] = [rng.choice([0, 1]) for _ in range(2 * sp)]
    _set_shape(call, 0, [N, C] + [rng.choice([5, 6, 7]) for _ in range(sp)])
    if call["op"] == "ConvTranspose":
        _set_shape(call, 1, [C, M // g] + ks)
    else:
        _set_shape(call, 1, [M, C // g] + ks)
    if len(call["args"]) > 2:
        _set_shape(call, 2, [M])


def _r_pool(rng, call, base):
    sp = rng.choice([1, 2])
    for k in ("strides", "dilations", "pads", "auto_pad"):
        call["attrs"].pop(k, None)
    call["attrs"]["kernel_shape"] = [rng.choice([1, 2, 3]) for _ in range(sp)]
    if rng.random() < 0.4:
        call["attrs"]["strides"] = [rng.choice([1, 2]) for _ in range(sp)]
    if rng.random() < 0.3:
        call["attrs"]["pads"] = [rng.choice([0, 1]) for _ in range(2 * sp)]
    _set_shape(call, 0, [rng.choice([1, 2, "N"]), rng.choice([1, 3])] + [rng.choice([5, 6, 7, None]) for _ in range(sp)])


def _r_rnn(rng, call, base):
    mult = {"LSTM": 4, "GRU": 3, "RNN": 1}[call["op"]]
    H, I, B, S = rng.choice([2, 3]), rng.choice([2, 4]), rng.choice([1, 2, "B"]), rng.choice([3, "S"])
    bidir = call["attrs"].get("direction") == "bidirectional"
    D = 2 if bidir else 1
    call["attrs"]["hidden_size"] = H
    call["attrs"].pop("layout", None)
    for k in ("activations", "activation_alpha", "activation_beta", "clip"):
        call["attrs"].pop(k, None)
    shapes = [[S, B, I], [D, mult * H, I], [D, mult * H, H], [D, 2 * mult * H], [B], [D, B, H], [D, B, H], [D, 3 * H]]
    for i, s in enumerate(shapes[: len(call["args"])]):
        if i == 4 and call["args"][4] is not None:
            _set_shape(call, 4, s, elem=6)
        else:
            _set_shape(call, i, s)


def _r_batchnorm(rng, call, base):
    C = rng.choice([2, 3])
    _set_shape(call, 0, [rng.choice([1, 2, "N"]), C] + [rng.choice([2, 4]) for _ in range(rng.randint(0, 2))])
    for i in range(1, len(call["args"])):
        _set_shape(call, i, [C])


def _r_scalar_rest(first=1):
    def f(rng, call, base):
        for i in range(first, len(call["args"])):
            _set_shape(call, i, [])
    return f


def _r_same(rng, call, base):
    """all tensor inputs get exactly the base shape"""
    for i in range(len(call["args"])):
        a = call["args"][i]
        for vi in a if isinstance(a, list) else [a]:
            if vi is None:
                continue
            v = call["vars"][vi]
            if v["ty"] and "t" in v["ty"] and not v["const"]:
                v["ty"] = {"t": v["ty"]["t"], "s": list(base)}


def _const(call, argi, elem, shape, data):
    a = call["args"][argi] if argi < len(call["args"]) else None
    if a is None or isinstance(a, list):
        return
    call["vars"][a] = {"ty": {"t": elem, "s": shape}, "const": {"dtype": elem, "shape": shape, "data": data}}


def _r_bn(rng, call, base):
    _r_batchnorm(rng, call, base)
    if call["op"] == "BatchNormalization" and rng.random() < 0.6:
        call["attrs"]["training_mode"] = 1


def _r_roialign(rng, call, base):
    R = rng.choice([1, 3, "R"])
    _set_shape(call, 0, [rng.choice([1, 2]), 3, rng.choice([6, 8]), rng.choice([6, None])])
    _set_shape(call, 1, [R, 5 if call["op"] == "MaxRoiPool" else 4])
    if call["op"] == "RoiAlign":
        _set_shape(call, 2, [R], elem=7)
    else:
        call["attrs"]["pooled_shape"] = [2, 2]


def _r_onehot(rng, call, base):
    if rng.random() < 0.5:
        _const(call, 1, 7, [], [rng.choice([2, 3])])
    else:
        _set_shape(call, 1, rng.choice([[], [1]]))
    _set_shape(call, 2, [2])


def _r_1d(argi, lens=(1, 2, 3, "N")):
    def f(rng, call, base):
        _set_shape(call, argi, [rng.choice(list(lens))])
    return f


def _r_strnorm(rng, call, base):
    _set_shape(call, 0, rng.choice([[3], [1, 3], ["C"], [1, "C"]]))


def _r_multinomial(rng, call, base):
    _set_shape(call, 0, [rng.choice([1, 2, "N"]), rng.choice([3, 4])])
    if "dtype" in call["attrs"]:
        e = rng.choice([6, 7])
        call["attrs"]["dtype"] = {"dtype": e} if isinstance(call["attrs"]["dtype"], dict) else e


def _r_affinegrid(rng, call, base):
    _set_shape(call, 0, [rng.choice([1, 2, "N"]), 2, 3])
    if rng.random() < 0.7:
        _const(call, 1, 7, [4], [rng.choice([1, 2]), 3, 4, 5])
    else:
        _set_shape(call, 1, [4])


def _r_gridsample(rng, call, base):
    N = rng.choice([1, 2, "N"])
    _set_shape(call, 0, [N, 3, 4, 5])
    _set_shape(call, 1, [N, rng.choice([2, 6]), rng.choice([2, 7]), 2])
    call["attrs"].pop("mode", None)


def _r_labelenc(rng, call, base):
    n = rng.randint(1, 3)
    call["attrs"] = {"keys_int64s": list(range(n)), "values_floats": [0.5] * n}
    _set_shape(call, 0, _rand_dims(rng, rng.randint(0, 2)), elem=7)


def _r_dft(rng, call, base):
    _set_shape(call, 0, [rng.choice([1, 2]), rng.choice([4, 8, "N"]), rng.choice([1, 2])])
    for i in range(1, len(call["args"])):
        _set_shape(call, i, [])


def _r_col2im(rng, call, base):
    _set_shape(call, 0, [rng.choice([1, "N"]), 4, 9])
    _const(call, 1, 7, [2], [4, 4])
    _const(call, 2, 7, [2], [2, 2])
    for k in ("dilations", "pads", "strides"):
        call["attrs"].pop(k, None)


RECIPES = {
    "RoiAlign": _r_roialign, "MaxRoiPool": _r_roialign, "OneHot": _r_onehot, "ConstantOfShape": _r_1d(0),
    "StringNormalizer": _r_strnorm, "Multinomial": _r_multinomial, "AffineGrid": _r_affinegrid,
    "GridSample": _r_gridsample, "LabelEncoder": _r_labelenc, "DFT": _r_dft, "Col2Im": _r_col2im,
    "MatMul": _r_matmul, "MatMulInteger": _r_matmul, "Gemm": _r_gemm,
    "Conv": _r_conv, "ConvTranspose": _r_conv, "ConvInteger": _r_conv,
    "MaxPool": _r_pool, "AveragePool": _r_pool, "LpPool": _r_pool,
    "LSTM": _r_rnn, "GRU": _r_rnn, "RNN": _r_rnn,
    "BatchNormalization": _r_bn, "InstanceNormalization": _r_batchnorm,
    "Clip": _r_scalar_rest(1), "Concat": _r_same, "Sum": _r_same, "Mean": _r_same, "Max": _r_same, "Min": _r_same,
    "Where": _r_same, "PRelu": _r_same, "Range": _r_scalar_rest(0), "CumSum": _r_scalar_rest(1),
    "DequantizeLinear": _r_scalar_rest(1), "QuantizeLinear": _r_scalar_rest(1),
    "DynamicQuantizeLinear": _r_same, "Dropout": _r_scalar_rest(1), "SequenceInsert": _r_scalar_rest(2),
    "SequenceAt": _r_scalar_rest(1), "SequenceErase": _r_scalar_rest(1), "SplitToSequence": _r_same,
    "Bernoulli": _r_same, "Celu": _r_same, "Trilu": _r_scalar_rest(1),
}
RECIPES = {k: v for k, v in RECIPES.items() if v}


# ------------------------------------------------------------------------ oracle (model-free)
def oracle_attr(sch, aname, val):
    a = sch.attributes[aname]
    if isinstance(val, dict) and "dtype" in val:
        val = int(val["dtype"])
    elif isinstance(val, dict) and "tensor" in val:
        c = val["tensor"]
        arr = const_array(c)
        if c["dtype"] == 8:
            val = onnx.helper.make_tensor("", 8, c["shape"], [s.encode() for s in c["data"]])
        else:
            val = onnx.numpy_helper.from_array(arr)
    elif isinstance(val, dict) and "type" in val:
        val = ty_to_proto(val["type"])
    return onnx.helper.make_attribute(aname, val, attr_type=a.type)


def oracle_bodies(call):
    """Hand-written body graphs of If / Loop: Identity nodes over outer-scope values / body inputs."""
    sub = call["sub"]
    T = lambda v: ty_to_proto(call["vars"][v]["ty"])
    out = []
    if call["op"] == "If":
        for aname, key in (("then_branch", "then"), ("else_branch", "else")):
            nodes, outs = [], []
            for k, v in enumerate(sub[key]):
                nodes.append(onnx.helper.make_node("Identity", [f"i{v}"], [f"{key}{k}"]))
                outs.append(onnx.helper.make_value_info(f"{key}{k}", T(v)))
            out.append((aname, onnx.helper.make_graph(nodes, key, [], outs), list(sub[key])))
        return out
    if call["op"] == "SequenceMap":
        seq, add = call["args"]
        tys = []
        for v in [seq] + list(add):
            t = call["vars"][v]["ty"]
            tys.append(t["seq"] if "seq" in t else t)
        ins = [onnx.helper.make_value_info(f"b{k}", ty_to_proto(t)) for k, t in enumerate(tys)]
        nodes = [onnx.helper.make_node("Identity", [f"b{k}"], [f"q{n}"]) for n, k in enumerate(sub["outs"])]
        outs = [onnx.helper.make_value_info(f"q{n}", ty_to_proto(tys[k])) for n, k in enumerate(sub["outs"])]
        return [("body", onnx.helper.make_graph(nodes, "body", ins, outs), [])]
    if call["op"] == "Scan":
        allv = call["args"][0]
        ns = sub["n_state"]
        tys = []
        in_axes = call["attrs"].get("scan_input_axes")
        for k, v in enumerate(allv):
            t = call["vars"][v]["ty"]
            if k < ns or t["s"] is None:
                tys.append(t if k < ns else {"t": t["t"], "s": None})
                continue
            ax = in_axes[k - ns] if in_axes and k - ns < len(in_axes) else 0
            r = len(t["s"])
            ax = ax + r if ax < 0 else ax
            # the body sees the slice: the scan axis removed (an out-of-range axis: ONNX rejects anyway)
            tys.append({"t": t["t"], "s": [d for i, d in enumerate(t["s"]) if i != ax] if 0 <= ax < r else t["s"][1:]})
        ins = [onnx.helper.make_value_info(f"b{k}", ty_to_proto(t)) for k, t in enumerate(tys)]
        nodes = [onnx.helper.make_node("Identity", [f"b{k}"], [f"r{k}"]) for k in range(ns)]
        outs = [onnx.helper.make_value_info(f"r{k}", ty_to_proto(tys[k])) for k in range(ns)]
        for n, j in enumerate(sub["scan_outs"]):
            nodes.append(onnx.helper.make_node("Identity", [f"b{ns + j}"], [f"s{n}"]))
            outs.append(onnx.helper.make_value_info(f"s{n}", ty_to_proto(tys[ns + j])))
        return [("body", onnx.helper.make_graph(nodes, "body", ins, outs), [])]
    carried = call["args"][2]
    ins = [onnx.helper.make_tensor_value_info("it", 7, []), onnx.helper.make_tensor_value_info("c_in", 9, [])]
    ins += [onnx.helper.make_value_info(f"b{k}", T(v)) for k, v in enumerate(carried)]
    nodes = [onnx.helper.make_node("Identity", ["c_in"], ["c_out"])]
    outs = [onnx.helper.make_tensor_value_info("c_out", 9, [])]
    used = []
    for k, src in enumerate(sub["carried"]):
        if src == "same":
            nodes.append(onnx.helper.make_node("Identity", [f"b{k}"], [f"r{k}"]))
            outs.append(onnx.helper.make_value_info(f"r{k}", T(carried[k])))
        else:
            nodes.append(onnx.helper.make_node("Identity", [f"i{src}"], [f"r{k}"]))
            outs.append(onnx.helper.make_value_info(f"r{k}", T(src)))
            used.append(src)
    for k, v in enumerate(sub["scan"]):
        nodes.append(onnx.helper.make_node("Identity", [f"i{v}"], [f"s{k}"]))
        outs.append(onnx.helper.make_value_info(f"s{k}", T(v)))
        used.append(v)
    return [("body", onnx.helper.make_graph(nodes, "body", ins, outs), used)]


def oracle_model(op: Op, call, explicit_defaults: bool = False, optional_outputs: bool = True) -> onnx.ModelProto:
    """The node written down directly from the schema and the argument list, in a one-node model.
    Value names: `i<var id>` for inputs, `o<k>` for outputs. An attribute left at its default is
    either omitted or (explicit_defaults) written with the schema's default value - by the ONNX
    specification the same node."""
    sch = op.schema()
    O = onnx.defs.OpSchema.FormalParameterOption
    names = []
    for p, a in zip(sch.inputs, call["args"]):
        if isinstance(a, list):
            names += [f"i{v}" for v in a]
        elif a is None:
            names.append("")
        else:
            names.append(f"i{a}")
    while len(names) > sch.min_input and names[-1] == "":
        names.pop()
    outs = []
    for p in sch.outputs:
        if p.option == O.Variadic:
            outs += [f"o{len(outs) + k}" for k in range(call["out_count"] or 1)]
        elif p.option == O.Optional and not optional_outputs:
            outs.append("")
        else:
            outs.append(f"o{len(outs)}")
    while len(outs) > sch.min_output and outs[-1] == "":
        outs.pop()
    node = onnx.helper.make_node(op.name, names, outs, name="n", domain=op.domain)
    sub_used = []
    if call.get("sub"):
        for aname, g, used_ in oracle_bodies(call):
            node.attribute.append(onnx.helper.make_attribute(aname, g))
            sub_used += used_
    for aname, val in call["attrs"].items():
        node.attribute.append(oracle_attr(sch, aname, val))
    if explicit_defaults:
        for aname, a in sch.attributes.items():
            if aname not in call["attrs"] and a.default_value is not None and a.default_value.name:
                node.attribute.append(a.default_value)
    used = []
    for a in call["args"]:
        for v in a if isinstance(a, list) else [a]:
            if v is not None and v not in used:
                used.append(v)
    for v in sub_used:  # outer-scope values read by the bodies
        if v not in used:
            used.append(v)
    ginputs = [onnx.helper.make_value_info(f"i{v}", ty_to_proto(call["vars"][v]["ty"])) for v in used]
    inits = []
    for v in used:
        c = call["vars"][v]["const"]
        if c is not None:
            if c["dtype"] == 8:
                inits.append(onnx.helper.make_tensor(f"i{v}", 8, c["shape"], [s.encode() for s in c["data"]]))
            else:
                inits.append(onnx.numpy_helper.from_array(const_array(c), f"i{v}"))
    goutputs = [onnx.helper.make_value_info(o, onnx.TypeProto()) for o in outs if o]
    graph = onnx.helper.make_graph([node], "g", ginputs, goutputs, inits)
    return onnx.helper.make_model(graph, opset_imports=[onnx.helper.make_operatorsetid(op.domain, op.modver)])


def ty_relation(sp, on) -> str:
    """How a type `sp` reported by a constructor relates to ONNX's `on` for the same output:
    'eq' | 'refines' (says more, contradicts nothing) | 'weaker' (forgets something ONNX inferred)
    | 'untyped' (no type although ONNX inferred one) | 'contradicts'. Pure data, no spox."""
    if sp == on:
        return "eq"
    if sp is None:
        return "untyped"
    if on is None:
        return "refines"
    if not isinstance(sp, dict) or not isinstance(on, dict):
        return "contradicts"
    for k in ("seq", "opt"):
        if (k in sp) != (k in on):
            return "contradicts"
        if k in sp:
            r = ty_relation(sp[k], on[k])
            return "weaker" if r == "untyped" else r
    if "t" not in sp or "t" not in on or sp["t"] != on["t"]:
        return "contradicts"
    a, b = sp["s"], on["s"]
    if b is None:
        return "refines"
    if a is None:
        return "weaker"
    if len(a) != len(b):
        return "contradicts"
    more = less = False
    for x, y in zip(a, b):
        if x == y:
            continue
        if y is None or (isinstance(x, int) and isinstance(y, str)):
            more = True
        elif x is None or (isinstance(x, str) and isinstance(y, int)):
            less = True
        else:
            return "contradicts"  # two different constants / two different symbols
    return "weaker" if less else "refines" if more else "eq"


def has_optional_outputs(op: Op) -> bool:
    O = onnx.defs.OpSchema.FormalParameterOption
    return any(p.option == O.Optional for p in op.schema().outputs)


def oracle_run(op: Op, call, explicit_defaults: bool = False, optional_outputs: bool = True) -> dict:
    """ONNX's strict type-and-shape inference on the hand-built node."""
    model = oracle_model(op, call, explicit_defaults, optional_outputs)
    # dimension names that are the caller's: those of the operands of THIS call (a flow / history
    # shares its Var list between calls) and of the outer-scope values its bodies read
    known = set()
    used = {v for a in call["args"] for v in (a if isinstance(a, list) else [a]) if v is not None}
    if call.get("sub") and call["op"] in ("If", "Loop"):
        for lst in call["sub"].values():
            used |= {v for v in lst if isinstance(v, int)}
    for i, v in enumerate(call["vars"]):
        if i in used:
            dim_params(v["ty"], known)
    for val in call["attrs"].values():
        if isinstance(val, dict) and "type" in val:
            dim_params(val["type"], known)
    try:
        typed = ORIG_INFER_SHAPES(model, check_type=True, strict_mode=True, data_prop=True)
    except Exception as e:  # noqa: BLE001
        return {"reject": True, "err": type(e).__name__, "msg": str(e)[:200]}
    tys = [proto_to_ty(o.type, lambda s: s in known) for o in typed.graph.output]
    return {"reject": False, "types": tys}


# --------------------------------------------------------------------- the real constructor
def spox_type(ty):
    from spox import Optional as SOptional
    from spox import Sequence as SSequence
    from spox import Tensor

    if "t" in ty:
        return Tensor(NP_OF[ty["t"]], None if ty["s"] is None else tuple(ty["s"]))
    if "seq" in ty:
        return SSequence(spox_type(ty["seq"]))
    return SOptional(spox_type(ty["opt"]))


def from_spox_type(t):
    """spox Type -> abstract type, reading the public fields only."""
    from spox import Optional as SOptional
    from spox import Sequence as SSequence
    from spox import Tensor

    if t is None:
        return None
    if isinstance(t, Tensor):
        dt = np.dtype(t.dtype)
        e = 8 if dt.kind in ("U", "S", "O") else ELEM_OF_NP[dt] if dt in ELEM_OF_NP else int(onnx.helper.np_dtype_to_tensor_dtype(dt))
        return {"t": e, "s": None if t.shape is None else [d if d is None or isinstance(d, str) else int(d) for d in t.shape]}
    if isinstance(t, SSequence):
        return {"seq": from_spox_type(t.elem_type)}
    if isinstance(t, SOptional):
        return {"opt": from_spox_type(t.elem_type)}
    return {"other": type(t).__name__}


def make_vars(call):
    from spox import argument
    import spox.opset.ai.onnx.v17 as op17

    out = []
    for v in call["vars"]:
        if v["const"] is not None:
            out.append(op17.const(const_array(v["const"])))
        elif v["ty"] is None:
            x = argument(spox_type({"t": 1, "s": []}))
            x.type = None
            out.append(x)
        else:
            out.append(argument(spox_type(v["ty"])))
    return out


def spellings_for(val):
    """the ways a caller may spell the same attribute value (all accepted by the annotations:
    Iterable[int], int, float ...)"""
    if isinstance(val, bool) or isinstance(val, dict) or val is None:
        return []
    if isinstance(val, int):
        return ["npscalar", "npscalar32"] + (["bool"] if val in (0, 1) else [])
    if isinstance(val, float):
        return ["npscalar"] + (["npscalar32"] if float(np.float32(val)) == val else []) + (["int"] if val == int(val) else [])
    if isinstance(val, list):
        if all(isinstance(x, int) and not isinstance(x, bool) for x in val):
            return ["tuple", "generator", "nparray", "nparray32"]
        if all(isinstance(x, float) for x in val):
            return ["tuple", "generator", "nparray"] + (["nparray32"] if all(float(np.float32(x)) == x for x in val) else [])
        if all(isinstance(x, str) for x in val):
            return ["tuple", "generator"]
    return []


def spell(val, how):
    if how == "tuple":
        return tuple(val)
    if how == "generator":
        return (x for x in list(val))  # one-shot
    if how == "nparray":
        return np.array(val, dtype=np.int64 if all(isinstance(x, int) for x in val) else np.float64)
    if how == "nparray32":
        return np.array(val, dtype=np.int32 if all(isinstance(x, int) for x in val) else np.float32)
    if how == "npscalar":
        return np.int64(val) if isinstance(val, int) else np.float64(val)
    if how == "npscalar32":
        return np.int32(val) if isinstance(val, int) else np.float32(val)
    if how == "bool":
        return bool(val)
    if how == "int":
        return int(val)
    return val


def spox_attr_value(cls, aname, val, how=None):
    if how and how in spellings_for(val):  # (a history variant may have changed the value: spell it only if it still fits)
        return spell(val, how)
    if isinstance(val, dict) and "dtype" in val:
        return np.dtype(NP_OF[val["dtype"]])
    if isinstance(val, dict) and "tensor" in val:
        return const_array(val["tensor"])
    if isinstance(val, dict) and "type" in val:
        return spox_type(val["type"])
    return val


def _model_json(m: onnx.ModelProto) -> dict:
    n = m.graph.node[0]
    inits = []
    for t in m.graph.initializer:
        arr = onnx.numpy_helper.to_array(t)
        inits.append([t.name, array_digest(t.data_type, list(t.dims), arr.reshape(-1).tolist() if t.data_type == 8 else arr.reshape(-1))])
    return {
        "n_nodes": len(m.graph.node),
        "node": {"op": n.op_type, "domain": n.domain, "inputs": list(n.input), "outputs": list(n.output),
                 "attrs": [[a.name, "graph" if a.type == onnx.AttributeProto.GRAPH else
                            hashlib.sha1(a.SerializeToString(deterministic=True)).hexdigest()[:12]] for a in n.attribute]},
        "node_name": n.name,
        "ginputs": [[i.name, proto_to_ty(i.type)] for i in m.graph.input],
        "inits": inits,
        "goutputs": [o.name for o in m.graph.output],
        "goutputs_empty": all(o.type == onnx.TypeProto() for o in m.graph.output),
        "opset": [[o.domain, o.version] for o in m.opset_import],
    }


def isolated(fn):
    """Run fn() in a forked child and return its (pickled) result; None if the child died (a native
    abort inside onnxruntime must not take the check down). The parent never runs onnxruntime itself."""
    import os
    import pickle

    r, w = os.pipe()
    pid = os.fork()
    if pid == 0:
        code = 0
        try:
            os.close(r)
            try:
                data = pickle.dumps(("ok", fn()))
            except BaseException as e:  # noqa: BLE001
                data = pickle.dumps(("exc", f"{type(e).__name__}: {e}"[:300]))
            with os.fdopen(w, "wb") as f:
                f.write(data)
        except BaseException:  # noqa: BLE001
            code = 3
        finally:
            os._exit(code)
    os.close(w)
    chunks = []
    with os.fdopen(r, "rb") as f:
        while True:
            b = f.read(1 << 20)
            if not b:
                break
            chunks.append(b)
    _, status = os.waitpid(pid, 0)
    if status != 0 or not chunks:
        return None
    try:
        return pickle.loads(b"".join(chunks))
    except Exception:  # noqa: BLE001
        return None


@contextlib.contextmanager
def _quiet_fd2():
    """onnxruntime (severity set by spox itself) writes every failed propagation run to fd 2"""
    import os

    try:
        saved = os.dup(2)
        null = os.open(os.devnull, os.O_WRONLY)
    except OSError:
        yield
        return
    try:
        os.dup2(null, 2)
        yield
    finally:
        os.dup2(saved, 2)
        os.close(null)
        os.close(saved)


def run_spox(op: Op, call, value_prop: bool = False, vs=None, keep_outputs: bool = False) -> dict:
    """Call the real constructor through the public API; observe the exception or the output types.
    Best-effort observations for the correspondence (never fatal; failures go to `obs_errors`): the
    request spox made to onnx.shape_inference (model + flags + answer) and the node object."""
    fn = constructor(op)
    res: dict = {"raised": None, "types": None, "captured": [], "node": None, "obs_errors": []}
    with warnings.catch_warnings():
        warnings.simplefilter("ignore")
        if vs is None:
            vs = make_vars(call)
        kwargs = {}
        params = [p for p in inspect.signature(fn).parameters.values()]
        pos = [p.name for p in params if p.kind == p.POSITIONAL_OR_KEYWORD]
        kwn = [p.name for p in params if p.kind == p.KEYWORD_ONLY]
        for pname, a in zip(pos, call["args"]):
            if isinstance(a, list):
                kwargs[pname] = [vs[i] for i in a]
            elif a is None:
                kwargs[pname] = None
            else:
                kwargs[pname] = vs[a]
        for aname, val in call["attrs"].items():
            kwargs[aname] = spox_attr_value(None, aname, val, (call.get("spell") or {}).get(aname))
        if call.get("sub"):
            idn = module_constructors(op.module)["Identity"]
            sub = call["sub"]
            if op.name == "SequenceMap":
                kwargs["body"] = lambda *b: [idn(b[k]) for k in sub["outs"]]
            elif op.name == "Scan":
                kwargs["body"] = lambda *b: [idn(b[k]) for k in range(sub["n_state"])] + [idn(b[sub["n_state"] + j]) for j in sub["scan_outs"]]
            elif op.name == "If":
                kwargs["then_branch"] = lambda: [idn(vs[v]) for v in sub["then"]]
                kwargs["else_branch"] = lambda: [idn(vs[v]) for v in sub["else"]]
            else:
                def body(i, c, *carried):
                    outs = [idn(c)]
                    for k, src in enumerate(sub["carried"]):
                        outs.append(idn(carried[k]) if src == "same" else idn(vs[src]))
                    return outs + [idn(vs[v]) for v in sub["scan"]]
                kwargs["body"] = body
        extra = [k for k in kwn if k not in op.schema().attributes]
        if extra and call.get("out_count") and not call.get("sub"):
            kwargs[extra[0]] = call["out_count"]

        # -- observation 1: the inference request (wraps a function of onnx, not of spox)
        captured = res["captured"]
        sig = inspect.signature(ORIG_INFER_SHAPES)

        def rec(*a, **k):
            ent: dict = {"model": None, "flags": None}
            try:
                b = sig.bind(*a, **k)
                b.apply_defaults()
                m = b.arguments["model"]
                ent["model"] = onnx.ModelProto.FromString(m.SerializeToString()) if isinstance(m, onnx.ModelProto) else None
                ent["flags"] = [bool(b.arguments["check_type"]), bool(b.arguments["strict_mode"]), bool(b.arguments["data_prop"])]
            except Exception as e:  # noqa: BLE001
                res["obs_errors"].append(f"inference request: {type(e).__name__}: {e}"[:200])
            captured.append(ent)
            try:
                r = ORIG_INFER_SHAPES(*a, **k)
            except Exception as e:  # noqa: BLE001
                ent["exc"] = type(e).__name__
                raise
            ent["result"] = r
            return r

        # -- observation 2: the node object (spox-internal hook; optional)
        seen_nodes: list = []
        node_mod = orig_inference = None
        try:
            import spox._node as node_mod  # type: ignore[no-redef]

            orig_inference = node_mod.Node.inference

            def inference(self, *a, **k):
                seen_nodes.append(self)
                return orig_inference(self, *a, **k)
        except Exception as e:  # noqa: BLE001
            res["obs_errors"].append(f"Node.inference hook: {type(e).__name__}: {e}"[:200])
            node_mod = None

        # -- value propagation off during the call under test (C07/C15's subject), if the switch exists
        # `vp` of the call: absent/"none" = value propagation off; "default" = as the user's process
        # has it (the library default); "reference" / "onnxruntime" = that backend explicitly
        ctx = contextlib.nullcontext()
        vp = "default" if value_prop else (call.get("vp") or "none")
        if vp != "default":
            try:
                import spox._future as fut
                from spox._value_prop import ValuePropBackend

                ctx = fut.value_prop_backend({"none": ValuePropBackend.NONE, "reference": ValuePropBackend.REFERENCE,
                                              "onnxruntime": ValuePropBackend.ONNXRUNTIME}[vp])
            except Exception as e:  # noqa: BLE001
                res["obs_errors"].append(f"value_prop_backend switch: {type(e).__name__}: {e}"[:200])

        ctx2 = contextlib.nullcontext()
        if call.get("twl"):
            try:
                import spox._future as fut2

                ctx2 = fut2.type_warning_level(getattr(fut2.TypeWarningLevel, call["twl"]))
            except Exception as e:  # noqa: BLE001
                res["obs_errors"].append(f"type_warning_level switch: {type(e).__name__}: {e}"[:200])
        onnx.shape_inference.infer_shapes = rec
        if node_mod is not None:
            node_mod.Node.inference = inference
        try:
            with ctx, ctx2, (_quiet_fd2() if vp == "onnxruntime" else contextlib.nullcontext()):
                out = fn(**kwargs)
        except Exception as e:  # noqa: BLE001
            res["raised"] = type(e).__name__
            res["msg"] = str(e)[:300]
            out = None
        finally:
            onnx.shape_inference.infer_shapes = ORIG_INFER_SHAPES
            if node_mod is not None:
                node_mod.Node.inference = orig_inference
        if out is not None:
            outs = list(out) if isinstance(out, (tuple, list)) else [out]
            res["types"] = [from_spox_type(getattr(v, "type", None)) for v in outs]
            if keep_outputs:
                res["outputs"] = outs
            try:  # (internal) which output Vars got a propagated value
                res["has_value"] = [getattr(v, "_value") is not None for v in outs]
            except Exception as e:  # noqa: BLE001
                res["obs_errors"].append(f"output values: {type(e).__name__}: {e}"[:200])
            try:  # (internal, round 10) element type and shape of every attached ndarray value
                facts = []
                for v in outs:
                    pv = getattr(v, "_value")
                    arr = None if pv is None else pv.value
                    if pv is None:
                        facts.append(None)
                    elif isinstance(arr, np.ndarray) and arr.dtype.kind not in "OUS" and np.dtype(arr.dtype) in ELEM_OF_NP:
                        facts.append([int(ELEM_OF_NP[np.dtype(arr.dtype)]), [int(d) for d in arr.shape]])
                    else:
                        facts.append("other")
                res["value_facts"] = facts
            except Exception as e:  # noqa: BLE001
                res["obs_errors"].append(f"output value facts: {type(e).__name__}: {e}"[:200])
        try:
            cls = node_class(op)
            if call.get("sub"):
                # bodies create their own nodes (and inference requests): keep the operator under test only
                seen_nodes = [n for n in seen_nodes if cls is not None and isinstance(n, cls)]
                res["captured"] = [c for c in captured if c["model"] is not None and len(c["model"].graph.node) == 1
                                   and c["model"].graph.node[0].op_type == op.name]
            if seen_nodes:
                nd = seen_nodes[0]
                res["node"] = {
                    "attrs": [[k, None if v is None else "graph" if type(v).__name__ == "AttrGraph" else
                               hashlib.sha1(v._to_onnx().SerializeToString(deterministic=True)).hexdigest()[:12]]
                              for k, v in nd.attrs.get_fields().items()],
                }
                res["node_cls"] = type(nd)
                # what the two supplements that run the standard routine first look at (model: loopOwn / compressOwn)
                try:
                    if op.name == "Loop":
                        body = nd.attrs.body.value
                        n_c = len(body.requested_arguments) - 2
                        res["node"]["loop"] = {
                            "results": [from_spox_type(v.type) for v in list(body.requested_results.values())[1:][:n_c]],
                            "args": [from_spox_type(v.type) for v in body.requested_arguments[2:]]}
                    elif op.name == "Compress":
                        res["node"]["compress"] = {"axis": None if nd.attrs.axis is None else int(nd.attrs.axis.value)}
                    # the declared types of the body's formal arguments (model: loopFormals / scanFormals / seqMapFormals)
                    if op.name in BODY_OPS:
                        g = (nd.attrs.then_branch if op.name == "If" else nd.attrs.body).value
                        res["node"]["formals"] = {
                            "kind": {"Loop": "loop", "Scan": "scan", "SequenceMap": "seqmap", "If": "if"}[op.name],
                            "real": [from_spox_type(a.type) for a in (g.requested_arguments or [])]}
                        if op.name == "Scan":
                            res["node"]["formals"]["num_scan"] = int(nd.attrs.num_scan_inputs.value)
                except Exception as e:  # noqa: BLE001
                    res["obs_errors"].append(f"supplement inputs: {type(e).__name__}: {e}"[:200])
        except Exception as e:  # noqa: BLE001
            res["obs_errors"].append(f"node attributes: {type(e).__name__}: {e}"[:200])
    return res


# -------------------------------------------------------------------- request for the model
def sig_of(cls) -> dict:
    kinds = {0: "single", 1: "optional", 2: "variadic"}
    sch = cls.get_schema()
    return {
        "op": cls.op_type.identifier, "domain": cls.op_type.domain, "version": cls.op_type.version,
        "inputs": [[f.name, kinds[cls.Inputs._get_field_type(f).value]] for f in dataclasses.fields(cls.Inputs)],
        "outputs": [[f.name, kinds[cls.Outputs._get_field_type(f).value]] for f in dataclasses.fields(cls.Outputs)],
        "min_in": sch.min_input, "min_out": sch.min_output,
    }


def model_request(op: Op, call, sp: dict) -> Optional[dict]:
    if sp["node"] is None:
        return None
    cls = sp.get("node_cls") or node_class(op)
    vars_ = []
    for i, v in enumerate(call["vars"]):
        dg = None
        if v["const"] is not None:
            c = v["const"]
            arr = const_array(c)
            dg = array_digest(c["dtype"], c["shape"], arr.reshape(-1).tolist() if c["dtype"] == 8 else arr.reshape(-1))
        vars_.append([i, v["ty"], dg])
    req = {"sig": sig_of(cls), "args": call["args"], "attrs": sp["node"]["attrs"], "vars": vars_,
           "out_variadic": call.get("out_count") or 0}
    if sp["captured"]:
        ent = sp["captured"][0]
        if "result" in ent:
            inf = [[o.name, proto_to_ty(o.type)] for o in ent["result"].graph.output]
            if not any(has_other(t) for _, t in inf):  # map types: outside the model's Ty
                req["infer"] = inf
        else:
            req["infer"] = "reject"
    # Type._to_onnx on the operand types, Type._from_onnx on the protos ONNX answered with (model: toProto / fromProto)
    try:
        from spox._type_system import Type as _SType

        tys = []
        for v in call["vars"]:
            if v["ty"] is not None and not has_other(v["ty"]) and v["ty"] not in tys:
                tys.append(v["ty"])
        real_to = [proto_json(spox_type(t)._to_onnx()) for t in tys]
        protos, real_from = [], []
        if sp["captured"] and "result" in sp["captured"][0]:
            for o in sp["captured"][0]["result"].graph.output:
                pj = proto_json(o.type)
                if pj is not None:
                    protos.append(pj)
                    real_from.append(from_spox_type(_SType._from_onnx(o.type)))
        req["to_proto"], req["from_proto"] = tys, protos
        sp["proto_obs"] = {"to": real_to, "from": real_from}
    except Exception as e:  # noqa: BLE001
        sp["proto_obs_error"] = f"{type(e).__name__}: {e}"[:200]
    # ONNX's own answer for the ml operators whose inference spox replaces (model: MLOnnx.onnxMlElem)
    if op.name in ML_ELEM_ONLY and call["args"] and isinstance(call["args"][0], int):
        t0 = call["vars"][call["args"][0]]["ty"]
        if t0 is not None and "t" in t0 and t0["t"] in (1, 11, 6, 7, 9, 8):
            req["ml_onnx"] = {"op": op.name, "elem": t0["t"]}
    if "formals" in sp["node"] and not any(has_other(t) for t in sp["node"]["formals"]["real"]):
        req["formals"] = {k: v for k, v in sp["node"]["formals"].items() if k != "real"}
    for k in ("loop", "compress"):
        if k in sp["node"] and cls is not None and is_patched(cls) and not any(has_other(t) for v in sp["node"][k].values() if isinstance(v, list) for t in v):
            req[k] = sp["node"][k]
    if sp.get("has_value") is not None and cls is not None:
        keys = []
        for f in dataclasses.fields(cls.Outputs):
            if cls.Outputs._get_field_type(f).value == 2:
                keys += [f"{f.name}_{i}" for i in range(call.get("out_count") or 0)]
            else:
                keys.append(f.name)
        req["values"] = [[k, "value"] for k, hv in zip(keys, sp["has_value"]) if hv]
        if sp.get("value_facts") is not None:
            req["value_facts"] = [[k, f[0], f[1]] for k, f in zip(keys, sp["value_facts"]) if isinstance(f, list)]
    return req


# ------------------------------------------------------------------------------ call histories
def _variadic_output(op: Op) -> bool:
    O = onnx.defs.OpSchema.FormalParameterOption
    return any(p.option == O.Variadic for p in op.schema().outputs)


def _variant_of(rng, op: Op, base: dict, vars_: list, facet: str):
    """A copy of `base` (sharing `vars_`, possibly appending new Vars) that differs in exactly one facet.
    Returns None if the facet does not apply."""
    import copy

    sch = op.schema()
    O = onnx.defs.OpSchema.FormalParameterOption
    c = copy.deepcopy({k: v for k, v in base.items() if k != "vars"})
    c["vars"] = vars_  # shared list object
    if facet == "ambient":
        # the very same call under another ambient setting (type-warning level / value-propagation
        # mode): neither may change the verdict or leave something behind for the other call
        if rng.random() < 0.5:
            c["twl"] = rng.choice([x for x in TWL if x != base.get("twl")])
        else:
            c["vp"] = rng.choice([x for x in ("none", "default", "reference") if x != (base.get("vp") or "none")])
        return c
    if facet == "out_count":
        if not _variadic_output(op) and not base.get("sub"):
            return None
        if base.get("sub"):
            sub = c["sub"]
            if op.name == "SequenceMap":
                sub["outs"] = sub["outs"][:-1] if len(sub["outs"]) > 1 and rng.random() < 0.5 else sub["outs"] + [sub["outs"][0]]
                c["out_count"] = len(sub["outs"])
            elif op.name == "Scan":
                if sub["scan_outs"] and (sub["n_state"] or len(sub["scan_outs"]) > 1) and rng.random() < 0.5:
                    sub["scan_outs"] = sub["scan_outs"][:-1]
                else:
                    sub["scan_outs"] = sub["scan_outs"] + [0]
                c["out_count"] = sub["n_state"] + len(sub["scan_outs"])
            elif op.name == "If":
                if len(sub["then"]) > 1 and rng.random() < 0.5:
                    sub["then"], sub["else"] = sub["then"][:-1], sub["else"][:-1]
                else:
                    sub["then"], sub["else"] = sub["then"] + [sub["then"][0]], sub["else"] + [sub["else"][0]]
                c["out_count"] = len(sub["else"])
            else:
                if sub["scan"] and rng.random() < 0.5:
                    sub["scan"] = sub["scan"][:-1]
                    if not sub["scan"] and not sub["carried"]:
                        return None
                else:
                    pool = sub["scan"] or [v for v in sub["carried"] if v != "same"] or list(c["args"][2])
                    if not pool:
                        return None
                    sub["scan"] = sub["scan"] + [pool[0]]
                c["out_count"] = len(sub["carried"]) + len(sub["scan"])
            return c
        old = base.get("out_count") or 1
        new = rng.choice([k for k in (1, 2, 3, 4) if k != old])
        c["out_count"] = new
        if "num_outputs" in sch.attributes:
            c["attrs"]["num_outputs"] = new
        return c
    if facet == "attr":
        T = onnx.defs.OpSchema.AttrType
        names = [a for a, d in sorted(sch.attributes.items())
                 if d.type in (T.INT, T.INTS, T.FLOAT, T.FLOATS, T.STRING) and a != "num_outputs"]
        if not names or op.name in ("Constant", "Scan"):
            return None  # (Scan: the hand-written body assumes the default axes / directions)
        a = rng.choice(names)
        try:
            ann = {p.name: str(p.annotation) for p in inspect.signature(constructor(op)).parameters.values()}
        except (TypeError, ValueError):
            ann = {}
        rank = 2
        for v in vars_:
            if v["ty"] and "t" in v["ty"] and v["ty"]["s"] is not None:
                rank = len(v["ty"]["s"])
                break
        if a in c["attrs"] and not sch.attributes[a].required and rng.random() < 0.4:
            del c["attrs"][a]
            return c
        for _ in range(8):
            val = _gen_attr_value(rng, op.name, a, sch.attributes[a], rank, "DTypeLike" in ann.get(a, ""))
            if val is not None and val != c["attrs"].get(a):
                c["attrs"][a] = val
                return c
        return None
    flat = [(i, None, a) for i, a in enumerate(c["args"]) if a is not None and not isinstance(a, list)]
    flat += [(i, j, v) for i, a in enumerate(c["args"]) if isinstance(a, list) for j, v in enumerate(a)]

    def put(i, j, v):
        if j is None:
            c["args"][i] = v
        else:
            c["args"][i][j] = v

    if facet == "const":
        cands = [(i, j, v) for i, j, v in flat if vars_[v]["const"] is not None]
        if not cands:
            return None
        i, j, v = rng.choice(cands)
        old = vars_[v]["const"]
        for _ in range(8):
            if old["dtype"] == 7 and len(old["shape"]) <= 1:
                data = [x + rng.choice([1, 1, 2, -1]) if rng.random() < 0.7 else x for x in old["data"]]
            else:
                data = _const_data(rng, old["dtype"], old["shape"])
            if data != old["data"]:
                vars_.append({"ty": vars_[v]["ty"], "const": {"dtype": old["dtype"], "shape": old["shape"], "data": data}})
                put(i, j, len(vars_) - 1)
                return c
        return None
    if facet == "optional":
        opts = [i for i, p in enumerate(sch.inputs) if p.option == O.Optional and i < len(c["args"])]
        if not opts or base.get("sub"):
            return None
        i = rng.choice(opts)
        if c["args"][i] is not None:
            c["args"][i] = None
            return c
        p = parse_type_str(sch.inputs[i].type_str)
        if p is None:  # a type variable: reuse the type of another present tensor argument
            src = [v for _, _, v in flat if vars_[v]["ty"] and "t" in vars_[v]["ty"]]
            if not src:
                return None
            ty = {"t": vars_[src[0]]["ty"]["t"], "s": []}
        elif p[0] == "tensor":
            ty = {"t": p[1], "s": [] if rng.random() < 0.5 else [rng.choice([1, 2, 3])]}
        else:
            return None
        vars_.append({"ty": ty, "const": None})
        c["args"][i] = len(vars_) - 1
        return c
    if facet == "shape":
        cands = [(i, j, v) for i, j, v in flat if vars_[v]["const"] is None and vars_[v]["ty"] and "t" in vars_[v]["ty"]]
        if not cands:
            return None
        i, j, v = rng.choice(cands)
        old = vars_[v]["ty"]
        for _ in range(8):
            if old["s"] is None:
                new = _rand_dims(rng, rng.randint(0, 3))
            else:
                new = list(old["s"])
                k = rng.random()
                if new and k < 0.6:
                    new[rng.randrange(len(new))] = rng.choice([1, 2, 3, 4, 5, 6, "P", None])
                elif k < 0.8:
                    new = new + [rng.choice([1, 2, 3])]
                else:
                    new = None
            if new != old["s"]:
                vars_.append({"ty": {"t": old["t"], "s": new}, "const": None})
                put(i, j, len(vars_) - 1)
                return c
        return None
    return None


FACETS = ["out_count", "attr", "const", "optional", "shape", "ambient"]


def gen_history(rng, op: Op, want_facet: Optional[str] = None) -> Optional[dict]:
    """2-4 calls of one operator that share the input Vars and differ from the first call in exactly
    one facet each. Returns {"vars": [...], "calls": [...], "facets": [...]} or None."""
    base = None
    for _ in range(6):
        cand = gen_call(rng, op, force=rng.choice(["plain", "plain", "reuse"]))
        if "skip" in cand:
            return None
        try:
            if not oracle_run(op, cand)["reject"]:
                base = cand
                break
        except Exception:  # noqa: BLE001
            pass
        base = base or cand
    if base is None:
        return None
    vars_ = base["vars"]
    calls, facets = [base], ["base"]
    order = list(FACETS)
    rng.shuffle(order)
    if want_facet:
        order = [want_facet] + [f for f in order if f != want_facet]
    n = rng.choice([1, 2, 3])
    for f in order:
        if len(calls) > n:
            break
        v = _variant_of(rng, op, base, vars_, f)
        if v is not None:
            calls.append(v)
            facets.append(f)
    if len(calls) < 2:
        return None
    for c in calls:
        c["vars"] = vars_
        c["family"] = "history"
    return {"vars": vars_, "calls": [{k: v for k, v in c.items() if k != "vars"} for c in calls], "facets": facets}


def history_calls(hist: dict) -> list:
    return [dict(c, vars=hist["vars"]) for c in hist["calls"]]


def run_history(op: Op, hist: dict) -> list:
    """All calls of the history in this process, one after the other, on the same Var objects."""
    with warnings.catch_warnings():
        warnings.simplefilter("ignore")
        vs = make_vars({"vars": hist["vars"]})
    return [run_spox(op, c, vs=vs) for c in history_calls(hist)]


# ------------------------------------------------------------ cross-operator histories ("flows")
def _mk(module, opname, args, attrs=None, out_count=None):
    return {"module": module, "op": opname, "args": args, "attrs": attrs or {}, "out_count": out_count, "family": "flow"}


def _flow_templates(rng, module, vars_, c):
    """Calls of different operators that take the shared constant `c` (int64 vector [a, b]) in
    differently named slots; other operands are fresh typed arguments appended to `vars_`."""
    a, b = vars_[c]["const"]["data"][:2]
    e = rng.choice([1, 1, 7, 11])

    def arg(elem, shape):
        vars_.append({"ty": {"t": elem, "s": shape}, "const": None})
        return len(vars_) - 1

    def const(elem, shape, data):
        vars_.append({"ty": {"t": elem, "s": shape}, "const": {"dtype": elem, "shape": shape, "data": data}})
        return len(vars_) - 1

    T = [
        lambda: _mk(module, "Reshape", [arg(e, rng.choice([[a * b], [b, a], [a, b, 1]])), c]),
        lambda: _mk(module, "Reshape", [arg(e, [rng.choice([a * b + 1, 7])]), c]),               # ONNX rejects
        lambda: _mk(module, "Tile", [arg(e, [rng.choice([1, 2, 3]), rng.choice([1, 2])]), c]),
        lambda: _mk(module, "Expand", [arg(e, rng.choice([[1, b], [b], [a, 1], [1, 1]])), c]),
        lambda: _mk(module, "Expand", [arg(e, [1, b + 1]), c]),                                   # ONNX rejects (unless b + 1 == 1)
        lambda: _mk(module, "ConstantOfShape", [c]),
        lambda: _mk(module, "Reshape", [c, const(7, [1], [-1])]),                                 # a former `shape` as `data`
        lambda: _mk(module, "Reshape", [c, const(7, [2], [1, 2])]),
        lambda: _mk(module, "Add", [c, arg(7, rng.choice([[2], [1], []]))]),
        lambda: _mk(module, "Mul", [arg(7, [2]), c]),
        lambda: _mk(module, "Identity", [c]),
        lambda: _mk(module, "Shape", [c]),
        lambda: _mk(module, "Cast", [c], {"to": {"dtype": rng.choice([1, 6, 11])}}),
        lambda: _mk(module, "Concat", [[c, const(7, [1], [rng.choice([1, 5])])]], {"axis": 0}),
        lambda: _mk(module, "Concat", [[arg(7, [rng.choice([1, 3])]), c]], {"axis": 0}),
        lambda: _mk(module, "Gather", [c, const(7, [], [rng.choice([0, 1])])]),
        lambda: _mk(module, "Pad", [arg(e, [rng.choice([3, 4])]), c]),
        lambda: _mk(module, "Equal", [c, arg(7, [2])]),
        lambda: _mk(module, "Unsqueeze", [c, const(7, [1], [0])]),
        lambda: _mk(module, "ReduceSum", [c, None]),
        lambda: _mk(module, "Squeeze", [arg(e, [1, 1, 1, 1, 3]), const(7, [1], [0])]),
        # every operand a known constant: value propagation runs when it is switched on
        lambda: _mk(module, "NonZero", [c]),
        lambda: _mk(module, "Unique", [c], {"sorted": 1}),
        lambda: _mk(module, "Compress", [c, const(9, [2], [True, rng.random() < 0.5])]),
        lambda: _mk(module, "Compress", [const(e, [2, 3], _const_data(rng, e, [2, 3])), const(9, [2], [True, False])], {"axis": 0}),
        lambda: _mk(module, "Where", [const(9, [2], [True, False]), c, c]),
        lambda: _mk(module, "Tile", [const(e, [1, 2], _const_data(rng, e, [1, 2])), c]),
        lambda: _mk(module, "Expand", [const(e, [1, 1], _const_data(rng, e, [1, 1])), c]),
        lambda: _mk(module, "Reshape", [const(e, [a * b], _const_data(rng, e, [a * b])), c]),
        lambda: _mk(module, "ConstantOfShape", [c]),
        lambda: _mk(module, "Range", [const(7, [], [0]), const(7, [], [a + b]), const(7, [], [1])]),
        lambda: _mk(module, "Slice", [c, const(7, [1], [0]), const(7, [1], [1]), None, None]),
        lambda: _mk(module, "TopK", [const(e if e != 11 else 1, [4], _const_data(rng, e if e != 11 else 1, [4])), const(7, [1], [min(a, 3)])]),
        lambda: _mk(module, "NonZero", [const(e, [2, 3], _const_data(rng, e, [2, 3]))]),
    ]
    return rng.choice(T)()


def _splice(rng, op: Op, vars_, shared):
    """A random call of `op` with one compatible tensor slot replaced by the shared Var (None if
    there is none). The call's own Vars are appended to `vars_`."""
    sty = vars_[shared]["ty"]
    if not sty or "t" not in sty:
        return None
    for _ in range(4):
        call = gen_call(rng, op, force="plain")
        if "skip" in call or call.get("sub"):
            return None
        off = len(vars_)
        slots = []
        for i, a in enumerate(call["args"]):
            for j, v in enumerate(a if isinstance(a, list) else [a]):
                if v is not None:
                    t = call["vars"][v]["ty"]
                    if t and "t" in t and t["t"] == sty["t"]:
                        slots.append((i, j if isinstance(a, list) else None, call["vars"][v]["const"] is not None))
        if not slots:
            continue
        pref = [s_ for s_ in slots if s_[2]] or slots  # replacing a constant operand is the interesting case
        i, j, _c = rng.choice(pref)
        sh = lambda a: None if a is None else [x + off for x in a] if isinstance(a, list) else a + off  # noqa: E731
        vars_ += call["vars"]
        call = {k: v for k, v in call.items() if k != "vars"}
        call["args"] = [sh(a) for a in call["args"]]
        if j is None:
            call["args"][i] = shared
        else:
            call["args"][i][j] = shared
        call["family"] = "flow"
        return call
    return None


_INT_SLOT_OPS: dict = {}


def _ops_with_int_slot(module):
    if module not in _INT_SLOT_OPS:
        out = []
        for o in load_vocabulary():
            if o.module == module and o.name not in BODY_OPS:
                if any(p.type_str in ("tensor(int64)",) for p in o.schema().inputs):
                    out.append(o)
        _INT_SLOT_OPS[module] = out
    return _INT_SLOT_OPS[module]


def gen_flow(rng, module: str) -> Optional[dict]:
    """2-4 calls of DIFFERENT operators in one process through which one Var flows (a constant with a
    known value, a typed argument, or the result of the first call), in differently named slots."""
    byname = {o.name: o for o in load_vocabulary() if o.module == module}
    allops = [o for o in byname.values() if o.name not in BODY_OPS]
    vars_: list = []
    kind = _pick(rng, [("shape-const", 55), ("const", 12), ("argument", 15), ("result", 18)])
    calls = []
    if kind == "shape-const":
        data = [rng.choice([1, 2, 2, 3]), rng.choice([1, 2, 3, 4])]
        vars_.append({"ty": {"t": 7, "s": [2]}, "const": {"dtype": 7, "shape": [2], "data": data}})
    elif kind == "const":
        e = rng.choice([1, 7, 11])
        shape = rng.choice([[], [1], [3]])
        vars_.append({"ty": {"t": e, "s": shape}, "const": {"dtype": e, "shape": shape, "data": _const_data(rng, e, shape)}})
    elif kind == "argument":
        vars_.append({"ty": {"t": rng.choice([1, 7]), "s": _rand_dims(rng, rng.randint(0, 3))}, "const": None})
    shared = 0
    if kind == "result":
        for _ in range(6):
            op0 = rng.choice(allops)
            if is_supplemented(op0) or op0.name == "Constant":  # (Constant's result also carries a value)
                continue  # spox reports its own (possibly weaker) type there: not a type the oracle can predict
            c0 = gen_call(rng, op0, force="plain")
            if "skip" in c0:
                continue
            try:
                r0 = oracle_run(op0, c0)
            except Exception:  # noqa: BLE001
                continue
            if r0["reject"] or not r0["types"] or not r0["types"][0] or "t" not in r0["types"][0]:
                continue
            try:  # the two representatives of the node (defaults omitted / explicit) must agree on the type
                r1 = oracle_run(op0, c0, True)
            except Exception:  # noqa: BLE001
                continue
            if r1["reject"] or r1["types"] != r0["types"]:
                continue
            vars_ += c0["vars"]
            calls.append({k: v for k, v in c0.items() if k != "vars"})
            calls[0]["family"] = "flow"
            vars_.append({"ty": r0["types"][0], "const": None, "result_of": [0, 0]})
            shared = len(vars_) - 1
            break
        else:
            return None
    n = rng.choice([2, 3, 3, 4])
    tries = 0
    while len(calls) < n and tries < 12:
        tries += 1
        if kind == "shape-const" and rng.random() < 0.6 and all(k in byname for k in ("Reshape", "Tile")):
            c = _flow_templates(rng, module, vars_, shared)
            if c["op"] not in byname:
                continue
            nin = len(byname[c["op"]].schema().inputs)
            c["args"] = (c["args"] + [None] * nin)[:max(nin, len(c["args"]))]
        else:
            pool = _ops_with_int_slot(module) if (vars_[shared]["ty"]["t"] == 7 and rng.random() < 0.6) else allops
            if not pool:
                pool = allops
            c = _splice(rng, rng.choice(pool), vars_, shared)
            if c is None:
                continue
        calls.append(c)
    if len(calls) < 2:
        return None
    if kind != "result" and rng.random() < 0.45:
        # value propagation as users have it (results of earlier calls are not operands here, so the
        # oracle needs no values of its own)
        vp = _pick(rng, VP_WEIGHTS)
        for c in calls:
            c["vp"] = vp
    return {"vars": vars_, "calls": calls, "shared": shared, "kind": kind}


_XMOD_PAIRS: list = []


def xmodule_pairs() -> list:
    """(newer Op, older Op, grown element types, shrunk element types) for every operator that two shipped
    modules of one domain implement with DIFFERENT schema versions whose type-constraint sets (inputs or
    outputs) differ - derived from onnx.defs only. Same formal inputs required (the identical call must be
    expressible in both modules)."""
    if _XMOD_PAIRS:
        return _XMOD_PAIRS
    byname: dict = collections.defaultdict(list)
    for o in load_vocabulary():
        if o.name in BODY_OPS or is_supplemented(o):
            continue
        byname[(o.domain, o.name)].append(o)

    def elems(sch):
        out = set()
        for c in sch.type_constraints:
            for t in c.allowed_type_strs:
                p = parse_type_str(t)
                while p and p[0] != "tensor":
                    p = p[1]
                if p and p[1] in GEN_ELEMS:
                    out.add(p[1])
        return out

    for (_, _), lst in sorted(byname.items()):
        seen = {}
        for o in lst:  # one representative module per schema version (the first that ships it)
            seen.setdefault(o.schema().since_version, o)
        vers = sorted(seen)
        for i, a in enumerate(vers):
            for b in vers[i + 1:]:
                old, new = seen[a], seen[b]
                so, sn = old.schema(), new.schema()
                if [x.name for x in so.inputs] != [x.name for x in sn.inputs] or len(so.outputs) != len(sn.outputs):
                    continue
                eo, en = elems(so), elems(sn)
                if eo != en:
                    _XMOD_PAIRS.append((new, old, sorted(en - eo), sorted(eo - en)))
    return _XMOD_PAIRS


def gen_xmodule_flow(rng) -> Optional[dict]:
    """The IDENTICAL call (same Vars, attributes, constants, output count) made through two modules that
    implement the operator with different schema versions, in one process: newer first (70 %) or older
    first. Preferably with an element type only one of the two versions accepts. Each call is judged on its
    own against strict inference at ITS module's opset."""
    pairs = xmodule_pairs()
    if not pairs:
        return None
    new, old, grown, shrunk = rng.choice(pairs)
    old_attrs = set(old.schema().attributes)
    for _ in range(6):
        c = gen_call(rng, new, force="plain")
        if "skip" in c or not set(c.get("attrs") or {}) <= old_attrs or c.get("sub"):
            continue
        only = grown if (grown and (not shrunk or rng.random() < 0.8)) else shrunk
        if only and rng.random() < 0.85:
            # rebind the call's dominant element type to one that only one version accepts
            typed = [v for v in c["vars"] if v.get("ty") and "t" in v["ty"] and v.get("const") is None]
            if typed:
                dom = collections.Counter(v["ty"]["t"] for v in typed).most_common(1)[0][0]
                g = rng.choice(only)
                for v in typed:
                    if v["ty"]["t"] == dom:
                        v["ty"]["t"] = g
        c["family"] = "flow"
        c_new = {k: v for k, v in c.items() if k != "vars"}
        c_old = dict(copy.deepcopy(c_new), module=old.module)
        calls = [c_new, c_old] if rng.random() < 0.7 else [c_old, c_new]
        if rng.random() < 0.25:  # A B A: the first module asked again after the other one
            calls.append(copy.deepcopy(calls[0]))
        return {"vars": c["vars"], "calls": calls, "shared": 0, "kind": "cross-module"}
    return None


def run_flow(ops_by_key: dict, flow: dict) -> list:
    """The calls of a flow, one after the other in this process, on shared Var objects; outputs of
    earlier calls are bound to the `result_of` entries."""
    from spox import argument
    import spox.opset.ai.onnx.v17 as op17

    with warnings.catch_warnings():
        warnings.simplefilter("ignore")
        vs = []
        for v in flow["vars"]:
            if v.get("result_of"):
                vs.append(None)
            elif v["const"] is not None:
                vs.append(op17.const(const_array(v["const"])))
            else:
                vs.append(argument(spox_type(v["ty"])))
    out = []
    for k, c in enumerate(flow["calls"]):
        op = ops_by_key[call_op_key(c)]
        call = dict(c, vars=flow["vars"])
        needed = [v for a in call["args"] for v in (a if isinstance(a, list) else [a]) if v is not None]
        if any(vs[v] is None for v in needed):
            out.append(None)  # an operand is the result of a call that did not return
            continue
        sp = run_spox(op, call, vs=vs, keep_outputs=True)
        out.append(sp)
        for i, v in enumerate(flow["vars"]):
            ro = v.get("result_of")
            if ro and ro[0] == k and sp.get("outputs") and ro[1] < len(sp["outputs"]):
                vs[i] = sp["outputs"][ro[1]]
        sp.pop("outputs", None)
    return out


def call_op_key(c) -> str:
    mod = c["module"]
    tail = mod.rsplit(".", 1)[1]
    return f"{'ml.' + tail if '.ml.' in mod else tail}.{c['op']}"
