"""Shared machinery of the spox verification checks.

Every `./check Cxx <tier>` run goes through a `Check` object:

  translate  -> ck.write_generated(...)            (tie G: Lean tables regenerated from /repo)
  prove      -> ck.lean([...modules...])           (lake build + `#print axioms` audit + source grep)
  correspond -> ck.driver() / property code        (tie H: model exe vs. real implementation)
  search     -> property code calling ck.failure() (model-free oracle on the real code)
  decide     -> ck.finish()                        (KNOWN-FINDING / VIOLATION lines, evidence, exit code)

A broken proof obligation or correspondence is registered with ck.broken(); by itself it is not a
violation: finish() reports it as `... no-failing-input-found` only if the search produced no
concrete, unlisted failure.
"""

from __future__ import annotations

import fcntl
import hashlib
import json
import os
import random
import re
import subprocess
import sys
import time
import traceback
from pathlib import Path
from typing import Any, Callable, Iterable, Optional

VERIF = Path(__file__).resolve().parent.parent
REPO = Path(os.environ.get("SPOX_REPO", "/repo"))
LEAN = VERIF / "lean"
WORK = VERIF / ".work"
EVIDENCE = VERIF / "evidence"
REPLAYS = VERIF / "replays"
PY = "/venv/bin/python"

ALLOWED_AXIOMS = {"propext", "Classical.choice", "Quot.sound"}
FORBIDDEN_RE = re.compile(
    r"\bsorry\b|\badmit\b|^\s*axiom\s|native_decide|bv_decide|implemented_by|\bunsafe\s|maxHeartbeats\s+0"
)

TRUSTED_BASE_COMMON = [
    "Lean 4.33.0 kernel (lake build; leanchecker re-check in the thorough tier)",
    "axioms allowed in property theorems: propext, Classical.choice, Quot.sound (audited by #print axioms on every run); no sorry/admit/native_decide/bv_decide/own axioms (source grep on every run)",
    "CPython 3.12 semantics, numpy, protobuf, onnx (shape inference, checker, reference evaluator, version converter), onnxruntime: modelled as parameters / observed by model-free oracles, not verified",
]


def use_repo_on_path() -> None:
    """Make `import spox` resolve to REPO/src (the working tree under test)."""
    src = str(REPO / "src")
    if src in sys.path:
        sys.path.remove(src)
    sys.path.insert(0, src)


def strip_lean_comments(text: str) -> str:
    """Remove `--` line comments and (nested) `/- -/` block comments; keeps line structure."""
    out = []
    i, n, depth = 0, len(text), 0
    while i < n:
        if text.startswith("/-", i):
            depth += 1
            i += 2
            continue
        if depth and text.startswith("-/", i):
            depth -= 1
            i += 2
            continue
        if depth:
            if text[i] == "\n":
                out.append("\n")
            i += 1
            continue
        if text.startswith("--", i):
            while i < n and text[i] != "\n":
                i += 1
            continue
        out.append(text[i])
        i += 1
    return "".join(out)


class LeanResult:
    def __init__(self):
        self.ok = True
        self.errors: list[dict] = []  # {file, line, msg, decl}
        self.log = ""
        self.theorems: list[dict] = []  # {name, axioms, ok}
        self.forbidden: list[str] = []

    @property
    def broken_names(self) -> list[str]:
        names = []
        for e in self.errors:
            nm = e.get("decl") or f"{e['file']}:{e['line']}"
            if nm not in names:
                names.append(nm)
        for t in self.theorems:
            if not t["ok"] and t["name"] not in names:
                names.append(t["name"])
        for f in self.forbidden:
            names.append("forbidden:" + f)
        return names


_DECL_RE = re.compile(
    r"^\s*(?:@\[[^\]]*\]\s*)?(?:private\s+|protected\s+|noncomputable\s+)*(theorem|lemma|def|example|instance|abbrev|structure|inductive)\s+([^\s:(\[{]+)?"
)


def enclosing_decl(path: Path, line: int) -> Optional[str]:
    try:
        lines = path.read_text().splitlines()
    except OSError:
        return None
    for i in range(min(line, len(lines)) - 1, -1, -1):
        m = _DECL_RE.match(lines[i])
        if m:
            return f"{m.group(1)} {m.group(2) or '<anonymous>'} ({path.name}:{i + 1})"
    return None


class Driver:
    """The native model executable, spoken to over the line protocol (`KEY json` -> json)."""

    def __init__(self, exe: Path):
        self.exe = exe
        self.proc: Optional[subprocess.Popen] = None
        self.lines = 0

    def _start(self):
        if self.proc is None or self.proc.poll() is not None:
            self.proc = subprocess.Popen(
                [str(self.exe)],
                stdin=subprocess.PIPE,
                stdout=subprocess.PIPE,
                text=True,
                bufsize=1,
            )

    def ask(self, key: str, req: Any) -> Any:
        self._start()
        assert self.proc and self.proc.stdin and self.proc.stdout
        self.proc.stdin.write(f"{key} {json.dumps(req, separators=(',', ':'))}\n")
        self.proc.stdin.flush()
        line = self.proc.stdout.readline()
        if not line:
            raise RuntimeError("model driver died")
        self.lines += 1
        return json.loads(line)

    def ask_many(self, key: str, reqs: Iterable[Any]) -> list[Any]:
        """Batch mode: one process run, all requests piped at once (fast path)."""
        data = "".join(
            f"{key} {json.dumps(r, separators=(',', ':'))}\n" for r in reqs
        )
        res = subprocess.run(
            [str(self.exe)], input=data, capture_output=True, text=True, check=False
        )
        if res.returncode != 0:
            raise RuntimeError(f"model driver failed: {res.stderr[-2000:]}")
        outs = [json.loads(ln) for ln in res.stdout.splitlines() if ln.strip()]
        self.lines += len(outs)
        return outs

    def close(self):
        if self.proc and self.proc.poll() is None:
            try:
                self.proc.stdin.close()  # type: ignore
                self.proc.wait(timeout=5)
            except Exception:
                self.proc.kill()
        self.proc = None


class Check:
    def __init__(self, pid: str, tier: str, seed: int):
        self.pid = pid
        self.tier = tier
        self.seed = seed
        self.rng = random.Random(seed)
        self.t0 = time.time()
        self.obligations: list[dict] = []
        self.broken_items: list[dict] = []  # obligations / correspondences that no longer check
        self.failures: list[dict] = []  # concrete failures on the real code, unlisted
        self.known_hits: list[dict] = []
        self.cov: dict[str, Any] = {}
        self.samples: list[Any] = []
        self.assumptions: list[str] = []
        self.trusted_base: list[str] = list(TRUSTED_BASE_COMMON)
        self.notes: list[str] = []
        self.evaluations = 0
        self._distinct: set = set()
        self.rule = ""
        self.checker_cmds: list[str] = []
        self.exhaustive: Optional[bool] = None
        self._driver: Optional[Driver] = None
        self._findings = load_findings()
        WORK.mkdir(exist_ok=True)
        EVIDENCE.mkdir(exist_ok=True)
        REPLAYS.mkdir(exist_ok=True)

    # ------------------------------------------------------------------ util
    @property
    def thorough(self) -> bool:
        return self.tier == "thorough"

    def pick(self, quick: Any, thorough: Any) -> Any:
        return thorough if self.thorough else quick

    def log(self, msg: str) -> None:
        print(f"[{self.pid} {time.time() - self.t0:6.1f}s] {msg}", flush=True)

    def count(self, key: Any = None, n: int = 1) -> None:
        """Record n evaluated cases; `key` (hashable) identifies a distinct non-trivial case."""
        self.evaluations += n
        if key is not None:
            self._distinct.add(key)

    def sample(self, s: Any, limit: int = 6) -> None:
        if len(self.samples) < limit:
            self.samples.append(s)

    # ------------------------------------------------------------------ Lean
    def write_generated(self, rel: str, text: str) -> bool:
        """Write lean/<rel> if its content differs (so lake only rebuilds on real change)."""
        p = LEAN / rel
        p.parent.mkdir(parents=True, exist_ok=True)
        old = p.read_text() if p.exists() else None
        if old != text:
            p.write_text(text)
            return True
        return False

    def _lake(self, args: list[str], timeout: int = 1500) -> subprocess.CompletedProcess:
        lock = open(WORK / "lake.lock", "w")
        fcntl.flock(lock, fcntl.LOCK_EX)
        try:
            return subprocess.run(
                ["lake", *args],
                cwd=LEAN,
                capture_output=True,
                text=True,
                timeout=timeout,
            )
        finally:
            fcntl.flock(lock, fcntl.LOCK_UN)
            lock.close()

    def lean(
        self,
        modules: list[str],
        audit: Optional[str] = None,
        grep_dirs: Optional[list[str]] = None,
    ) -> LeanResult:
        """Build `modules`, audit axioms of the theorems listed in the Audit module, grep sources.

        Every `#print axioms T` line of the audit module is one proof obligation.
        """
        res = LeanResult()
        t = time.time()
        cmd = ["build", *modules]
        self.checker_cmds.append("cd lean && lake " + " ".join(cmd))
        proc = self._lake(cmd)
        res.log = proc.stdout + proc.stderr
        if proc.returncode != 0:
            res.ok = False
            for m in re.finditer(
                r"^error: ([^\s:]+\.lean):(\d+):(\d+): (.*)$", res.log, re.M
            ):
                f, ln, _, msg = m.group(1), int(m.group(2)), m.group(3), m.group(4)
                res.errors.append(
                    {
                        "file": f,
                        "line": ln,
                        "msg": msg[:300],
                        "decl": enclosing_decl(LEAN / f, ln),
                    }
                )
            if not res.errors:
                res.errors.append(
                    {"file": "?", "line": 0, "msg": res.log[-600:], "decl": None}
                )
        self.log(
            f"lake build {' '.join(modules)}: {'ok' if res.ok else 'FAILED'} ({time.time() - t:.1f}s)"
        )
        # --- audit
        if audit:
            audit_file = LEAN / (audit.replace(".", "/") + ".lean")
            wanted = re.findall(
                r"^#print axioms\s+(\S+)", strip_lean_comments(audit_file.read_text()), re.M
            )
            got: dict[str, list[str]] = {}
            if res.ok:
                t = time.time()
                self.checker_cmds.append(
                    f"cd lean && lake env lean {audit_file.relative_to(LEAN)}"
                )
                p2 = self._lake(["env", "lean", str(audit_file.relative_to(LEAN))])
                out = p2.stdout + p2.stderr
                for m in re.finditer(
                    r"'([^']+)' (does not depend on any axioms|depends on axioms: \[([^\]]*)\])",
                    out,
                ):
                    axs = (
                        [a.strip() for a in m.group(3).replace("\n", " ").split(",")]
                        if m.group(3)
                        else []
                    )
                    got[m.group(1)] = axs
                self.log(f"audit {audit}: {len(got)}/{len(wanted)} theorems ({time.time() - t:.1f}s)")
            for name in wanted:
                full = [k for k in got if k == name or k.endswith("." + name)]
                if full:
                    axs = got[full[0]]
                    bad = [a for a in axs if a not in ALLOWED_AXIOMS]
                    ok = not bad
                    res.theorems.append({"name": name, "axioms": axs, "ok": ok})
                    if not ok:
                        res.ok = False
                else:
                    res.theorems.append({"name": name, "axioms": None, "ok": False})
            for t_ in res.theorems:
                self.obligations.append(
                    {"name": t_["name"], "discharged": bool(t_["ok"]), "axioms": t_["axioms"]}
                )
        # --- source grep
        for d in grep_dirs or ["SpoxModel", "Driver"]:
            for f in sorted((LEAN / d).rglob("*.lean")):
                txt = strip_lean_comments(f.read_text())
                for i, ln in enumerate(txt.splitlines(), 1):
                    if FORBIDDEN_RE.search(ln):
                        res.forbidden.append(f"{f.relative_to(LEAN)}:{i}: {ln.strip()[:80]}")
        if res.forbidden:
            res.ok = False
        if not res.ok:
            for nm in res.broken_names:
                detail = next(
                    (e["msg"] for e in res.errors if (e.get("decl") or "") == nm), ""
                )
                self.broken("theorem", nm, detail)
        return res

    def leanchecker(self, modules: list[str]) -> bool:
        """Thorough tier: independent re-check of the compiled modules."""
        self.checker_cmds.append("cd lean && lake env leanchecker " + " ".join(modules))
        t = time.time()
        p = self._lake(["env", "leanchecker", *modules], timeout=3000)
        ok = p.returncode == 0
        self.log(f"leanchecker {' '.join(modules)}: {'ok' if ok else 'FAILED'} ({time.time() - t:.1f}s)")
        if not ok:
            self.broken("leanchecker", " ".join(modules), (p.stdout + p.stderr)[-400:])
        return ok

    def driver(self) -> Driver:
        if self._driver is None:
            exe = LEAN / ".lake" / "build" / "bin" / "spoxmodel"
            self.checker_cmds.append("cd lean && lake build spoxmodel")
            p = self._lake(["build", "spoxmodel"])
            if p.returncode != 0 or not exe.exists():
                self.broken("driver", "spoxmodel", (p.stdout + p.stderr)[-600:])
                raise RuntimeError("cannot build model driver:\n" + (p.stdout + p.stderr)[-2000:])
            self._driver = Driver(exe)
        return self._driver

    # --------------------------------------------------------------- verdicts
    def broken(self, kind: str, name: str, detail: str = "") -> None:
        """A proof obligation / generated fact / correspondence that no longer checks."""
        item = {"kind": kind, "name": name, "detail": detail[:1500]}
        if item not in self.broken_items:
            self.broken_items.append(item)
            self.log(f"BROKEN {kind}: {name} {detail[:200]}")

    def failure(self, key: str, what: str, case: Any, how: str = "") -> bool:
        """A concrete failure of the property on the real code.

        `key` is the classifier signature of the (shrunk) witness. Returns True if it is a listed
        known finding (then it is only reported as KNOWN-FINDING).
        """
        for f in self._findings:
            if f["property"] == self.pid and f.get("status") == "known" and f["key"] == key:
                if not any(h["key"] == key for h in self.known_hits):
                    self.known_hits.append({"key": key, "what": f.get("what", what), "case": case})
                return True
        if not any(x["key"] == key for x in self.failures):
            self.failures.append({"key": key, "what": what, "case": case, "how": how})
            self.log(f"FAILURE {key}: {what}")
        return False

    def write_replay(self, doc: dict, tag: str) -> Path:
        h = hashlib.sha1(json.dumps(doc, sort_keys=True, default=str).encode()).hexdigest()[:10]
        p = REPLAYS / f"{self.pid}-{tag}-{h}.json"
        p.write_text(json.dumps(doc, indent=1, default=str))
        return p

    def finish(self) -> int:
        if self._driver:
            self._driver.close()
        wall = time.time() - self.t0
        lines: list[str] = []
        for h in self.known_hits:
            lines.append(f"KNOWN-FINDING: property={self.pid} {h['key']}: {h['what']}")
        # listed known findings that did not reproduce are worth a note (not an alarm)
        for f in self._findings:
            if f["property"] == self.pid and f.get("status") == "known":
                if not any(h["key"] == f["key"] for h in self.known_hits):
                    self.notes.append(f"known finding {f['key']} did not reproduce on this run")
        nviol = 0
        for f in self.failures[:5]:
            doc = {
                "property": self.pid,
                "kind": "input",
                "seed": self.seed,
                "key": f["key"],
                "what": f["what"],
                "case": f["case"],
                "broken": self.broken_items,
                "how_to_run": f"./check {self.pid} --replay <this file>",
            }
            p = self.write_replay(doc, "fail")
            lines.append(f"VIOLATION property={self.pid} replay={p}")
            nviol += 1
        if self.broken_items and not self.failures:
            doc = {
                "property": self.pid,
                "kind": "obligation",
                "seed": self.seed,
                "broken": self.broken_items,
                "note": "the listed theorem(s)/correspondence(s) no longer check against /repo; "
                "the failing-input search found no concrete input on which the property fails",
                "how_to_run": f"./check {self.pid} {self.tier}",
            }
            p = self.write_replay(doc, "broken")
            lines.append(f"VIOLATION property={self.pid} replay={p} no-failing-input-found")
            nviol += 1
        for ln in lines:
            print(ln, flush=True)
        self._write_evidence(wall, nviol)
        return 1 if nviol else 0

    def _write_evidence(self, wall: float, nviol: int) -> None:
        n_obl = len(self.obligations)
        n_dis = sum(1 for o in self.obligations if o["discharged"])
        cov: dict[str, Any] = {
            "obligations": n_obl,
            "discharged": n_dis,
            "checker_cmd": " && ".join(dict.fromkeys(self.checker_cmds)) or "none",
            "trusted_base": self.trusted_base,
            "evaluations": self.evaluations,
            "distinct_nontrivial": len(self._distinct),
            "rule": self.rule,
            "samples": self.samples or ["(none)"],
            "theorems": [
                {"name": o["name"], "axioms": o["axioms"], "discharged": o["discharged"]}
                for o in self.obligations[:400]
            ],
            "broken": self.broken_items,
            "known_findings_reproduced": [h["key"] for h in self.known_hits],
            "notes": self.notes,
        }
        if self.exhaustive is not None:
            cov["exhaustive"] = self.exhaustive
        cov.update(self.cov)
        doc = {
            "property_id": self.pid,
            "tier": self.tier,
            "seed": self.seed,
            "level": "proof",
            "coverage": cov,
            "assumptions": self.assumptions,
            "wall_s": round(wall, 2),
            "violations": nviol,
        }
        (EVIDENCE / f"{self.pid}.json").write_text(json.dumps(doc, indent=1, default=str))


def load_findings() -> list[dict]:
    """Known findings: findings.d/Cxx.json (one committed file per property, never written at run
    time); known_findings.json is the generated union of them (tools/mkmanifest.py)."""
    out: list[dict] = []
    for p in sorted((VERIF / "findings.d").glob("*.json")):
        out.extend(json.loads(p.read_text()).get("findings", []))
    return out


def run_isolated(code: str, env: Optional[dict] = None, timeout: int = 120) -> subprocess.CompletedProcess:
    """Run a Python snippet against the real spox in a fresh interpreter."""
    e = dict(os.environ)
    e["PYTHONPATH"] = f"{REPO / 'src'}:{VERIF}"
    if env:
        e.update(env)
    return subprocess.run([PY, "-c", code], capture_output=True, text=True, env=e, timeout=timeout)


def safe(fn: Callable, *a, **k):
    """Call fn, mapping the outcome to ('ok', value) / ('err', ExceptionClassName)."""
    try:
        return ("ok", fn(*a, **k))
    except Exception as e:  # noqa: BLE001
        return ("err", type(e).__name__)


def fmt_exc() -> str:
    return traceback.format_exc()[-1500:]
