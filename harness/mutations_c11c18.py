"""Mutation runner for C11 / C18 (development aid; not part of any check).

  SPOX_REPO=/work/repo-<g> /venv/bin/python -m harness.mutations_c11c18 C11 [name…]

Each mutation is a (file, old, new) textual edit applied to the scratch spox copy, the check is run,
the first VIOLATION replay is replayed on the mutant (must fail) and on the clean tree (must pass),
and the edit is undone with `git checkout`.
"""
import os
import re
import subprocess
import sys
from pathlib import Path

V = Path(__file__).resolve().parent.parent
REPO = Path(os.environ["SPOX_REPO"])
assert str(REPO).startswith("/work/repo-") or "/.work/repo-" in str(REPO), "refusing to mutate anything but a scratch copy"

V17 = "src/spox/opset/ai/onnx/v17.py"
MUT = {
    "C11-tensor": {
        "site1-from_array-memory-order-alone": [("src/spox/_utils.py", "        vals=(\n            np.char.encode(arr, encoding=\"utf-8\") if cast_to_bytes else arr\n        ).flatten(),\n", "        vals=np.ravel(\n            np.char.encode(arr, encoding=\"utf-8\") if cast_to_bytes else arr, order=\"K\"\n        ),\n")],
        "site2-attrtensor-keeps-layout-alone": [("src/spox/_attributes.py", "        super().__init__(value.copy(), name)\n", "        super().__init__(np.array(value), name)\n"), ("src/spox/_attributes.py", "                v.copy() if isinstance(v, (np.ndarray, np.generic)) else v\n", "                np.array(v) if isinstance(v, (np.ndarray, np.generic)) else v\n")],
        "both-sites-memory-order": [("src/spox/_utils.py", "        vals=(\n            np.char.encode(arr, encoding=\"utf-8\") if cast_to_bytes else arr\n        ).flatten(),\n", "        vals=np.ravel(\n            np.char.encode(arr, encoding=\"utf-8\") if cast_to_bytes else arr, order=\"K\"\n        ),\n"), ("src/spox/_attributes.py", "        super().__init__(value.copy(), name)\n", "        super().__init__(np.array(value), name)\n"), ("src/spox/_attributes.py", "                v.copy() if isinstance(v, (np.ndarray, np.generic)) else v\n", "                np.array(v) if isinstance(v, (np.ndarray, np.generic)) else v\n")],
        "empty-list-attribute-dropped": [("src/spox/_attributes.py", "        return cls(tuple(value), name) if value is not None else None\n", "        return cls(tuple(value), name) if value else None\n")],
    },
    "C18-tensor": {
        "both-sites-memory-order": [("src/spox/_utils.py", "        vals=(\n            np.char.encode(arr, encoding=\"utf-8\") if cast_to_bytes else arr\n        ).flatten(),\n", "        vals=np.ravel(\n            np.char.encode(arr, encoding=\"utf-8\") if cast_to_bytes else arr, order=\"K\"\n        ),\n"), ("src/spox/_attributes.py", "        super().__init__(value.copy(), name)\n", "        super().__init__(np.array(value), name)\n"), ("src/spox/_attributes.py", "                v.copy() if isinstance(v, (np.ndarray, np.generic)) else v\n", "                np.array(v) if isinstance(v, (np.ndarray, np.generic)) else v\n")],
    },
    "C11-round3": {
        "attrtype-named-dims-become-unknown": [("src/spox/_attributes.py", "                dtype_to_tensor_type(value.dtype),\n                value.shape,\n", "                dtype_to_tensor_type(value.dtype),\n                None if value.shape is None else tuple(d if isinstance(d, int) else None for d in value.shape),\n"), ("src/spox/_attributes.py", "            type_proto = make_sequence_type_proto(value.elem_type._to_onnx())\n", "            _e = value.elem_type\n            type_proto = make_sequence_type_proto(make_tensor_type_proto(dtype_to_tensor_type(_e.dtype), None if _e.shape is None else tuple(d if isinstance(d, int) else None for d in _e.shape)) if isinstance(_e, _type_system.Tensor) else _e._to_onnx())\n")],
        "variadic-list-aliased-not-copied": [("src/spox/_fields.py", "                value = tuple(value)\n                setattr(self, field.name, value)\n", "                if not isinstance(value, (list, tuple)):\n                    value = tuple(value)\n                setattr(self, field.name, value)\n")],
    },
    "C18-round3": {
        "attrtype-named-dims-become-unknown": [("src/spox/_attributes.py", "                dtype_to_tensor_type(value.dtype),\n                value.shape,\n", "                dtype_to_tensor_type(value.dtype),\n                None if value.shape is None else tuple(d if isinstance(d, int) else None for d in value.shape),\n"), ("src/spox/_attributes.py", "            type_proto = make_sequence_type_proto(value.elem_type._to_onnx())\n", "            _e = value.elem_type\n            type_proto = make_sequence_type_proto(make_tensor_type_proto(dtype_to_tensor_type(_e.dtype), None if _e.shape is None else tuple(d if isinstance(d, int) else None for d in _e.shape)) if isinstance(_e, _type_system.Tensor) else _e._to_onnx())\n")],
        "variadic-list-aliased-not-copied": [("src/spox/_fields.py", "                value = tuple(value)\n                setattr(self, field.name, value)\n", "                if not isinstance(value, (list, tuple)):\n                    value = tuple(value)\n                setattr(self, field.name, value)\n")],
    },
    "C11-round4": {
        "dtype-memo-keyed-by-str": [("src/spox/_utils.py", "    err_msg = f\"{dtype_like} is not a valid ONNX tensor element type.\"\n    if dtype_like is None:", "    err_msg = f\"{dtype_like} is not a valid ONNX tensor element type.\"\n    try:\n        _key = np.dtype(dtype_like).str\n        if _key in _MEMO:\n            return _MEMO[_key]\n    except Exception:\n        _key = None\n    if dtype_like is None:"), ("src/spox/_utils.py", "    try:\n        return onnx.helper.np_dtype_to_tensor_dtype(dtype)\n", "    try:\n        _r = onnx.helper.np_dtype_to_tensor_dtype(dtype)\n        if _key is not None:\n            _MEMO[_key] = _r\n        return _r\n"), ("src/spox/_utils.py", "def tensor_type_to_dtype(ttype: int)", "_MEMO: dict = {}\n\n\ndef tensor_type_to_dtype(ttype: int)")],
    },
    # ---- rounds 6-8 (spellings, inputs, inventories, inline-custom, results / construct, len vs flattened)
    "C11-r6": {
        "attrdtype-canonicalises-with-np-dtype": [("src/spox/_attributes.py", "    _attribute_proto_type = AttributeProto.INT\n\n    def _validate(self):\n        dtype_to_tensor_type(self.value)\n", "    _attribute_proto_type = AttributeProto.INT\n\n    def __init__(self, value, name):\n        if not isinstance(value, _Ref):\n            value = np.dtype(value)\n        super().__init__(value, name)\n\n    def _validate(self):\n        dtype_to_tensor_type(self.value)\n")],
        "dtype-valueerror-let-through": [("src/spox/_utils.py", "        # numpy reports a malformed dtype specification such as ``(int, -1)`` with ValueError\n        raise TypeError(err_msg)", "        raise")],
        "attrint64-none-becomes-zero": [("src/spox/_attributes.py", "    def _to_onnx_deref(self) -> AttributeProto:\n        return make_attribute(self._name, self.value)\n\n\nclass AttrString", "    def _to_onnx_deref(self) -> AttributeProto:\n        return make_attribute(self._name, self.value or 0)\n\n\nclass AttrString")],
        "attrstring-coerces-with-str": [("src/spox/_attributes.py", "    _attribute_proto_type = AttributeProto.STRING\n\n    def _to_onnx_deref(self) -> AttributeProto:\n        return make_attribute(self._name, self.value)", "    _attribute_proto_type = AttributeProto.STRING\n\n    def _to_onnx_deref(self) -> AttributeProto:\n        return make_attribute(self._name, self.value if isinstance(self.value, (str, bytes)) or self.value is None else str(self.value))")],
        "multinomial-none-dtype-invented": [(V17, "            dtype=AttrDtype(dtype, name=\"dtype\"),", "            dtype=AttrDtype(dtype if dtype is not None else np.float64, name=\"dtype\"),")],
        "optional-input-accepts-int": [("src/spox/_fields.py", "                if value is not None and not isinstance(value, Var):\n                    raise TypeError(", "                if value is not None and not isinstance(value, (Var, int)):\n                    raise TypeError(")],
        "single-input-accepts-none": [("src/spox/_fields.py", "            if field_type == VarFieldKind.SINGLE:\n                if not isinstance(value, Var):", "            if field_type == VarFieldKind.SINGLE:\n                if value is not None and not isinstance(value, Var):")],
        "min-input-counts-single-inputs": [("src/spox/_standard.py", "        return self.schema.min_input\n", "        return sum(1 for p in self.schema.inputs if p.option == p.option.Single)\n")],
        "baseVars-len-counts-fields": [("src/spox/_fields.py", "        return sum(1 for _ in self)", "        return len(dataclasses.fields(self))")],
    },
    "C18-r6": {
        "adapt-inline-early-return-on-foreign-domain": [("src/spox/_adapt.py", "    if not seen_domains & {\"\", \"ai.onnx\"}:\n        return protos", "    if not seen_domains & {\"\", \"ai.onnx\"}:\n        return protos\n    if any(d not in SCHEMAS for d in seen_domains if d != \"ai.onnx\"):\n        return protos")],
        "adapt-inline-only-single-import": [("src/spox/_adapt.py", "    if source_version != target_version:\n        target_model", "    if source_version != target_version and len(node.model.opset_import) == 1:\n        target_model")],
        "inline-opset-req-drops-custom": [("src/spox/_inline.py", "        req = {(imp.domain, imp.version) for imp in self.model.opset_import} | {", "        req = {(imp.domain, imp.version) for imp in self.model.opset_import if imp.domain in (\"\", \"ai.onnx\", \"ai.onnx.ml\")} | {")],
        "adapt-inline-skips-subgraph-models": [("src/spox/_adapt.py", "    seen_domains = {prot.domain for prot in protos}", "    seen_domains = {prot.domain for prot in protos}\n    if any(a.type == onnx.AttributeProto.GRAPH for p in protos for a in p.attribute):\n        return protos")],
        "initializer-step-removed": [("src/spox/_adapt.py", "        _initializers_to_constants(target_model.graph)\n", "")],
        "initializer-step-drops-foreign-nodes": [("src/spox/_adapt.py", "    nodes = constants + list(graph.node)", "    nodes = constants + [n for n in graph.node if n.domain in (\"\", \"ai.onnx\")]")],
        "results-not-required-concrete": [("src/spox/_graph.py", "                name, concrete=concrete, _traceback_name=f\"result {name} ({var})\"", "                name, concrete=False, _traceback_name=f\"result {name} ({var})\"")],
        "missing-hook-entry-falls-back": [("src/spox/_node.py", "var.type = out_types.get(key)", "var.type = out_types.get(key) or next(iter(out_types.values()), None)")],
        "infer-types-flag-ignored": [("src/spox/_node.py", "        out_types = self.infer_output_types() if infer_types else {}", "        out_types = self.infer_output_types()")],
        "validate-flag-ignored": [("src/spox/_node.py", "        if validate:\n            self.validate_types()", "        self.validate_types()")],
        "baseVars-len-counts-fields": [("src/spox/_fields.py", "        return sum(1 for _ in self)", "        return len(dataclasses.fields(self))")],
        "function-opset-req-drops-custom": [("src/spox/_function.py", "        return node_opset_req | self.func_graph._get_build_result().opset_req", "        return node_opset_req | {r for r in self.func_graph._get_build_result().opset_req if r[0] in (\"\", \"ai.onnx\", \"ai.onnx.ml\")}")],
    },
    # harmless rewrites of the functions the tie-G inventories pin: must stay quiet (exit 0)
    "C18-harmless": {
        "adapt-inline-local-renamed": [("SED", r"s/seen_domains/domains_seen/g", "src/spox/_adapt.py")],
        "adapt-inline-extra-unused-local": [("src/spox/_adapt.py", "    target_version = target_opsets[\"\"]\n    # The version the inlined", "    target_version = target_opsets[\"\"]\n    _n_protos = len(protos)\n    # The version the inlined")],
        "adapt-inline-extra-used-local": [("src/spox/_adapt.py", "    if not seen_domains & {\"\", \"ai.onnx\"}:\n        return protos", "    default_names = {\"\", \"ai.onnx\"}\n    if not seen_domains & default_names:\n        return protos")],
    },
    "C11-repeat": {
        "trim-end-located-by-name-lookup": [("src/spox/_node.py", "        while len(input_names) > self.min_input and not input_names[-1]:\n            input_names.pop()\n", "        _used = [n for n in input_names if n]\n        _end = input_names.index(_used[-1]) + 1 if _used else 0\n        input_names = input_names[: max(_end, min(self.min_input, len(input_names)))]\n")],
        "inputs-deduplicated-by-var": [("src/spox/_node.py", "        input_names = [scope.var[var] if var is not None else \"\" for var in self.inputs]\n", "        _names = {}\n        for var in self.inputs:\n            _names.setdefault(id(var) if var is not None else object(), scope.var[var] if var is not None else '')\n        input_names = list(_names.values())\n")],
    },
    "C18-compose": {
        # the Builder starts to care about the node's class: only StandardNode applications are relaxed to the LCA
        "scope-relaxation-only-for-standard-nodes": [("src/spox/_build.py", "            self.scope_tree.scope_of[node] = self.scope_tree.lca(\n                graph, self.scope_tree.scope_of[node]\n            )\n", "            if type(node).__mro__[1].__name__ != 'Node':  # only non-plain nodes are relaxed\n                self.scope_tree.scope_of[node] = self.scope_tree.lca(\n                    graph, self.scope_tree.scope_of[node]\n                )\n")],
    },
    "C18-round4": {
        "nested-value-type-must-equal-declared": [("src/spox/_value_prop.py", "                elem.type._subtype(self.type.elem_type)\n", "                elem.type == self.type.elem_type\n"), ("src/spox/_value_prop.py", "                isinstance(self.value, PropValue)\n                and PropValue(self.type.elem_type, self.value.value).check()\n", "                isinstance(self.value, PropValue)\n                and self.value.type == self.type.elem_type\n                and PropValue(self.type.elem_type, self.value.value).check()\n")],
        "nested-value-type-must-equal-sequence-only": [("src/spox/_value_prop.py", "                elem.type._subtype(self.type.elem_type)\n", "                elem.type == self.type.elem_type\n")],
        "inline-rejects-untyped-inputs": [("src/spox/_inline.py", "            if var.type is not None and not (\n                var.type._subtype(Type._from_onnx(i.type))\n            ):\n", "            if not (\n                var.unwrap_type()._subtype(Type._from_onnx(i.type))\n            ):\n")],
    },
    "C18-repeat": {
        "inputs-deduplicated-by-var": [("src/spox/_node.py", "        input_names = [scope.var[var] if var is not None else \"\" for var in self.inputs]\n", "        _names = {}\n        for var in self.inputs:\n            _names.setdefault(id(var) if var is not None else object(), scope.var[var] if var is not None else '')\n        input_names = list(_names.values())\n")],
        "trim-end-located-by-name-lookup-ignoring-min": [("src/spox/_node.py", "        while len(input_names) > self.min_input and not input_names[-1]:\n            input_names.pop()\n", "        _used = [n for n in input_names if n]\n        _end = input_names.index(_used[-1]) + 1 if _used else 0\n        input_names = input_names[: _end if _used and input_names[-1] else len(input_names)]\n")],
    },
    "C11": {
        "B13-reducesum-keepdims-default": [(V17, "def reduce_sum(\n    data: Var,\n    axes: Optional[Var] = None,\n    *,\n    keepdims: int = 1,",
                                            "def reduce_sum(\n    data: Var,\n    axes: Optional[Var] = None,\n    *,\n    keepdims: int = 0,")],
        "B14-clip-optional-shifted": [(V17, "        _Clip.Inputs(\n            input=input,\n            min=min,\n            max=max,",
                                       "        _Clip.Inputs(\n            input=input,\n            min=max,\n            max=min,")],
        "attr-renamed-argmax-axis": [(V17, "    return _ArgMax(\n        _ArgMax.Attributes(\n            axis=AttrInt64(axis, name=\"axis\"),",
                                      "    return _ArgMax(\n        _ArgMax.Attributes(\n            axis=AttrInt64(axis, name=\"axes\"),")],
        "float-default-leakyrelu-alpha": [(V17, "def leaky_relu(\n    X: Var,\n    *,\n    alpha: float = 0.009999999776482582,", "def leaky_relu(\n    X: Var,\n    *,\n    alpha: float = 0.1,")],
        "optional-to-required-reducesumsquare-axes": [(V17, "def reduce_sum_square(\n    data: Var,\n    *,\n    axes: Optional[Iterable[int]] = None,", "def reduce_sum_square(\n    data: Var,\n    *,\n    axes: Iterable[int],"),
                                                       (V17, "            axes=AttrInt64s.maybe(axes, name=\"axes\"),\n            keepdims=AttrInt64(keepdims, name=\"keepdims\"),\n        ),\n        _ReduceSumSquare.Inputs(", "            axes=AttrInt64s(axes, name=\"axes\"),\n            keepdims=AttrInt64(keepdims, name=\"keepdims\"),\n        ),\n        _ReduceSumSquare.Inputs(")],
        "variadic-flattened-reversed": [("src/spox/_fields.py", "yield from ((f\"{key}_{i}\", v) for i, v in enumerate(value))", "yield from ((f\"{key}_{i}\", v) for i, v in enumerate(reversed(value)))")],
        "since-version-bumped-abs": [(V17, "    op_type = OpType(\"Abs\", \"\", 13)", "    op_type = OpType(\"Abs\", \"\", 6)")],
        "min-input-off-by-one": [("src/spox/_standard.py", "        return self.schema.min_input\n", "        return max(self.schema.min_input - 1, 0)\n")],
        "no-trailing-trim": [("src/spox/_node.py", "        while len(input_names) > self.min_input and not input_names[-1]:\n            input_names.pop()\n", "")],
        "class-fields-swapped-clip": [(V17, "    class Inputs(BaseInputs):\n        input: Var\n        min: Optional[Var]\n        max: Optional[Var]", "    class Inputs(BaseInputs):\n        input: Var\n        max: Optional[Var]\n        min: Optional[Var]")],
        "maybe-dropped-default-forwarded": [(V17, "            keepdims=AttrInt64(keepdims, name=\"keepdims\"),\n            noop_with_empty_axes=AttrInt64(\n                noop_with_empty_axes, name=\"noop_with_empty_axes\"\n            ),\n        ),\n        _ReduceSum.Inputs(", "            keepdims=AttrInt64(keepdims, name=\"keepdims\"),\n            noop_with_empty_axes=AttrInt64(\n                keepdims, name=\"noop_with_empty_axes\"\n            ),\n        ),\n        _ReduceSum.Inputs(")],
        "v19-table-points-to-old-constructor": [("src/spox/opset/ai/onnx/v19.py", "    \"Pad\": pad,\n", "    \"Pad\": _old_pad,\n"),
                                                ("src/spox/opset/ai/onnx/v19.py", "from spox._var import Var\n", "from spox._var import Var\nfrom spox.opset.ai.onnx.v18 import pad as _old_pad\n")],
    },
    # rewrites that do not change behaviour: the check must stay quiet (exit 0)
    "C11-harmless": {
        "attr-fields-reordered-argmax": [(V17, "        axis: AttrInt64\n        keepdims: AttrInt64\n        select_last_index: AttrInt64\n", "        select_last_index: AttrInt64\n        keepdims: AttrInt64\n        axis: AttrInt64\n")],
        "local-and-validation-in-relu": [(V17, "    return _Relu(\n", "    _checked = isinstance(X, Var)\n    if not _checked:\n        raise TypeError('X must be a Var')\n    return _Relu(\n")],
        "attr-kwargs-reordered-reducesum": [(V17, "            keepdims=AttrInt64(keepdims, name=\"keepdims\"),\n            noop_with_empty_axes=AttrInt64(\n                noop_with_empty_axes, name=\"noop_with_empty_axes\"\n            ),\n        ),\n        _ReduceSum.Inputs(", "            noop_with_empty_axes=AttrInt64(\n                noop_with_empty_axes, name=\"noop_with_empty_axes\"\n            ),\n            keepdims=AttrInt64(keepdims, name=\"keepdims\"),\n        ),\n        _ReduceSum.Inputs(")],
        "float-default-respelled": [(V17, "    alpha: float = 0.009999999776482582,", "    alpha: float = 0.01,")],
    },
    # refactorings of internals the harness observes through, combined with a real breakage:
    # must end in exit 1 with a VIOLATION (never exit 2)
    "C11-refactor": {
        "to_onnx-kwarg-renamed+no-trailing-trim": [
            ("SED", r"s/build_subgraph/subgraph_builder/g", "src/spox/_*.py"),
            ("src/spox/_node.py", "        while len(input_names) > self.min_input and not input_names[-1]:\n            input_names.pop()\n", "")],
        "scope-class-renamed+reducesum-default": [
            ("SED", r"s/\bScope\b/NameScope/g", "src/spox/_*.py"),
            (V17, "def reduce_sum(\n    data: Var,\n    axes: Optional[Var] = None,\n    *,\n    keepdims: int = 1,", "def reduce_sum(\n    data: Var,\n    axes: Optional[Var] = None,\n    *,\n    keepdims: int = 0,")],
        "var-op-renamed+clip-shifted": [
            ("SED", r"s/\b_op\b/_producer/g", "src/spox/_*.py"),
            (V17, "        _Clip.Inputs(\n            input=input,\n            min=min,\n            max=max,", "        _Clip.Inputs(\n            input=input,\n            min=max,\n            max=min,")],
        "inference-renamed+split-tables": [
            ("SED", r"s/\binference\(/_run_inference(/g", "src/spox/_node.py"),
            (V17, "    op_type = OpType(\"Abs\", \"\", 13)", "    op_type = OpType(\"Abs\", \"\", 6)")],
    },
    "C18-refactor": {
        "to_onnx-kwarg-renamed+plain-node-trims": [
            ("SED", r"s/build_subgraph/subgraph_builder/g", "src/spox/_*.py"),
            ("src/spox/_node.py", "        return len(self.inputs)\n", "        return 0\n")],
        "policy-moved+min": [
            ("SED", r"s/max_opset_policy/opset_policy/g", "src/spox/_*.py"),
            ("src/spox/_schemas.py", "return {domain: max(v for _, v in group) for domain, group in grouping}", "return {domain: min(v for _, v in group) for domain, group in grouping}")],
        "inference-renamed+value-without-check": [
            ("SED", r"s/\binference\(/_run_inference(/g", "src/spox/_node.py"),
            ("src/spox/_node.py", "                if prop.check():", "                if True:")],
        "check-renamed+value-to-untyped": [
            ("SED", r"s/\bcheck\(\)/conforms()/g; s/def check\(self\)/def conforms(self)/", "src/spox/_*.py"),
            ("src/spox/_node.py", "            if var.type is not None and var._value is None and key in out_values:", "            if var._value is None and key in out_values:")],
        "type-warning-level-renamed+no-warning": [
            ("SED", r"s/type_warning_level/warning_level/g", "src/spox/_future.py"),
            ("src/spox/_node.py", "        if _TYPE_WARNING_LEVEL <= TypeWarningLevel.NONE:\n            return", "        if _TYPE_WARNING_LEVEL <= TypeWarningLevel.INITIAL:\n            return")],
    },
    "C18": {
        "plain-node-trims-trailing": [("src/spox/_node.py", "        return len(self.inputs)\n", "        return 0\n")],
        "import-min-instead-of-max": [("src/spox/_schemas.py", "return {domain: max(v for _, v in group) for domain, group in grouping}", "return {domain: min(v for _, v in group) for domain, group in grouping}")],
        "type-hook-overrides-preset": [("src/spox/_node.py", "            if var.type is None:  # If no existing type from init_output_vars\n                # Attempt to use the ones from kwargs, if none then what type inference gave\n                var.type = out_types.get(key)", "            if True:\n                var.type = out_types.get(key)")],
        "value-attached-without-check": [("src/spox/_node.py", "                if prop.check():", "                if True:")],
        "missing-hook-entry-raises": [("src/spox/_node.py", "                var.type = out_types.get(key)", "                var.type = out_types[key]")],
        "no-missing-type-warning-at-critical": [("src/spox/_node.py", "        if _TYPE_WARNING_LEVEL <= TypeWarningLevel.NONE:\n            return", "        if _TYPE_WARNING_LEVEL <= TypeWarningLevel.CRITICAL:\n            return")],
        "variadic-flattened-reversed": [("src/spox/_fields.py", "yield from ((f\"{key}_{i}\", v) for i, v in enumerate(value))", "yield from ((f\"{key}_{i}\", v) for i, v in enumerate(reversed(value)))")],
        "opset-req-version-dropped": [("src/spox/_node.py", "        return {(self.op_type.domain, self.op_type.version)}", "        return {(self.op_type.domain, 1)}")],
        "subgraph-opset-req-not-merged": [("src/spox/_build.py", "        opset_req |= subgraph_opset_req\n", "")],
        "value-attached-to-untyped-var": [("src/spox/_node.py", "            if var.type is not None and var._value is None and key in out_values:", "            if var._value is None and key in out_values:")],
        "value-overrides-preset": [("src/spox/_node.py", "            if var.type is not None and var._value is None and key in out_values:", "            if var.type is not None and key in out_values:")],
        "attr-none-emitted-or-order": [("src/spox/_node.py", "        for key, attr in self.attrs.get_fields().items():\n            if attr is not None:", "        for key, attr in reversed(list(self.attrs.get_fields().items())):\n            if attr is not None:")],
        "domain-dropped-in-nodeproto": [("src/spox/_node.py", "            doc_string,\n            self.op_type.domain,\n        )", "            doc_string,\n            \"\",\n        )")],
    },
}


def sh(cmd, **kw):
    return subprocess.run(cmd, shell=True, capture_output=True, text=True, **kw)


def run_one(pid, name, edits, tier="quick"):
    sh(f"git -C {REPO} checkout -- .")
    for rel, old, new in edits:
        if rel == "SED":
            r0 = sh(f"sed -i -E '{old}' {new}", cwd=REPO)
            if r0.returncode != 0:
                return f"{name}: sed failed {r0.stderr[:200]}"
            continue
        p = REPO / rel
        t = p.read_text()
        if t.count(old) < 1:
            return f"{name}: PATTERN NOT FOUND in {rel}"
        p.write_text(t.replace(old, new, 1))
    try:
        r = sh(f"./check {pid.split('-')[0]} {tier}", cwd=V)
        out = r.stdout + r.stderr
        viol = re.findall(r"^VIOLATION property=\S+ replay=(\S+)(.*)$", out, re.M)
        broken = re.findall(r"BROKEN (\w+): (.{0,90})", out)
        fails = re.findall(r"FAILURE (\S+):", out)
        line = f"{name}: exit {r.returncode}; {len(viol)} VIOLATION; broken={[b[0] + ':' + b[1][:50] for b in broken[:3]]}; failures={fails[:4]}"
        if viol:
            rp, tail = viol[0]
            if "no-failing-input-found" in tail:
                line += "; replay=no-failing-input-found"
            rm = sh(f"./check {pid.split(chr(45))[0]} --replay {rp}", cwd=V)
            line += f"; replay-on-mutant exit {rm.returncode}"
            sh(f"git -C {REPO} checkout -- .")
            rc = sh(f"./check {pid.split(chr(45))[0]} --replay {rp}", cwd=V)
            line += f"; replay-on-clean exit {rc.returncode}"
        return line
    finally:
        sh(f"git -C {REPO} checkout -- .")


if __name__ == "__main__":
    pid = sys.argv[1]
    names = sys.argv[2:] or list(MUT[pid])
    for n in names:
        print(run_one(pid, n, MUT[pid][n]), flush=True)
    # leave the generated tables in their clean-tree state
    sh(f"./check {pid.split('-')[0]} quick", cwd=V)
