"""Function SUBCLASSES for the C14 control-flow-body cases (kept in a module WITHOUT
`from __future__ import annotations`: spox reads the dataclass field types at class creation)."""
from dataclasses import dataclass

from spox import Var
from spox._fields import BaseAttributes, BaseInputs, BaseOutputs
from spox._function import Function
from spox._node import OpType


def make_function_class(name: str, domain: str, body):
    """A `Function` subclass with one input / one output whose constructor runs `body(Var) -> Var`.
    Returns its call function Var -> Var."""

    class _Fn(Function):
        op_type = OpType(name, domain, 1)

        @dataclass
        class Attributes(BaseAttributes):
            pass

        @dataclass
        class Inputs(BaseInputs):
            X: Var

        @dataclass
        class Outputs(BaseOutputs):
            Y: Var

        def constructor(self, attrs, inputs):
            return self.Outputs(body(inputs.X))

    def call(x):
        return _Fn(_Fn.Attributes(), _Fn.Inputs(x)).outputs.Y

    return call
