"""Abstract programs for the Builder model (Model/BuildAlg.lean), their realisations with the real
spox constructors, and the observation of `Builder(graph).build_main()` internals.

An abstract program (AP) is a dict
    {"nodes":  [{"k": kind, "ty": 'f'|'b'|'i', "a": is_argument, "i": [input node ids], "s": [graph ids]}, ...],
     "graphs": [{"args": [node ids] | None, "res": [node ids]}, ...]}          # graph 0 = main
with nodes in creation order (id = index).  Kinds: arg, const, neg, add, sum, less, if (inputs
[cond], graphs [else, then]), loop (inputs v_initial, graphs [body]; body args [iter, cond, carried...],
body results [cond, carried...]).

Two realisations:
  * `realise_lowlevel(ap)`   - every AP (any DAG, Graph objects shared between nodes, argument lists
                               shared between Graphs): `Graph`/`results`/`with_arguments` + node classes;
  * `realise_script(script)` - `if_`/`loop` with Python callbacks; values created in the main program
                               or inside callbacks, passed around through closures / a side-effect box.
                               The AP is recorded while the script runs.
Import spox only after core.use_repo_on_path().
"""
from __future__ import annotations

import re
import warnings
from typing import Any, Optional

import numpy as np

F = "f"
B = "b"
I = "i"


def _spox():
    """What the realisers need: public constructors + the low-level Graph API (no Builder internals)."""
    import spox
    import spox.opset.ai.onnx.v17 as op
    from spox import _graph
    from spox._attributes import AttrGraph

    return spox, op, _graph, AttrGraph


_OPMODS: list = []


def _op_modules() -> list:
    """All shipped `ai.onnx` constructor modules (v18 / v20 mostly re-export their predecessor)."""
    if not _OPMODS:
        import importlib

        for v in (17, 18, 19, 20, 21):
            try:
                _OPMODS.append(importlib.import_module(f"spox.opset.ai.onnx.v{v}"))
            except Exception:  # noqa: BLE001 - a module that is gone is simply not drawn
                pass
    return _OPMODS


def op_for(op, pal, nid: int, loop: bool = False):
    """The constructor module of application `nid`: the plain v17 namespace unless the palette asks for
    mixed modules (bits 3-5 of `pal` set), in which case every application draws its own module - the built
    model then needs version adaptation of single nodes, in main and inside bodies."""
    if pal is None or (pal >> 3) & 7 != 7:
        return op
    mods = _op_modules()
    if loop:
        # Loop-19 / Loop-21 have no `infer_output_types` override: the carried outputs lose their shape
        # and a main result fed by them is refused for a missing shape (type inference, not scoping)
        mods = [m for m in mods if "infer_output_types" in vars(getattr(m, "_Loop", object))] or mods[:1]
    return mods[(pal * 31 + nid * 7 + 5) % len(mods)] if mods else op


def _types():
    from spox import Tensor

    # one-element vectors: what `loop` gives its body (iteration number, condition) and hence what a
    # Loop's `cond` input must look like
    return {F: Tensor(np.float32, (1,)), B: Tensor(np.bool_, (1,)), I: Tensor(np.int64, (1,))}


# --------------------------------------------------------------------------- AP helpers


def ap_for_model(ap: dict) -> dict:
    """What the Lean driver needs (structure only)."""
    return {
        "nodes": [{"a": bool(n["a"]), "i": n["i"], "s": n["s"]} for n in ap["nodes"]],
        "graphs": [
            ({"res": g["res"]} if g["args"] is None else {"args": g["args"], "res": g["res"]})
            for g in ap["graphs"]
        ],
    }


def ap_reachable(ap: dict) -> set[int]:
    """Node ids some requested output of the main graph depends on (input + subgraph-result edges)."""
    seen: set[int] = set()
    stack = list(ap["graphs"][0]["res"])
    while stack:
        n = stack.pop()
        if n in seen:
            continue
        seen.add(n)
        nd = ap["nodes"][n]
        stack.extend(nd["i"])
        for g in nd["s"]:
            stack.extend(ap["graphs"][g]["res"])
    return seen


def ap_free_args(ap: dict) -> tuple[set[int], dict]:
    """Arguments the main results depend on after every body has discharged its own arguments.

    FA(arg a) = {a}; FA(n) = U FA(inputs) u U_{body g of n} (FA(results g) - args g).
    A program whose FA(main results) is not within main's argument list uses a body-local argument
    outside the body that owns it (outer or sibling scope) or an argument nobody owns.
    """
    memo: dict[int, frozenset] = {}

    def fa_graph(g: int) -> frozenset:
        gr = ap["graphs"][g]
        s: set[int] = set()
        for r in gr["res"]:
            s |= fa(r)
        return frozenset(s - set(gr["args"] or []))

    def fa(n: int) -> frozenset:
        if n in memo:
            return memo[n]
        nd = ap["nodes"][n]
        if nd["a"]:
            r = frozenset([n])
        else:
            s: set[int] = set()
            for i in nd["i"]:
                s |= fa(i)
            for g in nd["s"]:
                s |= fa_graph(g)
            r = frozenset(s)
        memo[n] = r
        return r

    main = ap["graphs"][0]
    s: set[int] = set()
    for r in main["res"]:
        s |= fa(r)
    if main["args"] is None:
        # unspecified: main takes every argument nobody else claims
        claimed = set()
        reach = ap_reachable(ap)
        for n in reach:
            for g in ap["nodes"][n]["s"]:
                claimed |= set(ap["graphs"][g]["args"] or [])
        return set(a for a in s if a in claimed), memo
    return s - set(main["args"]), memo


def ap_reuse(ap: dict) -> bool:
    """Graph objects held by more than one attribute, or argument lists shared between graphs."""
    seen: list[int] = []
    for n in ap["nodes"]:
        for g in n["s"]:
            if g in seen or g == 0:
                return True
            seen.append(g)
    claimed: set[int] = set()
    for g in ap["graphs"]:
        for a in g["args"] or []:
            if a in claimed:
                return True
            claimed.add(a)
    for g in ap["graphs"]:
        if g["args"] is None and g is not ap["graphs"][0]:
            return True
    return False


def ap_size(ap: dict) -> int:
    return len(ap["nodes"]) + 3 * len(ap["graphs"])


# --------------------------------------------------------------------------- realisation


class Real:
    """A realised program: the main Graph and the maps back to abstract ids."""

    def __init__(self):
        self.main = None
        self.node_id: dict[Any, int] = {}  # spox Node -> abstract id
        self.nodes: list[Any] = []  # abstract id -> spox Node
        self.graph_id: dict[Any, int] = {}  # spox Graph -> abstract graph id
        self.graphs: dict[int, Any] = {}
        self.ap: Optional[dict] = None
        # pairs of call sites (abstract ids) for which the constructor returned the SAME node object
        self.merged: list[tuple[int, int]] = []
        # body slots that were handed a callable but hold a Graph object another slot already holds /
        # whose callable was not called for them: (control kind, slot, callable name, calls made, slots)
        self.shared_bodies: list[tuple] = []


def _name_outputs(node, nid: int, is_arg: bool):
    vs = list(node.outputs.get_vars().values())
    if is_arg:
        vs[0]._rename(f"a{nid}")
    elif len(vs) == 1:
        vs[0]._rename(f"v{nid}")
    else:
        for k, v in enumerate(vs):
            v._rename(f"v{nid}_{k}")


_CUSTOM = {}


def _custom_classes():
    """User-defined operators (domain `c04.custom`) standing in for unary / binary / variadic ops."""
    if _CUSTOM:
        return _CUSTOM
    import dataclasses
    import typing

    from spox import Var
    from spox._fields import BaseAttributes, BaseInputs, BaseOutputs
    from spox._node import Node, OpType

    def mk(name, fields):
        Inputs = dataclasses.make_dataclass("Inputs", fields, bases=(BaseInputs,))
        Outputs = dataclasses.make_dataclass("Outputs", [("y", Var)], bases=(BaseOutputs,))
        Attributes = dataclasses.make_dataclass("Attributes", [], bases=(BaseAttributes,))
        return type(name, (Node,), {
            "op_type": OpType(name, "c04.custom", 1), "Attributes": Attributes, "Inputs": Inputs, "Outputs": Outputs,
            "infer_output_types": lambda self: {"y": next(iter(self.inputs.get_vars().values())).type},
        })

    _CUSTOM["neg"] = mk("KNeg", [("a", Var)])
    _CUSTOM["add"] = mk("KAdd", [("a", Var), ("b", Var)])
    _CUSTOM["sum"] = mk("KSum", [("xs", typing.Sequence[Var])])
    return _CUSTOM


# operator kinds per abstract kind: the Builder must place a node by its uses, never by what it is
N_VARIANTS = {"const": 5, "neg": 9, "add": 6, "sum": 5, "less": 3}


def make_value(op, _graph, kind: str, ins: list, nid: int, val=None, pal=None) -> list:
    """One constructor call for one abstract node. `pal` (an int) picks, per node, one of several
    operator kinds with the same arity and result type: input-less generators and attribute-only
    constants, multi-output ops, the ai.onnx.ml domain, user-defined operators. `pal=None`: the
    plain constructors of the namespace `op`."""
    v = 0 if pal is None or kind not in N_VARIANTS else (pal * 7919 + nid * 104729 + 13) % N_VARIANTS[kind]
    op = op_for(op, pal, nid)
    if kind == "const":
        if v == 1:
            return [op.constant(value_floats=[float(nid)])]
        if v == 2:
            return [op.random_normal(shape=[1])]
        if v == 3:
            return [op.random_uniform(shape=[1])]
        if v == 4:
            return [op.random_normal(shape=[1], seed=float(nid))]
        return [op.const(np.array([nid], np.float32))]
    if kind == "init":
        return [_graph.initializer(np.array([nid], np.float32))]
    if kind == "consti":
        return [op.const(int(val))]  # a plain Python int literal
    if kind == "pconst":
        return [op.const(val)]  # a plain Python bool / float literal
    if kind == "castf":
        return [op.cast(ins[0], to=np.float32)]
    if kind in ("intro1", "ucast", "ureshape") or (kind == "neg" and v in (6, 7, 8)):
        # user-level internal operators (`spox._internal_op`): `_Introduce` nodes like the per-graph
        # sources, but made by the program - ordinary vertices for placement
        from spox import _internal_op as iop

        which = kind if kind != "neg" else ("intro1", "ucast", "ureshape")[v - 6]
        if which == "intro1":
            return [iop.intro(ins[0])]
        if which == "ucast":
            return [iop.unsafe_cast(ins[0], _types()[F])]
        return [iop.unsafe_reshape(ins[0], (1,))]
    if kind == "neg":
        if v == 1:
            return [op.abs(ins[0])]
        if v == 2:
            return [op.identity(ins[0])]
        if v == 3:
            import spox.opset.ai.onnx.ml.v3 as ml

            return [ml.scaler(ins[0], offset=[0.0], scale=[1.0])]
        if v == 4:
            C = _custom_classes()["neg"]
            return [C(C.Attributes(), C.Inputs(a=ins[0])).outputs.y]
        if v == 5:
            return list(op.dropout(ins[0]))  # two outputs
        return [op.neg(ins[0])]
    if kind == "add":
        if v == 1:
            return [op.mul(ins[0], ins[1])]
        if v == 2:
            return [op.sub(ins[0], ins[1])]
        if v == 3:
            C = _custom_classes()["add"]
            return [C(C.Attributes(), C.Inputs(a=ins[0], b=ins[1])).outputs.y]
        if v == 4:
            return [op.max([ins[0], ins[1]])]
        if v == 5:
            from spox import _internal_op as iop

            return list(iop.intros(ins[0], ins[1]))  # one node, two Identity NodeProtos
        return [op.add(ins[0], ins[1])]
    if kind == "sum":
        if v == 1:
            return [op.max(ins)]
        if v == 2:
            return [op.mean(ins)]
        if v == 3:
            C = _custom_classes()["sum"]
            return [C(C.Attributes(), C.Inputs(xs=ins)).outputs.y]
        if v == 4:
            return [op.min(ins)]
        return [op.sum(ins)]
    if kind == "less":
        if v == 1:
            return [op.greater(ins[0], ins[1])]
        if v == 2:
            return [op.equal(ins[0], ins[1])]
        return [op.less(ins[0], ins[1])]
    raise ValueError(kind)


_VAL_TYPES = {"const": F, "init": F, "consti": I, "neg": F, "add": F, "sum": F, "less": B, "castf": "s",
              "intro1": F, "ucast": F, "ureshape": F}


def realise_lowlevel(ap: dict, name_vars: bool = True, pal=None) -> Real:
    spox, op, _graph, AttrGraph = _spox()
    ty = _types()
    R = Real()
    R.ap = ap
    outs: list[list] = []  # per node: output Vars

    def graph(gid: int):
        if gid not in R.graphs:
            g = ap["graphs"][gid]
            gr = _graph.results(**{f"out{k}": outs[r][0] for k, r in enumerate(g["res"])})
            if g["args"] is not None:
                gr = gr.with_arguments(*[outs[a][0] for a in g["args"]])
            R.graphs[gid] = gr
            R.graph_id[gr] = gid
        return R.graphs[gid]

    with warnings.catch_warnings():
        warnings.simplefilter("ignore")
        for nid, nd in enumerate(ap["nodes"]):
            k = nd["k"]
            ins = [outs[i][0] for i in nd["i"]]
            if k == "arg":
                vs = [spox.argument(ty[nd["ty"]])]
            elif k in ("const", "init", "consti", "pconst", "castf", "neg", "add", "sum", "less", "intro1", "ucast", "ureshape"):
                vs = make_value(op, _graph, k, ins, nid, nd.get("val"), pal)
            elif k == "if":
                ge, gt = graph(nd["s"][0]), graph(nd["s"][1])
                opm = op_for(op, pal, nid)
                vs = list(
                    opm._If(
                        opm._If.Attributes(
                            else_branch=AttrGraph(ge, name="else_branch"),
                            then_branch=AttrGraph(gt, name="then_branch"),
                        ),
                        opm._If.Inputs(cond=ins[0]),
                        out_variadic=len(ge.requested_results),
                    ).outputs.outputs
                )
            elif k == "loop":
                gb = graph(nd["s"][0])
                opm = op_for(op, pal, nid, loop=True)
                vs = list(
                    opm._Loop(
                        opm._Loop.Attributes(body=AttrGraph(gb, name="body")),
                        opm._Loop.Inputs(
                            M=ins[0] if nd.get("m") else None,
                            cond=ins[int(bool(nd.get("m")))] if nd.get("c") else None,
                            v_initial=ins[int(bool(nd.get("m"))) + int(bool(nd.get("c"))):],
                        ),
                        out_variadic=len(gb.requested_results) - 1,
                    ).outputs.v_final_and_scan_outputs
                )
            else:
                raise ValueError(k)
            node = vs[0]._op
            if node in R.node_id:
                R.merged.append((R.node_id[node], nid))
            if name_vars:
                _name_outputs(node, nid, nd["a"])
            outs.append(vs)
            R.node_id[node] = nid
            R.nodes.append(node)
        R.main = graph(0)
    return R


class ScriptError(Exception):
    pass


def realise_script(script: dict, name_vars: bool = True, pal=None, name_offset: int = 0) -> Real:
    """Run a script with `if_` / `loop` callbacks. Script:
        {"main": block, "res": [refs]}
        block = [stmt...];  stmt = ["val", kind, [refs]]
                                 | ["if", cond_ref, else_block, [else res refs], then_block, [then res refs]]
                                 | ["loop", [init refs], n_body_args, body_block, [body res refs]]
    refs are creation-order ids (0 = main argument x: float, 1 = main argument c: bool); a value made
    in any callback can be referred to from anywhere later (closure / side-effect box).
    """
    spox, op, _graph, AttrGraph = _spox()
    ty = _types()
    R = Real()
    box: list = []  # id -> Var (first output)
    ap = {"nodes": [], "graphs": [{"args": [0, 1], "res": []}]}
    R.ap = ap

    def reg(node, kind, t, ins, subs, is_arg=False):
        nid = len(ap["nodes"])
        ap["nodes"].append({"k": kind, "ty": t, "a": is_arg, "i": list(ins), "s": list(subs)})
        if node in R.node_id:
            R.merged.append((R.node_id[node], nid))
        if name_vars:
            # `name_offset`: the same program under other value names (only for programs that are built
            # to leave traces in the process, never judged)
            _name_outputs(node, nid + name_offset, is_arg)
        R.node_id[node] = nid
        R.nodes.append(node)
        box.append(list(node.outputs.get_vars().values())[0])
        return nid

    def reg_graph(gr, args, res):
        gid = len(ap["graphs"])
        ap["graphs"].append({"args": list(args), "res": list(res)})
        R.graphs[gid] = gr
        R.graph_id[gr] = gid
        return gid

    fns: dict[str, Any] = {}      # name -> the ONE callable object of that name
    calls_ctx: list[list] = []   # innermost call site: [(argument ids, result ids)] per invocation
    ctrl_ids: list[int] = []     # ids of the control nodes made through callables, in order
    cell: list = [None]          # a mutable capture: callables read it at call time

    def define(name, form, block, res):
        """One Python callable object per `def` statement; every body slot it is handed to must call it."""
        import functools

        def fn(*args):
            arg_ids = [reg(a._op, "arg", I if k == 0 else (B if k == 1 else F), [], [], is_arg=True) for k, a in enumerate(args)]
            loc: list[int] = []

            def rs(r):
                if isinstance(r, int):
                    return r
                if r[0] == "L":
                    return loc[r[1]]
                if r[0] == "A":
                    return arg_ids[r[1]]
                if r[0] == "V":
                    return cell[0]
                raise ScriptError(str(r))

            for st in block:
                refs = [rs(r) for r in st[2]]
                v = make_value(op, _graph, st[1], [box[r] for r in refs], len(box), None, pal)[0]
                loc.append(reg(v._op, st[1], _VAL_TYPES[st[1]], refs, []))
            res_ids = [rs(r) for r in res]
            if args:
                res_ids = [arg_ids[1]] + res_ids  # a Loop body hands its condition on
            calls_ctx[-1].append((arg_ids, res_ids))
            return [box[r] for r in res_ids]

        if form == "lambda":
            obj = lambda *a: fn(*a)  # noqa: E731 - a lambda stored in a variable
        elif form == "method":
            class Holder:
                def step(self, *a):
                    return fn(*a)

            holder = Holder()
            obj = holder.step  # ONE bound-method object, reused
        elif form == "partial":
            def fn2(_tag, *a):
                return fn(*a)

            obj = functools.partial(fn2, "tag")
        else:
            obj = fn
        fns[name] = obj

    def slot_graph(kind, k, name, gobj, rec, nslots):
        """The abstract graph id of body slot `k`: a fresh one from the k-th invocation of the callable, or -
        when the slot holds a Graph object that is already known / the callable was not called for it -
        the known one (the program then has ONE graph where it handed a callable to each slot)."""
        if gobj in R.graph_id:
            R.shared_bodies.append((kind, k, name, len(rec), nslots))
            return R.graph_id[gobj]
        if not rec:
            raise ScriptError("callable never called and Graph unknown")
        if k >= len(rec):
            R.shared_bodies.append((kind, k, name, len(rec), nslots))
        a, r_ = rec[min(k, len(rec) - 1)]
        return reg_graph(gobj, a, r_)

    def gref(r):
        if isinstance(r, int):
            return r if r >= 0 else len(box) + r  # -1 = the value made last
        return ctrl_ids[r[1]] if r[0] == "C" else r

    def run_block(block):
        for st in block:
            if st[0] == "def":
                define(st[1], st[2], st[3], st[4])
            elif st[0] == "setcell":
                cell[0] = gref(st[1])
            elif st[0] == "ifc":
                _, cref, en, tn = st
                rec: list = []
                calls_ctx.append(rec)
                try:
                    outs = op_for(op, pal, len(box)).if_(box[gref(cref)], else_branch=fns[en], then_branch=fns[tn])
                finally:
                    calls_ctx.pop()
                node = outs[0]._op
                s0 = slot_graph("if", 0, en, node.attrs.else_branch.value, rec, 2)
                s1 = slot_graph("if", 1, tn, node.attrs.then_branch.value, rec, 2)
                ctrl_ids.append(reg(node, "if", F, [gref(cref)], [s0, s1]))
            elif st[0] == "loopc":
                _, init, name, mc = st
                init = [gref(r) for r in init]
                mref = mc.get("m")
                rec = []
                calls_ctx.append(rec)
                try:
                    outs = op_for(op, pal, len(box), loop=True).loop(
                        box[mref] if mref is not None else None, None, v_initial=[box[r] for r in init], body=fns[name])
                finally:
                    calls_ctx.pop()
                node = outs[0]._op
                s0 = slot_graph("loop", 0, name, node.attrs.body.value, rec, 1)
                lid = reg(node, "loop", F, ([mref] if mref is not None else []) + list(init), [s0])
                ap["nodes"][lid]["m"] = mref is not None
                ap["nodes"][lid]["c"] = False
                ctrl_ids.append(lid)
            elif st[0] == "val":
                kind, refs = st[1], [gref(r) for r in st[2]]
                ins = [box[r] for r in refs]
                val = st[3] if len(st) > 3 else None
                if kind == "pconst":
                    t = B if isinstance(val, bool) else "p"
                elif kind in _VAL_TYPES:
                    t = _VAL_TYPES[kind]
                else:
                    raise ScriptError(kind)
                v = make_value(op, _graph, kind, ins, len(box), val, pal)[0]
                nid_ = reg(v._op, kind, t, refs, [])
                if val is not None:
                    ap["nodes"][nid_]["val"] = val
            elif st[0] == "if":
                _, cref, eblock, eres, tblock, tres = st

                def mk(block_, res_):
                    def fn():
                        run_block(block_)
                        return [box[r] for r in res_]

                    return fn

                outs = op_for(op, pal, len(box)).if_(box[cref], else_branch=mk(eblock, eres), then_branch=mk(tblock, tres))
                node = outs[0]._op
                ge, gt = node.attrs.else_branch.value, node.attrs.then_branch.value
                s0 = reg_graph(ge, [], eres)
                s1 = reg_graph(gt, [], tres)
                reg(node, "if", F, [cref], [s0, s1])
            elif st[0] == "loop":
                init, nargs, bblock, bres = st[1], st[2], st[3], st[4]
                mc = st[5] if len(st) > 5 else {}
                mref, cref = mc.get("m"), mc.get("c")
                arg_ids: list[int] = []

                def body(*args):
                    assert len(args) == nargs, (len(args), nargs)
                    for k, a in enumerate(args):
                        t = I if k == 0 else (B if k == 1 else F)
                        arg_ids.append(reg(a._op, "arg", t, [], [], is_arg=True))
                    run_block(bblock)
                    return [box[r] for r in bres]

                outs = op_for(op, pal, len(box), loop=True).loop(
                    box[mref] if mref is not None else None,
                    box[cref] if cref is not None else None,
                    v_initial=[box[r] for r in init],
                    body=body,
                )
                node = outs[0]._op
                s0 = reg_graph(node.attrs.body.value, arg_ids, bres)
                lid = reg(node, "loop", F,
                          ([mref] if mref is not None else []) + ([cref] if cref is not None else []) + list(init), [s0])
                ap["nodes"][lid]["m"] = mref is not None
                ap["nodes"][lid]["c"] = cref is not None
            else:
                raise ScriptError(st[0])

    with warnings.catch_warnings():
        warnings.simplefilter("ignore")
        x = spox.argument(ty[F])
        c = spox.argument(ty[B])
        reg(x._op, "arg", F, [], [], is_arg=True)
        reg(c._op, "arg", B, [], [], is_arg=True)
        run_block(script["main"])
        res = [gref(r) for r in script["res"]]
        ap["graphs"][0]["res"] = list(res)
        R.main = _graph.results(**{f"out{k}": box[r] for k, r in enumerate(res)}).with_arguments(x, c)
        R.graphs[0] = R.main
        R.graph_id[R.main] = 0
    return R


# --------------------------------------------------------------------------- observation

_ERR = {"BuildError": "Build", "ScopeError": "Scope", "KeyError": "Key", "ValidationError": "Validation"}


def err_class(e: BaseException) -> str:
    return _ERR.get(type(e).__name__, type(e).__name__)


def build_public(R: Real) -> dict:
    """Build through the public surface only (`Graph.to_onnx_model`, final checker included).

    Nothing of `Builder`'s internals is touched: this is what the model-free oracle judges.
    Returns {"ok", "err", "model_err", "_model"} (+ "_unchecked": the proto without the final
    checker when only the checker objected, for the emission comparison)."""
    out: dict[str, Any] = {"ok": False, "err": None, "model_err": None, "_model": None, "_unchecked": None}
    with warnings.catch_warnings():
        warnings.simplefilter("ignore")
        try:
            out["_model"] = R.main.to_onnx_model()
            out["ok"] = True
        except Exception as e:  # noqa: BLE001
            out["err"] = err_class(e)
            out["msg"] = str(e)[:120]
            if out["err"] == "Validation":
                try:
                    out["_unchecked"] = R.main.to_onnx_model(check_model=0)
                except Exception:  # noqa: BLE001
                    pass
    return out


def trace_from_proto(ap: dict, model) -> list:
    """The nested emission, flattened into the event trace of the compilation walk, read from the
    ModelProto alone (value names `v<id>` / `a<id>`; NodeProtos without such an output are the
    Identity nodes of a graph's `_Introduce` source, vertex -1-g)."""
    import onnx

    trace: list = []

    def walk(gp, gid):
        trace.append(["enter", gid])
        ids = []
        for vi in gp.input:
            m = _ANAME.match(vi.name)
            if not m:
                raise ValueError(f"graph input {vi.name!r} is not an argument name")
            ids.append(int(m.group(1)))
        if ap["graphs"][gid]["args"] is None:
            ids = sorted(ids)  # `list(all - claimed)`: set order
        for a in ids:
            trace.append(["arg", a])
        last_src = False
        for pn in gp.node:
            nids = {int(m.group(1)) for m in (_VNAME.match(nm) for nm in pn.output if nm) if m}
            if nids:
                (nid,) = nids
                if trace[-1] == ["emit", nid] and not any(a.type == onnx.AttributeProto.GRAPH for a in pn.attribute):
                    continue  # the further Identity NodeProtos of one `_Introduce` node
                trace.append(["emit", nid])
                last_src = False
                subs = [a.g for a in pn.attribute if a.type == onnx.AttributeProto.GRAPH]
                want = ap["nodes"][nid]["s"]
                if len(subs) != len(want):
                    raise ValueError(f"node {nid}: {len(subs)} graph attributes, expected {len(want)}")
                for sg, sub in zip(subs, want):
                    walk(sg, sub)
            else:
                if not last_src:
                    trace.append(["emit", -1 - gid])
                last_src = True
        trace.append(["leave", gid])

    walk(model.graph, 0)
    return trace


def placed_from_trace(trace: list) -> list:
    """[vertex, graph] for every `emit` event: the innermost graph open at the event (the counterpart of
    `BuildAlg.placed`, computed on the trace read from the real ModelProto)."""
    out, st = [], []
    for k, x in trace:
        if k == "enter":
            st.append(x)
        elif k == "leave":
            st.pop()
        elif k == "emit":
            out.append([x, st[-1] if st else 0])
    return out


def drop_initializers(ap: dict, trace: list) -> list:
    """Initializers are emitted as `GraphProto.initializer` entries, not as NodeProtos: the trace read
    from the proto cannot order them, so they are left out of the trace comparison (their position
    is still compared through `scope_of` / `scope_own` and judged by the oracle)."""
    inits = {n for n, nd in enumerate(ap["nodes"]) if nd["k"] == "init"}
    if not inits:
        return trace
    return [e for e in trace if not (e[0] == "emit" and e[1] in inits)]


INTERNAL_FACETS = ("graph_topo", "args_of", "scope_of", "scope_own", "owner")


def observe_internals(R: Real) -> dict:
    """Run `Builder(main).build_main()` and read its internals, in abstract ids, facet by facet.

    Vertices: node n -> n, the source (`_Introduce`) of graph g -> -1-g. A facet that cannot be read
    (missing / renamed attribute, changed type, exception while reading) is reported under
    "unobservable" with the reason; it never raises."""
    out: dict[str, Any] = {"facets": {}, "unobservable": {}, "ok": None, "err": None}
    try:
        from spox._build import Builder

        b = Builder(R.main)
    except Exception as e:  # noqa: BLE001
        out["unobservable"] = {f: f"Builder not constructible: {type(e).__name__}: {e}"[:200] for f in INTERNAL_FACETS}
        return out
    with warnings.catch_warnings():
        warnings.simplefilter("ignore")
        try:
            b.build_main()
            out["ok"] = True
        except Exception as e:  # noqa: BLE001
            out["ok"] = False
            out["err"] = err_class(e)
            return out

    gid = dict(R.graph_id)

    def vid(node) -> int:
        if node in R.node_id:
            return R.node_id[node]
        for g, src in b.source_of.items():
            if src is node:
                return -1 - gid[g]
        raise KeyError(f"unknown node {type(node).__name__}")

    def f_graph_topo():
        return [gid[g] for g in b.graph_topo]

    def f_args_of():
        res = []
        for g in sorted(b.arguments_of, key=lambda g: gid[g]):
            ids = [R.node_id[v._op] for v in b.arguments_of[g]]
            if g.requested_arguments is None:
                ids = sorted(ids)
            res.append([gid[g], ids])
        return res

    def f_scope_of():
        return sorted([vid(n), gid[g]] for n, g in b.scope_tree.scope_of.items())

    def f_scope_own():
        return sorted([gid[g], [vid(n) for n in lst]] for g, lst in b.scope_own.items())

    def f_owner():
        # `scope_tree.subgraph_owner` (round 10; theorem `owner_unique`): graph id -> id of the node holding it
        return sorted([gid[g], vid(n)] for g, n in b.scope_tree.subgraph_owner.items())

    for name, fn in (("graph_topo", f_graph_topo), ("args_of", f_args_of), ("scope_of", f_scope_of), ("scope_own", f_scope_own), ("owner", f_owner)):
        try:
            out["facets"][name] = fn()
        except Exception as e:  # noqa: BLE001
            out["unobservable"][name] = f"{type(e).__name__}: {e}"[:200]
    return out


def observe_public(R: Real, drop: bool = False) -> dict:
    """The same program through the public `spox.build(inputs, outputs)` (fresh Builder inside);
    `drop`: with `drop_unused_inputs=True` (the main graph then has no requested argument list and
    takes what the traversal finds, at any depth)."""
    import spox

    out: dict[str, Any] = {"model_err": None}
    args = list(R.main.requested_arguments or [])
    ins = {f"a{R.node_id[v._op]}": v for v in args}
    outs = dict(R.main.requested_results)
    with warnings.catch_warnings():
        warnings.simplefilter("ignore")
        try:
            out["_model"] = spox.build(ins, outs, drop_unused_inputs=True) if drop else spox.build(ins, outs)
            out["ok"] = True
        except Exception as e:  # noqa: BLE001
            out["ok"] = False
            out["err"] = err_class(e)
            out["_model"] = None
    return out


def kept_inputs(ap: dict, model) -> tuple[list, list]:
    """(inputs of the model, the main arguments some requested output depends on - in the given order):
    what `drop_unused_inputs=True` must keep."""
    got = []
    for vi in model.graph.input:
        m = _ANAME.match(vi.name)
        got.append(int(m.group(1)) if m else vi.name)
    reach = ap_reachable(ap)
    want = [a for a in (ap["graphs"][0]["args"] or []) if a in reach]
    return got, want


class ambient:
    """Run a block under ambient scoped settings the property's verdicts must not depend on:
    value-propagation backend, type-warning level, operator overloading. Settings that do not exist
    any more are skipped (nothing here is needed by the oracle)."""

    def __init__(self, which):
        self.which = which
        self.stack = None

    def __enter__(self):
        import contextlib

        self.stack = contextlib.ExitStack()
        if self.which is None:
            return self
        w = int(self.which)
        try:
            import spox._future as fut
            from spox._value_prop import ValuePropBackend

            backends = [b for b in (getattr(ValuePropBackend, n, None) for n in ("NONE", "REFERENCE")) if b is not None]  # (onnxruntime inside forked workers is a deadlock trap)
            if backends:
                self.stack.enter_context(fut.value_prop_backend(backends[w % len(backends)]))
            levels = list(fut.TypeWarningLevel)
            self.stack.enter_context(fut.type_warning_level(levels[(w // 2) % len(levels)]))
            if (w // 12) % 2:
                import spox.opset.ai.onnx.v17 as op17

                self.stack.enter_context(fut.operator_overloading(op17, type_promotion=bool(w & 32), constant_promotion=bool(w & 64)))
        except Exception:  # noqa: BLE001 - the setting is gone / renamed: run without it
            pass
        return self

    def __exit__(self, *exc):
        self.stack.close()
        return False


def model_verdict(m: dict) -> str:
    """The outcome class the model predicts for the whole public build."""
    if not m.get("ok"):
        return str(m.get("err"))
    return "ok" if m.get("struct_ok") else "Validation"


def model_facets(m: dict) -> dict:
    """Canonicalise the driver's answer the same way as `observe_internals` / `trace_from_proto`."""
    return {
        "graph_topo": m["graph_topo"],
        "args_of": sorted([g, a] for g, a in m["args_of"]),
        "scope_of": sorted([v, g] for v, g in m["scope_of"]),
        "scope_own": sorted([g, l] for g, l in m["scope_own"]),
        "owner": sorted([g, n] for g, n in m.get("owner", [])),
        "trace": [[k, x] for k, x in m["trace"]],
    }


# --------------------------------------------------------------------------- model-free oracle on the ModelProto

_VNAME = re.compile(r"^v(\d+)(?:_(\d+))?$")
_ANAME = re.compile(r"^a(\d+)$")


def proto_facts(model) -> dict:
    """Positions (graph paths) of every operator application and argument in the nested proto, by the
    value names given at construction (`v<id>` / `a<id>`), and the paths of the users of each name."""
    import onnx

    emitted: dict[int, list[tuple]] = {}  # abstract id -> paths where a NodeProto producing it sits
    args: dict[int, list[tuple]] = {}
    users: dict[str, list[tuple]] = {}  # value name -> paths of consuming NodeProtos
    defined: dict[str, tuple] = {}  # value name -> path where it is defined
    node_inputs: list[tuple] = []  # (path, [input names], [output names], [body paths])
    per_out: dict[tuple, list[tuple]] = {}  # (abstract id, output index) -> paths (an `_Introduce` node is several NodeProtos)

    def walk(gp, path):
        for vi in gp.input:
            defined.setdefault(vi.name, path)
            m = _ANAME.match(vi.name)
            if m:
                args.setdefault(int(m.group(1)), []).append(path)
        for init in gp.initializer:
            defined.setdefault(init.name, path)
            m = _VNAME.match(init.name)
            if m:
                emitted.setdefault(int(m.group(1)), []).append(path)
        for k, pn in enumerate(gp.node):
            for nm in pn.input:
                if nm:
                    users.setdefault(nm, []).append(path)
            ids = set()
            for nm in pn.output:
                if nm:
                    defined.setdefault(nm, path)
                    m = _VNAME.match(nm)
                    if m:
                        ids.add(int(m.group(1)))
                        per_out.setdefault((int(m.group(1)), m.group(2)), []).append(path)
            bodies = []
            for a in pn.attribute:
                if a.type == onnx.AttributeProto.GRAPH:
                    sub = path + ((k, a.name),)
                    bodies.append(sub)
                    walk(a.g, sub)
            node_inputs.append((path, [n for n in pn.input if n], [n for n in pn.output if n], bodies))

    walk(model.graph, ())
    for (i, _k), ps in sorted(per_out.items(), key=lambda t: (t[0][0], t[0][1] or "")):
        cur = emitted.get(i)
        if cur is None or len(ps) > len(cur):
            emitted[i] = list(ps)
        elif len(ps) == len(cur) == 1 and ps != cur:
            emitted[i] = cur + ps  # the parts of one application sit in different graphs
    return {"emitted": emitted, "args": args, "users": users, "defined": defined, "nodes": node_inputs}


def common_prefix(paths: list[tuple]) -> tuple:
    p = paths[0]
    for q in paths[1:]:
        n = 0
        while n < len(p) and n < len(q) and p[n] == q[n]:
            n += 1
        p = p[:n]
    return p


def oracle(ap: dict, o: dict) -> list[tuple[str, str]]:
    """Judge the property statement on the real outcome `o` (from `observe`). Returns (key, what)."""
    bad: list[tuple[str, str]] = []
    leaked, _ = ap_free_args(ap)
    reach = ap_reachable(ap)
    # only leaks some requested output depends on make the program illegal
    leaked = {a for a in leaked if a in reach}
    reuse = ap_reuse(ap)
    built = o["ok"] and o.get("model_err") is None
    if leaked:
        if built:
            bad.append(("leak-accepted", f"arguments {sorted(leaked)} of a body are used outside it, yet the program was built"))
            # fall through: the built model is also judged below
        else:
            return bad
    elif not built:
        if not reuse:
            err = o.get("err") or o.get("model_err")
            bad.append(("legal-rejected", f"a well-scoped program was rejected with {err}"))
        return bad
    facts = proto_facts(o["_model"])
    em, users = facts["emitted"], facts["users"]
    for n, nd in enumerate(ap["nodes"]):
        if nd["a"]:
            continue
        cnt = len(em.get(n, []))
        if n in reach and cnt == 0:
            bad.append(("missing-emission", f"operator application {n} ({nd['k']}) is needed by an output but is not in the model"))
        elif n in reach and cnt > 1:
            bad.append(("dup-emission", f"operator application {n} ({nd['k']}) appears {cnt} times: {em[n]}"))
        elif n not in reach and cnt > 0:
            bad.append(("unreachable-emitted", f"operator application {n} ({nd['k']}) is emitted although no output depends on it"))
    # placement: innermost graph enclosing all direct uses (independent LCA over the proto nesting)
    name_paths: dict[int, list[tuple]] = {}
    for nm, ps in users.items():
        m = _VNAME.match(nm)
        if m:
            name_paths.setdefault(int(m.group(1)), []).extend(ps)
    for n, paths in em.items():
        if len(paths) != 1:
            continue
        us = name_paths.get(n, [])
        if not us:
            continue
        want = common_prefix(us)
        if paths[0] != want:
            kind = "too-high" if paths[0] == want[: len(paths[0])] else ("too-low" if want == paths[0][: len(want)] else "elsewhere")
            bad.append((f"misplaced:{kind}", f"operator application {n} sits at {paths[0]} but the innermost graph enclosing its uses is {want}"))
    # values depending on a body's arguments never outside that body
    defined = facts["defined"]
    producers: dict[str, tuple] = {}
    for rec in facts["nodes"]:
        for nm in rec[2]:
            producers[nm] = rec
    memo: dict[str, frozenset] = {}

    def deps_name(nm: str) -> frozenset:
        if nm in memo:
            return memo[nm]
        memo[nm] = frozenset()
        if nm in producers:
            r = deps_node(producers[nm])
        elif _ANAME.match(nm) and defined.get(nm, ()) != ():
            r = frozenset([nm])
        else:
            r = frozenset()
        memo[nm] = r
        return r

    def deps_node(rec) -> frozenset:
        path, ins, outs, bodies = rec
        s: set[str] = set()
        for nm in ins:
            s |= deps_name(nm)
        for bp in bodies:
            for rec2 in facts["nodes"]:
                if rec2[0][: len(bp)] == bp:
                    for nm in rec2[1]:
                        for a in deps_name(nm):
                            if defined.get(a, ())[: len(bp)] != bp:
                                s.add(a)
        return frozenset(s)

    for rec in facts["nodes"]:
        path = rec[0]
        for a in deps_node(rec):
            q = defined.get(a, ())
            if path[: len(q)] != q:
                bad.append(("arg-escape", f"a node at {path} depends on argument {a} of the body at {q}"))
                break
    return bad
