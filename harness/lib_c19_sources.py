"""Tie G (change-triggered escalation) for C19: normalised-AST hashes of every function / method / class-level
statement list of the hand-written spox modules the C19 model covers, of tools/generate_opset.py, and of the
control-flow constructors + their node classes in every generated opset module. A changed, added or removed
entry is NOT a violation; it makes the quick tier run more nested programs, more malformed-callback cases and
more cases with later steps for that run (same verdict rules), and the list is written to the evidence.

Baseline: harness/c19_source_baseline.json (the tree the check was last validated on). Refresh it after
accepted changes of the repo with  `SPOX_REPO=... python -m harness.lib_c19_sources --write`.
"""
import ast
import hashlib
import json
import os
import sys
from pathlib import Path

HERE = Path(__file__).resolve().parent
BASELINE = HERE / "c19_source_baseline.json"
FILES = ["_graph.py", "_build.py", "_standard.py", "_node.py", "_fields.py", "_var.py", "_public.py", "_attributes.py",
         "_internal_op.py", "_inline.py", "_value_prop.py", "_scope.py"]
CTOR_NAMES = {"if_", "loop", "scan", "sequence_map", "_If", "_Loop", "_Scan", "_SequenceMap"}


def _strip(node):
    """drop docstrings so that a comment / doc edit does not escalate"""
    for n in ast.walk(node):
        body = getattr(n, "body", None)
        if isinstance(body, list) and body and isinstance(body[0], ast.Expr) and isinstance(
                getattr(body[0], "value", None), ast.Constant) and isinstance(body[0].value.value, str):
            n.body = body[1:] or [ast.Pass()]
    return node


def _h(txt):
    return hashlib.sha1(txt.encode()).hexdigest()[:12]


def hashes(repo=None):
    repo = Path(repo or os.environ.get("SPOX_REPO", "/repo"))
    out = {}

    def scan(path, label, only=None):
        try:
            mod = ast.parse(path.read_text())
        except Exception as e:  # noqa: BLE001
            out[f"{label}:<unreadable>"] = type(e).__name__
            return

        def visit(nodes, prefix, top):
            rest = []
            for n in nodes:
                if top and only is not None and getattr(n, "name", None) not in only:
                    continue
                if isinstance(n, (ast.FunctionDef, ast.AsyncFunctionDef)):
                    out[f"{label}:{prefix}{n.name}"] = _h(ast.dump(_strip(n)))
                elif isinstance(n, ast.ClassDef):
                    visit(n.body, f"{prefix}{n.name}.", False)
                    rest.append(ast.dump(ast.ClassDef(name=n.name, bases=n.bases, keywords=n.keywords, body=[
                        x for x in n.body if not isinstance(x, (ast.FunctionDef, ast.ClassDef))] or [ast.Pass()],
                        decorator_list=n.decorator_list)))
                elif not (isinstance(n, ast.Expr) and isinstance(getattr(n, "value", None), ast.Constant)):
                    rest.append(ast.dump(n))
            if only is None or not top:
                out[f"{label}:{prefix}<statements>"] = _h("\n".join(rest))
            elif rest:
                out[f"{label}:<class headers>"] = _h("\n".join(rest))

        visit(mod.body, "", True)

    for f in FILES:
        scan(repo / "src" / "spox" / f, f)
    scan(repo / "tools" / "generate_opset.py", "tools/generate_opset.py")
    for p in sorted((repo / "src/spox/opset").rglob("*.py")):
        if p.name != "__init__.py":
            scan(p, str(p.relative_to(repo / "src/spox")), only=CTOR_NAMES)
    return out


def changed(repo=None):
    """-> (current hashes, sorted list of names that differ from the baseline: changed / added / removed)"""
    cur = hashes(repo)
    try:
        base = json.loads(BASELINE.read_text())
    except Exception:  # noqa: BLE001
        return cur, ["<no baseline>"]
    return cur, sorted(k for k in set(cur) | set(base) if cur.get(k) != base.get(k))


if __name__ == "__main__":
    if "--write" in sys.argv:
        BASELINE.write_text(json.dumps(hashes(), indent=0, sort_keys=True) + "\n")
        print("baseline written:", len(hashes()), "entries")
    else:
        cur, diff = changed()
        print(len(cur), "entries; differing from the baseline:", diff)
