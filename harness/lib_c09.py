"""C09 helpers: abstract mixed-version programs, their realisation with the real constructors, an
independent numpy evaluator ("every operator at the version it was written in") and the
expectations derived from onnx.defs alone.

Abstract program (JSON-able):
  prog  = {"nodes": [stmt…], "outs": [id…]}              main block; inputs are ids "x" and "y"
  stmt  = {"id": str, "op": macro, "mv": module version, "args": [id…], "p": {...}}
        | {"id", "op": "if", "mv", "cond": "c"|"nc", "then": block, "else": block}
        | {"id", "op": "inline", "model": mdesc, "args": [id]}
        | {"id", "op": "func", "name": str, "params": [id…], "body": block, "args": [id…]}
  block = {"nodes": [stmt…], "out": id}
Every value is a float32 tensor of shape (2, 3); `dyn` makes its static rank unknown, `fix` restores it.
"""
from __future__ import annotations

import importlib
import itertools
from typing import Any, Callable

import numpy as np

DEFAULT_VERSIONS = [17, 18, 19, 20, 21]
ML_VERSIONS = [3, 4, 5]
F32 = np.float32

_uid = itertools.count()


def ops(mv: int):
    return importlib.import_module(f"spox.opset.ai.onnx.v{mv}")


def ml(mv: int):
    return importlib.import_module(f"spox.opset.ai.onnx.ml.v{mv}")


# --------------------------------------------------------------------------- macros
# Each macro: arity, numpy meaning, realisation with module `o` (version mv), the ONNX operators it
# emits (domain, op_type) — used only to derive expectations from onnx.defs.

REDUCERS = {
    "rmean": ("reduce_mean", "ReduceMean", lambda x, a: x.mean(axis=a, keepdims=True)),
    "rmax": ("reduce_max", "ReduceMax", lambda x, a: x.max(axis=a, keepdims=True)),
    "rmin": ("reduce_min", "ReduceMin", lambda x, a: x.min(axis=a, keepdims=True)),
    "rl1": ("reduce_l1", "ReduceL1", lambda x, a: np.abs(x).sum(axis=a, keepdims=True)),
    "rl2": ("reduce_l2", "ReduceL2", lambda x, a: np.sqrt((x * x).sum(axis=a, keepdims=True))),
    "rsumsq": ("reduce_sum_square", "ReduceSumSquare", lambda x, a: (x * x).sum(axis=a, keepdims=True)),
    "rprod": ("reduce_prod", "ReduceProd", lambda x, a: x.prod(axis=a, keepdims=True)),
}


def _reduce_build(fn):
    def b(o, mv, a, p):
        f = getattr(o, fn)
        if mv == 17:
            r = f(a[0], axes=[p["axis"]], keepdims=1)
        else:
            r = f(a[0], o.const(np.array([p["axis"]], np.int64)), keepdims=1)
        return o.sub(a[0], r)

    return b


def _reduce_emits(optype):
    return lambda mv, p: ([] if mv == 17 else ["Constant"]) + [optype, "Sub"]


MACROS: dict[str, dict[str, Any]] = {}


def macro(name, arity, np_fn, build, emits, **kw):
    MACROS[name] = {"arity": arity, "np": np_fn, "build": build, "emits": emits, **kw}


for _n, (_fn, _ot, _npf) in REDUCERS.items():
    macro(_n, 1, (lambda f: lambda a, p: (a[0] - f(a[0], p["axis"])).astype(F32))(_npf),
          _reduce_build(_fn), _reduce_emits(_ot), params=lambda rng: {"axis": rng.randrange(2)},
          versioned=True)

macro("add", 2, lambda a, p: a[0] + a[1], lambda o, mv, a, p: o.add(a[0], a[1]), lambda mv, p: ["Add"])
macro("mul", 2, lambda a, p: a[0] * a[1], lambda o, mv, a, p: o.mul(a[0], a[1]), lambda mv, p: ["Mul"])
macro("sub", 2, lambda a, p: a[0] - a[1], lambda o, mv, a, p: o.sub(a[0], a[1]), lambda mv, p: ["Sub"])
macro("neg", 1, lambda a, p: -a[0], lambda o, mv, a, p: o.neg(a[0]), lambda mv, p: ["Neg"])
macro("abs", 1, lambda a, p: np.abs(a[0]), lambda o, mv, a, p: o.abs(a[0]), lambda mv, p: ["Abs"])
macro("relu", 1, lambda a, p: np.maximum(a[0], 0), lambda o, mv, a, p: o.relu(a[0]), lambda mv, p: ["Relu"])
macro("tanh", 1, lambda a, p: np.tanh(a[0]), lambda o, mv, a, p: o.tanh(a[0]), lambda mv, p: ["Tanh"])
macro("identity", 1, lambda a, p: a[0], lambda o, mv, a, p: o.identity(a[0]), lambda mv, p: ["Identity"],
      versioned=True)
macro("rsum", 1, lambda a, p: a[0] - a[0].sum(axis=p["axis"], keepdims=True),
      lambda o, mv, a, p: o.sub(a[0], o.reduce_sum(a[0], o.const(np.array([p["axis"]], np.int64)), keepdims=1)),
      lambda mv, p: ["Constant", "ReduceSum", "Sub"], params=lambda rng: {"axis": rng.randrange(2)},
      versioned=True)
macro("reshape_rt", 1, lambda a, p: a[0].reshape(3, 2).reshape(2, 3),
      lambda o, mv, a, p: o.reshape(o.reshape(a[0], o.const(np.array([3, 2], np.int64))),
                                    o.const(np.array([2, 3], np.int64))),
      lambda mv, p: ["Constant", "Reshape", "Constant", "Reshape"], versioned=True, fixes=True)
macro("tr", 1, lambda a, p: np.ascontiguousarray(a[0].T).reshape(2, 3),
      lambda o, mv, a, p: o.reshape(o.transpose(a[0], perm=[1, 0]), o.const(np.array([2, 3], np.int64))),
      lambda mv, p: ["Transpose", "Constant", "Reshape"], versioned=True, fixes=True)
macro("cast_rt", 1, lambda a, p: a[0].astype(np.float64).astype(F32),
      lambda o, mv, a, p: o.cast(o.cast(a[0], to=np.float64), to=np.float32),
      lambda mv, p: ["Cast", "Cast"], versioned=True)
macro("unsq_sq", 1, lambda a, p: a[0],
      lambda o, mv, a, p: o.squeeze(o.unsqueeze(a[0], o.const(np.array([0], np.int64))),
                                    o.const(np.array([0], np.int64))),
      lambda mv, p: ["Constant", "Unsqueeze", "Constant", "Squeeze"], versioned=True)
macro("flat", 1, lambda a, p: a[0].reshape(2, 3), lambda o, mv, a, p: o.flatten(a[0], axis=1),
      lambda mv, p: ["Flatten"], versioned=True)
macro("pad", 1, lambda a, p: np.pad(a[0], ((0, 0), (1, 0)))[:, :3],
      lambda o, mv, a, p: o.slice(o.pad(a[0], o.const(np.array([0, 1, 0, 0], np.int64))),
                                  o.const(np.array([0], np.int64)), o.const(np.array([3], np.int64)),
                                  o.const(np.array([1], np.int64))),
      lambda mv, p: ["Constant", "Pad", "Constant", "Constant", "Constant", "Slice"], versioned=True)
macro("split_cat", 1, lambda a, p: a[0][:, ::-1].copy(),
      lambda o, mv, a, p: o.concat(list(reversed(
          o.split(a[0], outputs_count=3, axis=1) if mv == 17 else o.split(a[0], num_outputs=3, axis=1))),
          axis=1),
      lambda mv, p: ["Split", "Concat"], versioned=True)
macro("isnan_w", 1, lambda a, p: a[0],
      lambda o, mv, a, p: o.where(o.isnan(a[0]), o.const(np.array(0, F32)), a[0]),
      lambda mv, p: ["IsNaN", "Constant", "Where"], versioned=True)
macro("cos_shape", 1, lambda a, p: a[0] + F32(1),
      lambda o, mv, a, p: o.add(a[0], o.constant_of_shape(o.shape(a[0]), value=np.array([1], F32))),
      lambda mv, p: ["Shape", "ConstantOfShape", "Add"], versioned=True)
macro("const_add", 1, lambda a, p: a[0] + F32(p["k"]),
      lambda o, mv, a, p: o.add(a[0], o.const(np.array(p["k"], F32))),
      lambda mv, p: ["Constant", "Add"], params=lambda rng: {"k": rng.choice([0.5, -1.5, 2.0])},
      versioned=True)
# ---- operators whose schema changed between opsets 17 and 21 and that have no short numpy meaning here:
# the reference is the operator at the version it was written in, i.e. the macro alone, built from its own
# module (a single-version model, nothing to adapt) and run by onnxruntime (`ort_ref`); the operators it
# emits are read off that single-version model.
def I64(*a):
    return np.array(a, np.int64)


def _r4(o, x):
    return o.reshape(x, o.const(I64(1, 1, 2, 3)))


def _r2(o, x):
    return o.reshape(x, o.const(I64(2, 3)))


GRID = np.array([[[[-0.6, -0.5], [0.1, -0.4], [0.7, -0.6]], [[-0.5, 0.5], [0.0, 0.4], [0.6, 0.3]]]], F32)

ORT_MACROS = {
    "grid_sample": lambda o, mv, a, p: _r2(o, o.grid_sample(_r4(o, a[0]), o.const(GRID))),
    "resize": lambda o, mv, a, p: _r2(o, o.slice(
        o.resize(_r4(o, a[0]), None, o.const(np.array([1, 1, 2, 2], F32)), mode="nearest"),
        o.const(I64(0, 0)), o.const(I64(4, 6)), o.const(I64(2, 3)), o.const(I64(2, 2)))),
    "avg_pool": lambda o, mv, a, p: _r2(o, o.average_pool(_r4(o, a[0]), kernel_shape=[1, 2], pads=[0, 0, 0, 1],
                                                          count_include_pad=1)),
    "lp_pool": lambda o, mv, a, p: _r2(o, o.lp_pool(_r4(o, a[0]), kernel_shape=[1, 2], pads=[0, 0, 0, 1])),
    "dft": lambda o, mv, a, p: o.squeeze(o.slice(
        (o.dft(o.reshape(a[0], o.const(I64(2, 3, 1))), axis=1) if mv < 20
         else o.dft(o.reshape(a[0], o.const(I64(2, 3, 1))), None, o.const(np.array(1, np.int64)))),
        o.const(I64(0)), o.const(I64(1)), o.const(I64(2))), o.const(I64(2))),
    "equal": lambda o, mv, a, p: o.add(a[0], o.cast(o.equal(a[0], o.abs(a[0])), to=np.float32)),
    "isinf": lambda o, mv, a, p: o.where(o.isinf(a[0]), o.const(np.array(0, F32)), a[0]),
    "cast_like": lambda o, mv, a, p: o.cast(o.cast_like(a[0], o.const(np.array(1, np.float64))), to=np.float32),
    "size": lambda o, mv, a, p: o.add(a[0], o.cast(o.size(a[0]), to=np.float32)),
    "rlogsum": lambda o, mv, a, p: o.sub(a[0], (
        o.reduce_log_sum(o.add(o.abs(a[0]), o.const(np.array(1, F32))), axes=[1], keepdims=1) if mv == 17
        else o.reduce_log_sum(o.add(o.abs(a[0]), o.const(np.array(1, F32))), o.const(I64(1)), keepdims=1))),
    "rlse": lambda o, mv, a, p: o.sub(a[0], (
        o.reduce_log_sum_exp(o.tanh(a[0]), axes=[0], keepdims=1) if mv == 17
        else o.reduce_log_sum_exp(o.tanh(a[0]), o.const(I64(0)), keepdims=1))),
    "scatter_el": lambda o, mv, a, p: o.scatter_elements(a[0], o.const(np.array([[0, 1, 0]], np.int64)),
                                                         o.const(np.array([[9., 8, 7]], F32)), axis=0),
    "scatter_nd": lambda o, mv, a, p: o.scatter_nd(a[0], o.const(np.array([[1]], np.int64)),
                                                   o.const(np.array([[9., 8, 7]], F32))),
    "qdq": lambda o, mv, a, p: o.dequantize_linear(
        o.quantize_linear(a[0], o.const(np.array(0.5, F32)), o.const(np.array(10, np.uint8))),
        o.const(np.array(0.5, F32)), o.const(np.array(10, np.uint8))),
    "optional": lambda o, mv, a, p: o.optional_get_element(o.optional(a[0])),
}

_SINGLE: dict = {}


def single(op, mv, p):
    """The macro alone, built from module `mv` (cached): model, emitted operators, lazily a session."""
    key = (op, mv, repr(sorted((p or {}).items())))
    if key not in _SINGLE:
        import warnings

        from spox import Tensor, argument, build

        with warnings.catch_warnings():
            warnings.simplefilter("ignore")
            mac = MACROS[op]
            xs = [argument(Tensor(np.float32, (2, 3))) for _ in range(mac["arity"])]
            y = mac["build"](ops(mv), mv, xs, p or {})
            m = build({f"a{i}": v for i, v in enumerate(xs)}, {"r": y})
        names = [n.op_type for n in m.graph.node if "Introduce" not in n.name]
        _SINGLE[key] = {"model": m, "ops": names, "sess": None}
    return _SINGLE[key]


def ort_reference(op, mv, p, args):
    import onnxruntime as ort

    ent = single(op, mv, p)
    if ent["sess"] is None:
        so = ort.SessionOptions()
        so.log_severity_level = 4
        so.intra_op_num_threads = 1
        so.inter_op_num_threads = 1
        ent["sess"] = ort.InferenceSession(ent["model"].SerializeToString(), so, providers=["CPUExecutionProvider"])
    return ent["sess"].run(None, {f"a{i}": np.ascontiguousarray(v, dtype=F32) for i, v in enumerate(args)})[0]


# The operators each of these macros emits, per module version — a literal table (it was read off the
# single-version models once): expectations must not depend on the code under test being able to build.
_RS, _C = ["Constant", "Reshape"], ["Constant"]
ORT_EMITS = {
    "avg_pool": lambda mv: _RS + ["AveragePool"] + _RS,
    "cast_like": lambda mv: ["Constant", "CastLike", "Cast"],
    "dft": lambda mv: _RS + (_C if mv >= 20 else []) + ["DFT"] + _C * 3 + ["Slice", "Constant", "Squeeze"],
    "equal": lambda mv: ["Abs", "Equal", "Cast", "Add"],
    "grid_sample": lambda mv: _RS + ["Constant", "GridSample"] + _RS,
    "isinf": lambda mv: ["IsInf", "Constant", "Where"],
    "lp_pool": lambda mv: _RS + ["LpPool"] + _RS,
    "optional": lambda mv: ["Optional", "OptionalGetElement"],
    "qdq": lambda mv: _C * 2 + ["QuantizeLinear"] + _C * 2 + ["DequantizeLinear"],
    "resize": lambda mv: _RS + ["Constant", "Resize"] + _C * 4 + ["Slice"] + _RS,
    "rlogsum": lambda mv: ["Abs", "Constant", "Add"] + (_C if mv >= 18 else []) + ["ReduceLogSum", "Sub"],
    "rlse": lambda mv: ["Tanh"] + (_C if mv >= 18 else []) + ["ReduceLogSumExp", "Sub"],
    "scatter_el": lambda mv: _C * 2 + ["ScatterElements"],
    "scatter_nd": lambda mv: _C * 2 + ["ScatterND"],
    "size": lambda mv: ["Size", "Cast", "Add"],
}

for _n, _b in ORT_MACROS.items():
    macro(_n, 1, (lambda n: lambda a, p: None)(_n), _b, (lambda n: lambda mv, p: ORT_EMITS[n](mv))(_n),
          versioned=True, ort_ref=True)

# static rank made unknown / restored (the input "s" holds [2, 3] at run time)
macro("dyn", 1, lambda a, p: a[0], lambda o, mv, a, p: o.reshape(a[0], a[1]),
      lambda mv, p: ["Reshape"], taints=True, needs_s=True)
macro("fix", 1, lambda a, p: a[0].reshape(2, 3),
      lambda o, mv, a, p: o.reshape(a[0], o.const(np.array([2, 3], np.int64))),
      lambda mv, p: ["Constant", "Reshape"], fixes=True)

# ai.onnx.ml
ML_MACROS = {
    "ml_label": {
        "np": lambda a, p: np.where(np.rint(a[0]).astype(np.int64) == 1, 5,
                                    np.where(np.rint(a[0]).astype(np.int64) == 2, 6, -1)).astype(F32),
        "emits": lambda mv, p: [("", "Round"), ("", "Cast"), ("ai.onnx.ml", "LabelEncoder"), ("", "Cast")],
    },
    "ml_scaler": {
        "np": lambda a, p: ((a[0] - F32(0.5)) * F32(2.0)).astype(F32),
        "emits": lambda mv, p: [("ai.onnx.ml", "Scaler")],
    },
    "ml_binarizer": {
        "np": lambda a, p: (a[0] > F32(0.26)).astype(F32),
        "emits": lambda mv, p: [("ai.onnx.ml", "Binarizer")],
    },
}


ML_RANDOM = ["ml_label", "ml_scaler", "ml_binarizer"]  # shipped in every ml module; `ml_tree` only in ml.v5
ML_MACROS["ml_tree"] = {
    # one tree, one split on feature 0 (<= 0.31 -> +1, else +2), added to the input: TreeEnsemble exists since ai.onnx.ml 5
    "np": lambda a, p: (a[0] + np.where(a[0][:, :1] <= F32(0.31), F32(1.0), F32(2.0))).astype(F32),
    "emits": lambda mv, p: [("ai.onnx.ml", "TreeEnsemble"), ("", "Add")],
}


def pick_ml(rng):
    """(macro, ml module version): a quarter of the ml statements is the ml-5-only TreeEnsemble"""
    if rng.random() < 0.25:
        return "ml_tree", 5
    return rng.choice(ML_RANDOM), rng.choice(ML_VERSIONS)


def build_ml(name, mv, dv, a):
    m, o = ml(mv), ops(dv)
    if name == "ml_tree":
        t = m.tree_ensemble(a[0], n_targets=1, tree_roots=[0], nodes_featureids=[0], nodes_modes=np.array([0], np.uint8),
                            nodes_splits=np.array([0.31], np.float32), nodes_truenodeids=[0], nodes_trueleafs=[1],
                            nodes_falsenodeids=[1], nodes_falseleafs=[1], leaf_targetids=[0, 0],
                            leaf_weights=np.array([1.0, 2.0], np.float32), aggregate_function=1, post_transform=0)
        return o.add(a[0], t)
    if name == "ml_label":
        i = o.cast(o.round(a[0]), to=np.int64)
        e = m.label_encoder(i, keys_int64s=[1, 2], values_int64s=[5, 6], default_int64=-1)
        return o.cast(e, to=np.float32)
    if name == "ml_scaler":
        return m.scaler(a[0], offset=[0.5], scale=[2.0])
    if name == "ml_binarizer":
        return m.binarizer(a[0], threshold=0.26)
    raise KeyError(name)


# --------------------------------------------------------------------------- inlined models
def old_model(kind: str, opset: int, alias: bool = False):
    """Hand-written models against old default-domain opsets (onnx.helper only)."""
    import onnx
    from onnx import TensorProto as TP
    from onnx import helper as h

    if kind == "unsq_sq_relu":  # opset <= 12: axes are attributes
        nodes = [h.make_node("Unsqueeze", ["a"], ["u"], axes=[0]),
                 h.make_node("Squeeze", ["u"], ["q"], axes=[0]),
                 h.make_node("Relu", ["q"], ["b"])]
    elif kind == "rsum_attr":  # opset <= 12: ReduceSum with an axes attribute
        nodes = [h.make_node("ReduceSum", ["a"], ["r"], axes=[1], keepdims=1),
                 h.make_node("Sub", ["a", "r"], ["b"])]
    elif kind == "relu_neg":
        nodes = [h.make_node("Relu", ["a"], ["r"]), h.make_node("Neg", ["r"], ["b"])]
    else:
        raise KeyError(kind)
    g = h.make_graph(nodes, "old", [h.make_tensor_value_info("a", TP.FLOAT, [2, 3])],
                     [h.make_tensor_value_info("b", TP.FLOAT, [2, 3])])
    imps = [h.make_operatorsetid("", opset)] + ([h.make_operatorsetid("ai.onnx", opset)] if alias else [])
    m = h.make_model(g, opset_imports=imps, ir_version=8)
    onnx.checker.check_model(m, full_check=True)
    return m


# ---- legacy models that need REAL conversion and also use a non-default domain (ai.onnx.ml 1/2/3 or a
# custom domain). (lowest, highest default-domain opset the body is valid at, nodes a -> q)
CUSTOM_DOMAIN = "verif.custom"


def _c64(h, TP, name, vals):
    return h.make_node("Constant", [], [name], value=h.make_tensor(name + "_t", TP.INT64, [len(vals)], vals))


OLDX_BODIES = {
    "unsq_sq_relu": (9, 12, lambda h, TP: [h.make_node("Unsqueeze", ["a0"], ["u"], axes=[0]),
                                           h.make_node("Squeeze", ["u"], ["q0"], axes=[0]),
                                           h.make_node("Relu", ["q0"], ["q"])]),
    "rsum_attr": (9, 12, lambda h, TP: [h.make_node("ReduceSum", ["a0"], ["r"], axes=[1], keepdims=1),
                                        h.make_node("Sub", ["a0", "r"], ["q"])]),
    # Softmax / LogSoftmax before 13 flatten to 2-D at `axis`: on rank 3 the MEANING changed at 13
    "softmax3": (9, 12, lambda h, TP: [h.make_node("Unsqueeze", ["a0"], ["u"], axes=[0]),
                                       h.make_node("Softmax", ["u"], ["s"], axis=1),
                                       h.make_node("Squeeze", ["s"], ["q"], axes=[0])]),
    "logsoftmax3": (9, 12, lambda h, TP: [h.make_node("Unsqueeze", ["a0"], ["u"], axes=[0]),
                                          h.make_node("LogSoftmax", ["u"], ["s"], axis=1),
                                          h.make_node("Squeeze", ["s"], ["q"], axes=[0])]),
    # the same without any node whose signature changed: kept unconverted these pass every check and only
    # compute other values
    "softmax3_reshape": (9, 12, lambda h, TP: [_c64(h, TP, "s3", [1, 2, 3]), h.make_node("Reshape", ["a0", "s3"], ["u"]),
                                               h.make_node("Softmax", ["u"], ["s"], axis=1),
                                               _c64(h, TP, "s2", [2, 3]), h.make_node("Reshape", ["s", "s2"], ["q"])]),
    "logsoftmax3_reshape": (9, 12, lambda h, TP: [_c64(h, TP, "s3", [1, 2, 3]), h.make_node("Reshape", ["a0", "s3"], ["u"]),
                                                  h.make_node("LogSoftmax", ["u"], ["s"], axis=1),
                                                  _c64(h, TP, "s2", [2, 3]), h.make_node("Reshape", ["s", "s2"], ["q"])]),
    "rmean_attr": (9, 17, lambda h, TP: [h.make_node("ReduceMean", ["a0"], ["r"], axes=[1], keepdims=1),
                                         h.make_node("Sub", ["a0", "r"], ["q"])]),
    "rmax_attr": (9, 17, lambda h, TP: [h.make_node("ReduceMax", ["a0"], ["r"], axes=[0], keepdims=1),
                                        h.make_node("Sub", ["a0", "r"], ["q"])]),
    "split_attr": (9, 12, lambda h, TP: [h.make_node("Split", ["a0"], ["s0", "s1"], axis=1, split=[1, 2]),
                                         h.make_node("Concat", ["s1", "s0"], ["q"], axis=1)]),
    "clip_attr": (9, 10, lambda h, TP: [h.make_node("Clip", ["a0"], ["q"], min=-1.0, max=2.0)]),
    "pad_attr": (10, 10, lambda h, TP: [h.make_node("Pad", ["a0"], ["p"], pads=[0, 1, 0, 0]),
                                        _c64(h, TP, "st", [0]), _c64(h, TP, "en", [3]), _c64(h, TP, "ax", [1]),
                                        h.make_node("Slice", ["p", "st", "en", "ax"], ["q"])]),
    "dropout_ratio": (9, 11, lambda h, TP: [h.make_node("Dropout", ["a0"], ["d"], ratio=0.3),
                                            h.make_node("Neg", ["d"], ["q"])]),
    "topk_attr": (9, 9, lambda h, TP: [h.make_node("TopK", ["a0"], ["v", "i"], k=3, axis=1),
                                       h.make_node("Neg", ["v"], ["q"])]),
    "relu_neg": (9, 17, lambda h, TP: [h.make_node("Relu", ["a0"], ["r"]), h.make_node("Neg", ["r"], ["q"])]),
}
# (lowest ai.onnx.ml version the node is valid at, node src -> dst); every one maps (2,3) float -> (2,3) float
OLDX_ML = {
    "scaler": (1, lambda h, TP, s, d: [h.make_node("Scaler", [s], [d], domain="ai.onnx.ml", offset=[0.5], scale=[2.0])]),
    "binarizer": (1, lambda h, TP, s, d: [h.make_node("Binarizer", [s], [d], domain="ai.onnx.ml", threshold=0.26)]),
    "norm": (1, lambda h, TP, s, d: [h.make_node("Normalizer", [s], [d], domain="ai.onnx.ml", norm="L1")]),
    "afe": (1, lambda h, TP, s, d: [_c64(h, TP, d + "_ix", [2, 0, 1]),
                                    h.make_node("ArrayFeatureExtractor", [s, d + "_ix"], [d], domain="ai.onnx.ml")]),
    # LabelEncoder compares floats exactly: its input is snapped to integers first, with the steps at
    # values no computation here lands near ((k - 0.41) / 3.7), so that rounding differences between runtimes
    # and the reference cannot flip a label
    "le2": (2, lambda h, TP, s, d: [
        h.make_node("Constant", [], [d + "_c1"], value=h.make_tensor(d + "_c1t", TP.FLOAT, [], [3.7])),
        h.make_node("Mul", [s, d + "_c1"], [d + "_m"]),
        h.make_node("Constant", [], [d + "_c2"], value=h.make_tensor(d + "_c2t", TP.FLOAT, [], [0.41])),
        h.make_node("Add", [d + "_m", d + "_c2"], [d + "_a"]),
        h.make_node("Floor", [d + "_a"], [d + "_f"]),
        h.make_node("LabelEncoder", [d + "_f"], [d], domain="ai.onnx.ml", keys_floats=[0.0, 1.0, 2.0, 4.0, 7.0, -2.0],
                    values_floats=[5.0, 6.0, 7.0, 8.0, 9.0, 4.0], default_float=-1.0)]),
    # LabelEncoder-1 (classes_strings): its form is NOT accepted from ai.onnx.ml 2 on and nothing converts it
    "le1": (1, lambda h, TP, s, d: [h.make_node("Cast", [s], [d + "_i"], to=TP.INT64),
                                    h.make_node("LabelEncoder", [d + "_i"], [d + "_s"], domain="ai.onnx.ml",
                                                classes_strings=["a", "b"], default_string="z"),
                                    h.make_node("LabelEncoder", [d + "_s"], [d + "_j"], domain="ai.onnx.ml",
                                                classes_strings=["a", "b"], default_int64=-1),
                                    h.make_node("Cast", [d + "_j"], [d], to=TP.FLOAT)]),
}


def oldx_model(md, *, for_runtime: bool = False):
    """A legacy model: [ml / custom node] body [ml / custom node]. `for_runtime`: custom-domain nodes (which no
    runtime implements; their meaning here is the identity) are written as Identity, the import is dropped."""
    import onnx
    from onnx import TensorProto as TP
    from onnx import helper as h

    lo, hi, mk = OLDX_BODIES[md["body"]]
    if not (lo <= md["opset"] <= hi):
        raise ValueError(f"{md['body']} is not valid at opset {md['opset']}")
    pre, post = [], []
    imps = [h.make_operatorsetid("", md["opset"])]
    if md.get("alias"):
        imps.append(h.make_operatorsetid("ai.onnx", md["opset"]))
    cur_in, cur_out = "a", "b"
    # which side the extra nodes sit on
    tails = []
    if md.get("ml"):
        kind, v = md["ml"]
        if v < OLDX_ML[kind][0]:
            raise ValueError(f"{kind} is not valid at ai.onnx.ml {v}")
        tails.append(("ml", kind))
        imps.append(h.make_operatorsetid("ai.onnx.ml", v))
    if md.get("custom"):
        tails.append(("custom", None))
        if not for_runtime:
            imps.append(h.make_operatorsetid(CUSTOM_DOMAIN, md["custom"]))
    before = md.get("pos") == "before"
    names = iter(["t1", "t2", "t3"])
    if before:
        src = "a"
        for what, kind in tails:
            dst = next(names)
            pre += _oldx_tail(h, TP, what, kind, src, dst, for_runtime)
            src = dst
        pre.append(h.make_node("Identity", [src], ["a0"]))
        post.append(h.make_node("Identity", ["q"], ["b"]))
    else:
        pre.append(h.make_node("Identity", ["a"], ["a0"]))
        src = "q"
        for what, kind in tails:
            dst = next(names)
            post += _oldx_tail(h, TP, what, kind, src, dst, for_runtime)
            src = dst
        post.append(h.make_node("Identity", [src], ["b"]))
    g = h.make_graph(pre + mk(h, TP) + post, "oldx", [h.make_tensor_value_info("a", TP.FLOAT, [2, 3])],
                     [h.make_tensor_value_info("b", TP.FLOAT, [2, 3])])
    m = h.make_model(g, opset_imports=imps, ir_version=7)
    onnx.checker.check_model(m, full_check=True)
    return m


def _oldx_tail(h, TP, what, kind, src, dst, for_runtime):
    if what == "ml":
        return OLDX_ML[kind][1](h, TP, src, dst)
    if for_runtime:
        return [h.make_node("Identity", [src], [dst])]
    return [h.make_node("Ident", [src], [dst], domain=CUSTOM_DOMAIN)]


_OLDX_SESS: dict = {}


def oldx_reference(md, a):
    """"Every operator at the version it was written in": the legacy model alone, run by onnxruntime."""
    import json

    import onnxruntime as ort

    key = json.dumps(md, sort_keys=True)
    if key not in _OLDX_SESS:
        so = ort.SessionOptions()
        so.log_severity_level = 4
        so.intra_op_num_threads = 1
        so.inter_op_num_threads = 1
        _OLDX_SESS[key] = ort.InferenceSession(oldx_model(md, for_runtime=True).SerializeToString(), so,
                                               providers=["CPUExecutionProvider"])
    return _OLDX_SESS[key].run(None, {"a": np.ascontiguousarray(a, dtype=F32)})[0]


def strip_custom(model):
    """A copy of a built model in which the custom-domain nodes (meaning: identity) are Identity nodes and the
    custom domain is not imported — what a runtime can execute. Model-free: ModelProto in, ModelProto out."""
    import onnx

    m = onnx.ModelProto()
    m.CopyFrom(model)
    found = [False]

    def fix(nodes):
        for n in nodes:
            if n.domain == CUSTOM_DOMAIN and n.op_type == "Ident":
                n.domain = ""
                n.op_type = "Identity"
                found[0] = True
            for at in n.attribute:
                if at.type == onnx.AttributeProto.GRAPH:
                    fix(at.g.node)
                for g_ in at.graphs:
                    fix(g_.node)

    fix(m.graph.node)
    for f in m.functions:
        fix(f.node)
    if not found[0]:
        return model
    for holder in [m] + list(m.functions):
        keep = [o for o in holder.opset_import if o.domain != CUSTOM_DOMAIN]
        del holder.opset_import[:]
        holder.opset_import.extend(keep)
    return m


OLD_NP = {
    "unsq_sq_relu": lambda x: np.maximum(x, 0),
    "rsum_attr": lambda x: x - x.sum(axis=1, keepdims=True),
    "relu_neg": lambda x: -np.maximum(x, 0),
}


# --------------------------------------------------------------------------- realisation
class Realiser:
    """Builds the program with the real constructors. Values: id -> Var."""

    def __init__(self):
        from spox import Tensor, argument

        self.x = argument(Tensor(np.float32, (2, 3)))
        self.y = argument(Tensor(np.float32, (2, 3)))
        self.c = argument(Tensor(np.bool_, ()))
        self.s = argument(Tensor(np.int64, (None,)))
        self.uses_s = False
        self.uses_c = False
        self.fn_cache: dict = {}      # (name, domain, definition) -> to_function callable / Function factory
        self.inline_cache: dict = {}  # model description -> the callable `inline(model)` returned

    def block(self, nodes, env):
        for st in nodes:
            env[st["id"]] = self.stmt(st, env)
        return env

    def stmt(self, st, env):
        op = st["op"]
        if op == "if":
            o = ops(st["mv"])
            if st["cond"] in ("t", "f"):  # a constant condition (usable inside function bodies)
                cond = o.const(np.array(st["cond"] == "t"))
            else:
                self.uses_c = True
                cond = self.c if st["cond"] == "c" else o.not_(self.c)

            def mk(blk):
                def f():
                    e = dict(env)
                    self.block(blk["nodes"], e)
                    return [e[blk["out"]]]
                return f

            return o.if_(cond, then_branch=mk(st["then"]), else_branch=mk(st["else"]))[0]
        if op == "reffn":  # a Function subclass whose body refers to the function's attribute (tests/test_function.py idiom)
            key = ("reffn", st["name"], st["mv"])
            if key not in self.fn_cache:
                self.fn_cache[key] = self.ref_function(st)
            return self.fn_cache[key](env[st["args"][0]], st["k"])
        if op == "loop":  # two iterations over one state; the body may use outer values
            o = ops(st["mv"])
            blk, pid = st["body"], st["param"]

            def body(_i, _c, state):
                e = dict(env)
                e[pid] = state
                self.block(blk["nodes"], e)
                return [o.const(np.array(True)), e[blk["out"]]]

            return o.loop(o.const(np.array(2, np.int64)), None, [env[st["args"][0]]], body=body)[0]
        if op == "inline":
            from spox import inline

            if st.get("share"):  # ONE callable returned by `inline`, applied at several places
                import json as _json

                key = _json.dumps(st["model"], sort_keys=True)
                if key not in self.inline_cache:
                    self.inline_cache[key] = inline(self.model_of(st["model"]))
                return list(self.inline_cache[key](env[st["args"][0]]).values())[0]
            m = self.model_of(st["model"])
            return list(inline(m)(env[st["args"][0]]).values())[0]
        if op == "func":
            from spox._function import to_function

            blk, params = st["body"], st["params"]

            def body(*vs):
                e = dict(zip(params, vs))
                self.block(blk["nodes"], e)
                return [e[blk["out"]]]

            # a function statement with the name and definition of an earlier one is another APPLICATION of
            # the same function (the same `to_function` callable called again)
            import json as _json

            key = (st["name"], st.get("domain", "spox.verif"), _json.dumps([params, blk], sort_keys=True))
            if key not in self.fn_cache:
                # to_function inspects the signature: give it the right number of positional parameters
                src = "lambda {0}: body({0})".format(", ".join(f"a{i}" for i in range(len(params))))
                self.fn_cache[key] = to_function(st["name"], st.get("domain", "spox.verif"))(eval(src, {"body": body}))
            fn = self.fn_cache[key]
            return list(fn(*[env[a] for a in st["args"]]))[0]
        if op in ML_MACROS:
            return build_ml(op, st["mv"], st.get("dv", 17), [env[a] for a in st["args"]])
        mac = MACROS[op]
        args = [env[a] for a in st["args"]]
        if mac.get("needs_s"):
            self.uses_s = True
            args = args + [self.s]
        return mac["build"](ops(st["mv"]), st["mv"], args, st.get("p", {}))

    def ref_function(self, st):
        from harness import lib_c09_reffn

        return lib_c09_reffn.make(ops(st["mv"]), st["name"], st["k"])

    def model_of(self, md):
        if md["kind"] == "ml_only":  # no default-domain node, no default-domain import
            import onnx
            from onnx import TensorProto as TP
            from onnx import helper as h

            g = h.make_graph([h.make_node("Scaler", ["a"], ["b"], domain="ai.onnx.ml", offset=[0.5], scale=[2.0])],
                             "mlonly", [h.make_tensor_value_info("a", TP.FLOAT, [2, 3])],
                             [h.make_tensor_value_info("b", TP.FLOAT, [2, 3])])
            m = h.make_model(g, opset_imports=[h.make_operatorsetid("ai.onnx.ml", md["mlv"])], ir_version=8)
            onnx.checker.check_model(m, full_check=True)
            return m
        if md["kind"] == "if_ml":
            from spox import build

            o, m = ops(md["mv"]), ml(md["mlv"])
            r = Realiser()
            res = o.if_(o.const(np.array(True)), then_branch=lambda: [m.scaler(r.x, offset=[0.5], scale=[2.0])],
                        else_branch=lambda: [o.neg(r.x)])[0]
            return build({"a": r.x}, {"b": res})
        if md["kind"] == "old":
            return old_model(md["body"], md["opset"], bool(md.get("alias")))
        if md["kind"] == "oldx":
            return oldx_model(md)
        from spox import build

        r = Realiser()
        env = {"x": r.x}
        r.block(md["prog"]["nodes"], env)
        return build({"a": r.x}, {"b": env[md["prog"]["out"]]})

    def realise(self, prog):
        env = {"x": self.x, "y": self.y}
        self.env = env
        self.block(prog["nodes"], env)
        outs = {f"out{i}": env[o] for i, o in enumerate(prog["outs"])}
        ins = {"x": self.x, "y": self.y}
        if self.uses_c:
            ins["c"] = self.c
        if self.uses_s:
            ins["s"] = self.s
        return ins, outs


# --------------------------------------------------------------------------- numpy evaluator
def np_block(nodes, env, c):
    for st in nodes:
        env[st["id"]] = np_stmt(st, env, c)
    return env


def np_stmt(st, env, c):
    op = st["op"]
    if op == "if":
        cond = {"c": c, "nc": not c, "t": True, "f": False}[st["cond"]]
        blk = st["then"] if cond else st["else"]
        e = dict(env)
        np_block(blk["nodes"], e, c)
        return e[blk["out"]]
    if op == "reffn":
        return (F32(st["k"]) * env[st["args"][0]]).astype(F32)
    if op == "loop":
        state = env[st["args"][0]]
        for _ in range(2):
            e = dict(env)
            e[st["param"]] = state
            np_block(st["body"]["nodes"], e, c)
            state = e[st["body"]["out"]]
        return state
    if op == "inline":
        md = st["model"]
        a = env[st["args"][0]]
        if md["kind"] in ("if_ml", "ml_only"):
            return ((a - F32(0.5)) * F32(2.0)).astype(F32)
        if md["kind"] == "old":
            return OLD_NP[md["body"]](a).astype(F32)
        if md["kind"] == "oldx":
            return np.asarray(oldx_reference(md, a), dtype=F32)
        e = {"x": a}
        np_block(md["prog"]["nodes"], e, c)
        return e[md["prog"]["out"]]
    if op == "func":
        e = dict(zip(st["params"], [env[a] for a in st["args"]]))
        np_block(st["body"]["nodes"], e, c)
        return e[st["body"]["out"]]
    if op in ML_MACROS:
        return ML_MACROS[op]["np"]([env[a] for a in st["args"]], st.get("p", {})).astype(F32)
    if MACROS[op].get("ort_ref"):
        r = ort_reference(op, st["mv"], st.get("p", {}), [env[a] for a in st["args"]])
    else:
        r = MACROS[op]["np"]([env[a] for a in st["args"]], st.get("p", {}))
    return np.asarray(r, dtype=F32)


def np_eval(prog, x, y, c):
    env = {"x": x, "y": y}
    np_block(prog["nodes"], env, c)
    return [env[o] for o in prog["outs"]]


# --------------------------------------------------------------------------- expectations (onnx.defs only)
def since(domain, op, version):
    import onnx.defs

    return onnx.defs.get_schema(op, version, domain).since_version


def emitted(st) -> list[tuple[str, str, int]]:
    """(domain, op_type, since_version) of every operator a statement itself emits (not its blocks)."""
    op = st["op"]
    if op == "if":
        out = [("", "If", since("", "If", st["mv"]))]
        if st["cond"] == "nc":
            out.append(("", "Not", since("", "Not", st["mv"])))
        if st["cond"] in ("t", "f"):
            out.append(("", "Constant", since("", "Constant", st["mv"])))
        return out
    if op == "loop":
        return [("", "Loop", since("", "Loop", st["mv"])), ("", "Constant", since("", "Constant", st["mv"]))]
    if op in ("inline", "func", "reffn"):
        return []
    if op in ML_MACROS:
        res = []
        for d, n in ML_MACROS[op]["emits"](st["mv"], st.get("p", {})):
            res.append((d, n, since(d, n, st["mv"] if d else st.get("dv", 17))))
        return res
    return [("", n, since("", n, st["mv"])) for n in MACROS[op]["emits"](st["mv"], st.get("p", {}))]


def sub_blocks(st):
    if st["op"] == "if":
        return [st["then"], st["else"]]
    if st["op"] in ("func", "loop"):
        return [st["body"]]
    return []


def model_imports(md) -> list[tuple[str, int]]:
    """Opset imports of an inlined model, from its description alone."""
    if md["kind"] == "ml_only":
        return [("ai.onnx.ml", md["mlv"])]
    if md["kind"] == "if_ml":
        req = [("", since("", n, md["mv"])) for n in ("If", "Constant", "Neg")] + [("", 14)]
        req.append(("ai.onnx.ml", since("ai.onnx.ml", "Scaler", md["mlv"])))
        return sorted(policy(req).items())
    if md["kind"] == "old":
        return [("", md["opset"])]
    if md["kind"] == "oldx":
        out = [("", md["opset"])]
        if md.get("ml"):
            out.append(("ai.onnx.ml", md["ml"][1]))
        if md.get("custom"):
            out.append((CUSTOM_DOMAIN, md["custom"]))
        return out
    req = requirements_of_nodes(md["prog"]["nodes"])
    req.append(("", 14))
    return sorted(policy(req).items())


def policy(reqs):
    """The property's own words: per domain ("ai.onnx" is the default domain) the largest version."""
    out: dict[str, int] = {}
    for d, v in reqs:
        d = "" if d == "ai.onnx" else d
        out[d] = max(out.get(d, 0), v)
    return out


def requirements_of_nodes(nodes) -> list[tuple[str, int]]:
    """Every (domain, version) required by any operator anywhere below `nodes`."""
    req = []
    for st in nodes:
        req += [(d, v) for d, _n, v in emitted(st)]
        if st["op"] == "inline":
            req += model_imports(st["model"]) + [("", 14)]
        if st["op"] == "func":
            req.append((st.get("domain", "spox.verif"), 0))
        if st["op"] == "reffn":
            req += [("", since("", "Constant", st["mv"])), ("", since("", "Mul", st["mv"])), ("", 14), ("spox.reffn", 0)]
        for b in sub_blocks(st):
            req += requirements_of_nodes(b["nodes"]) + [("", 14)]  # a body's results are identities >= 14
    return req


def expected_imports(prog) -> dict[str, int]:
    extra = [tuple(r) for r in prog.get("with_opset", [])]
    return policy(requirements_of_nodes(prog["nodes"]) + [("", 14)] + extra)


def walk(nodes, depth=0, in_func=False, path=()):
    """All statements with (depth of If nesting, inside a function body?, enclosing block statements)."""
    for st in nodes:
        yield st, depth, in_func, path
        if st["op"] == "if":
            for b in (st["then"], st["else"]):
                yield from walk(b["nodes"], depth + 1, in_func, path + ((st["id"], id(b), b),))
        if st["op"] == "loop":
            b = st["body"]
            yield from walk(b["nodes"], depth + 1, in_func, path + ((st["id"], id(b), b),))
        if st["op"] == "func":
            yield from walk(st["body"]["nodes"], depth, True, path)


def tainted_ids(prog) -> set:
    """ids whose static rank is unknown (flows from `dyn` until `fix`/reshape to a constant shape)."""
    t: set = set()

    def blk(nodes, t):
        for st in nodes:
            op = st["op"]
            if op == "if":
                a, b = set(t), set(t)
                blk(st["then"]["nodes"], a)
                blk(st["else"]["nodes"], b)
                t |= (a | b)
                if st["then"]["out"] in a or st["else"]["out"] in b:
                    t.add(st["id"])
            elif op == "loop":
                a = set(t)
                blk(st["body"]["nodes"], a)
                t |= a
                t.add(st["id"])  # spox reports a Loop's carried output without a shape unless it is provably stable
            elif op in ML_MACROS:
                if any(a in t for a in st["args"]):
                    t.add(st["id"])
            elif op in ("inline", "reffn"):
                pass  # declared / inferred output types are concrete
            elif op == "func":
                inner = {p for p, a in zip(st["params"], st["args"]) if a in t}
                blk(st["body"]["nodes"], inner)
                t |= inner
                if st["body"]["out"] in inner:
                    t.add(st["id"])
            else:
                mac = MACROS[op]
                if mac.get("taints"):
                    t.add(st["id"])
                elif mac.get("fixes"):
                    pass
                elif any(a in t for a in st["args"]):
                    t.add(st["id"])
        return t

    return blk(prog["nodes"], t)


def oldx_ml_rejected(md, mlv) -> bool:
    import onnx.defs

    for n in oldx_model(md).graph.node:
        if n.domain != "ai.onnx.ml":
            continue
        try:
            sch = onnx.defs.get_schema(n.op_type, mlv, "ai.onnx.ml")
        except Exception:  # noqa: BLE001
            return True
        if any(a.name not in sch.attributes for a in n.attribute):
            return True
    return False


def features(prog) -> list[str]:
    """Structural features of a (shrunk) witness, from the abstract program and onnx.defs only."""
    all_imp = expected_imports(prog)
    imp = all_imp.get("", 14)
    taint = tainted_ids(prog)
    feats = set()
    n_fresh = 0
    fresh_depths = []
    for st, depth, in_func, path in walk(prog["nodes"]):
        conv = [(n, s) for d, n, s in emitted(st) if d == "" and n not in ("If",) and since("", n, imp) != s]
        # converted nodes for which the converter introduces a value (attribute -> input)
        fresh = [n for n, s in conv if n.startswith("Reduce") and n != "ReduceSum" and s < 18]
        if fresh:
            n_fresh += len(fresh)
            fresh_depths.append(depth)
        if conv and (any(a in taint for a in st.get("args", [])) or st["op"] == "dyn"):
            feats.add("conv-unknown-rank")
        if (conv or st["op"] == "inline") and depth >= 1:
            # the innermost enclosing body's own maximum
            body = path[-1][2]
            own = policy(requirements_of_nodes(body["nodes"]) + [("", 14)]).get("", 14)
            if own < imp:
                if conv and any(since("", n, own) != since("", n, imp) for n, _ in conv):
                    feats.add("conv-in-body-below-import")
                if st["op"] == "inline":
                    mi = policy(model_imports(st["model"])).get("", own)
                    if mi != imp:
                        feats.add("inline-in-body-below-import")
        if st["op"] == "reffn" and since("", "Constant", st["mv"]) != since("", "Constant", imp):
            feats.add("ref-attr-converted")
        if st["op"] == "inline" and st["model"]["kind"] == "oldx" and st["model"].get("ml"):
            # a non-default-domain node of the legacy model whose form the schema in force at the model's
            # import of that domain does not accept (nothing converts it): onnx.defs only
            mlv = all_imp.get("ai.onnx.ml", 1)
            if oldx_ml_rejected(st["model"], mlv):
                feats.add("inline-ml-node-form-rejected")
        if st["op"] == "inline":
            mi = policy(model_imports(st["model"])).get("")
            if mi is not None and mi < 14 and imp == 14:
                feats.add("inline-below-14-target-14")
            elif mi is not None and mi != imp:
                feats.add("inline-converted")
    if n_fresh >= 2:
        feats.add("two-fresh-values")
    return sorted(feats)


# --------------------------------------------------------------------------- generator
VERSIONED = [n for n, m in MACROS.items() if m.get("versioned")]
PLAIN = ["add", "mul", "sub", "neg", "abs", "relu", "tanh"]
CONVERTIBLE = list(REDUCERS)  # need an attribute -> input conversion from v17 to >= 18


class Gen:
    def __init__(self, rng, *, clean: bool, size: int, max_depth: int, allow_dyn: bool,
                 allow_func: bool = True, allow_inline: bool = True, allow_ml: bool = True):
        self.rng, self.clean, self.size, self.max_depth = rng, clean, size, max_depth
        self.allow_dyn, self.allow_func, self.allow_inline, self.allow_ml = allow_dyn, allow_func, allow_inline, allow_ml
        self.n = 0
        self.versions = rng.choice([[17, 18], [17, 19], [17, 21], [17, 18, 19, 20, 21], [18, 20], [17],
                                    [19, 21], [17, 18, 21], [17, 20]])
        # sometimes only function bodies are written against the newest module (the model's maximum
        # is then required by a function body alone)
        self.inline_in_func = rng.random() < 0.5
        self.last_inline = None
        self.shared_models: set = set()
        self.funcs_made: list = []
        self.func_versions = None
        if len(self.versions) >= 2 and rng.random() < 0.3:
            hi = max(self.versions)
            self.func_versions = [hi]
            self.versions = [v for v in self.versions if v < hi]

    def fresh(self):
        self.n += 1
        return f"v{self.n}"

    def mv(self):
        return self.rng.choice(self.versions)

    def simple(self, pool, tainted, *, allow_taint_conv):
        rng = self.rng
        r = rng.random()
        if r < 0.30:
            op = rng.choice(PLAIN)
        elif r < 0.60:
            op = rng.choice(CONVERTIBLE)
        else:
            op = rng.choice(VERSIONED)
        mac = MACROS[op]
        args = [rng.choice(pool) for _ in range(mac["arity"])]
        mv = self.mv()
        if not allow_taint_conv and any(a in tainted for a in args) and mac.get("versioned"):
            # clean family: nothing that may need conversion is fed a value of unknown rank
            op, mac = rng.choice(PLAIN), None
            mac = MACROS[op]
            args = (args + [rng.choice(pool)])[: mac["arity"]]
        st = {"id": self.fresh(), "op": op, "mv": mv, "args": args}
        if "params" in mac:
            st["p"] = mac["params"](rng)
        return st

    def block(self, pool, tainted, depth, budget, in_func=False):
        rng = self.rng
        pool = list(pool)
        tainted = set(tainted)
        nodes = []
        k = rng.randrange(1, 4) if depth else budget
        for _ in range(k):
            if self.size <= 0:
                break
            self.size -= 1
            r = rng.random()
            st = None
            if r < 0.16 and depth < self.max_depth and self.size >= 2:
                tb, tt = self.block(pool, tainted, depth + 1, 0, in_func)
                eb, et = self.block(pool, tainted, depth + 1, 0, in_func)
                st = {"id": self.fresh(), "op": "if", "mv": self.mv(),
                      "cond": rng.choice(["t", "f"] if in_func else ["c", "nc"]),
                      "then": tb, "else": eb}
                if tt or et:
                    tainted.add(st["id"])
            elif r < 0.20 and depth < self.max_depth and self.size >= 2:
                pid = self.fresh()
                save_dyn = self.allow_dyn
                self.allow_dyn = False
                clean_pool = [p_ for p_ in pool if p_ not in tainted]
                body, _bt = self.block(clean_pool + [pid, pid], set(), depth + 1, 0, in_func)
                self.allow_dyn = save_dyn
                st = {"id": self.fresh(), "op": "loop", "mv": self.mv(), "param": pid, "body": body,
                      "args": [rng.choice(clean_pool or ["x"])]}
                tainted.add(st["id"])
            elif r < 0.22 and depth == 0 and not in_func and self.allow_func:
                st = {"id": self.fresh(), "op": "reffn", "mv": self.mv(), "name": f"RefFn{next(_uid)}",
                      "k": rng.choice([2.0, -0.5, 1.5]), "args": [rng.choice([p_ for p_ in pool if p_ not in tainted] or ["x"])]}
                self.funcs_made.append(st)
            elif r < 0.27 and self.allow_inline and (not in_func or self.inline_in_func):
                md = self.model_desc()
                if in_func and md["kind"] not in ("old", "oldx"):
                    md = self.oldx_desc()
                st = {"id": self.fresh(), "op": "inline", "model": md, "args": [rng.choice(pool)]}
                if self.last_inline is not None and rng.random() < 0.35:
                    # the same callable returned by `inline` applied once more
                    st["model"] = copy_json(self.last_inline)
                    st["share"] = True
                    self.shared_models.add(json_key(st["model"]))
                self.last_inline = st["model"]
            elif r < 0.33 and self.allow_func and depth == 0 and not in_func:
                np_ = rng.randrange(1, 3)
                params = [self.fresh() for _ in range(np_)]
                save = self.max_depth
                self.max_depth = min(self.max_depth, 2)
                save_v = self.versions
                if self.func_versions:
                    self.versions = self.func_versions
                body, bt = self.block(params, set(), 1, 0, in_func=True)
                if self.allow_ml and not bt and rng.random() < 0.35:
                    mid = self.fresh()
                    mlop, mlv = pick_ml(rng)
                    body["nodes"].append({"id": mid, "op": mlop, "mv": mlv, "dv": self.mv(), "args": [body["out"]]})
                    body["out"] = mid
                if self.func_versions and self.func_versions[0] in PIN:
                    op_, mv_ = PIN[self.func_versions[0]]
                    pid = self.fresh()
                    body["nodes"].append({"id": pid, "op": op_, "mv": mv_, "args": [body["out"]]})
                    body["out"] = pid
                self.versions = save_v
                self.max_depth = save
                st = {"id": self.fresh(), "op": "func", "name": f"f{next(_uid)}",
                      "domain": rng.choice(["spox.verif", "verif.other"]), "params": params,
                      "body": body, "args": [rng.choice([p for p in pool if p not in tainted] or ["x"])
                                             for _ in range(np_)]}
                if bt:
                    tainted.add(st["id"])
                else:
                    self.funcs_made.append(st)
            elif r < 0.36 and self.allow_func and not in_func and self.funcs_made:
                # another application of a function made earlier (main graph or a body): the same callable
                f0 = rng.choice(self.funcs_made)
                st = copy_json(f0)
                st["id"] = self.fresh()
                st["args"] = [rng.choice([p for p in pool if p not in tainted] or ["x"]) for _ in f0.get("params", [0])]
                if st["op"] == "reffn" and rng.random() < 0.5:
                    st["k"] = rng.choice([2.0, -0.5, 1.5, 3.0])  # the same function, another attribute value
            elif r < 0.39 and self.allow_ml:
                mlop, mlv = pick_ml(rng)
                st = {"id": self.fresh(), "op": mlop, "mv": mlv,
                      "dv": self.mv(), "args": [rng.choice([p for p in pool if p not in tainted] or ["x"])]}
            elif r < 0.45 and self.allow_dyn and not in_func:
                src = rng.choice([p for p in pool if p not in tainted] or ["x"])
                st = {"id": self.fresh(), "op": "dyn", "mv": self.mv(), "args": [src]}
                tainted.add(st["id"])
            else:
                st = self.simple(pool, tainted, allow_taint_conv=not self.clean)
                mac = MACROS[st["op"]]
                if mac.get("fixes"):
                    pass
                elif any(a in tainted for a in st["args"]):
                    tainted.add(st["id"])
            nodes.append(st)
            pool.append(st["id"])
        if not nodes:
            st = self.simple(pool, tainted, allow_taint_conv=not self.clean)
            if any(a in tainted for a in st["args"]) and not MACROS[st["op"]].get("fixes"):
                tainted.add(st["id"])
            nodes.append(st)
            pool.append(st["id"])
        out = nodes[-1]["id"]
        return {"nodes": nodes, "out": out}, (out in tainted)

    def oldx_desc(self, *, allow_le1=False):
        """A legacy model that needs real conversion and uses ai.onnx.ml (1, 2, 3) and / or a custom domain."""
        rng = self.rng
        body = rng.choice([b for b in OLDX_BODIES if b != "relu_neg"] * 3 + ["relu_neg"])
        lo, hi, _ = OLDX_BODIES[body]
        md = {"kind": "oldx", "body": body, "opset": rng.randrange(lo, hi + 1)}
        r = rng.random()
        if r < 0.75:
            kinds = ["scaler", "binarizer", "norm", "afe", "le2", "le2"] + (["le1"] if allow_le1 else [])
            kind = rng.choice(kinds)
            md["ml"] = [kind, rng.randrange(OLDX_ML[kind][0], 4) if kind != "le1" else 1]
        if r >= 0.6:
            md["custom"] = rng.randrange(1, 4)
        if rng.random() < 0.3:
            md["pos"] = "before"
        if rng.random() < 0.15:
            md["alias"] = True
        return md

    def model_desc(self):
        rng = self.rng
        if rng.random() < 0.30:
            return self.oldx_desc(allow_le1=(not self.clean and rng.random() < 0.3))
        if rng.random() < 0.08:
            return {"kind": "ml_only", "mlv": rng.choice([1, 2, 3])}
        if rng.random() < 0.12:
            return {"kind": "if_ml", "mv": rng.choice(DEFAULT_VERSIONS), "mlv": rng.choice(ML_VERSIONS)}
        if rng.random() < 0.6:
            body = rng.choice(["unsq_sq_relu", "rsum_attr", "relu_neg"])
            opset = rng.choice([11, 12]) if body != "relu_neg" else rng.choice([11, 13, 15])
            return {"kind": "old", "body": body, "opset": opset}
        mv = rng.choice(DEFAULT_VERSIONS)
        g = Gen(rng, clean=True, size=3, max_depth=0, allow_dyn=False, allow_func=False,
                allow_inline=False, allow_ml=False)
        g.versions = [mv]
        g.n = 1000 + self.n * 10
        blk, _ = g.block(["x"], set(), 0, rng.randrange(1, 4))
        blk = {"nodes": prune({"nodes": blk["nodes"], "outs": [blk["out"]]})["nodes"], "out": blk["out"]}
        return {"kind": "spox", "mv": mv, "prog": blk}

    def program(self):
        blk, _ = self.block(["x", "y"], set(), 0, self.size)
        nodes = blk["nodes"]
        taint = tainted_ids({"nodes": nodes, "outs": []})
        outs = []
        cands = [st["id"] for st in nodes]
        picks = {cands[-1]}
        # a function is emitted with the model only if its node is placed in the main graph: make every
        # function result a model output (functions used only inside bodies are C14's finding, not C09's)
        picks |= {st["id"] for st in nodes if st["op"] == "func"}
        if len(cands) > 2 and self.rng.random() < 0.5:
            picks.add(self.rng.choice(cands))
        for o in sorted(picks, key=cands.index):
            if o in taint:  # model outputs need a known rank
                fx = {"id": self.fresh(), "op": "fix", "mv": self.mv(), "args": [o]}
                nodes.append(fx)
                outs.append(fx["id"])
            else:
                outs.append(o)
        prog = mark_shared_inlines(sink(prune({"nodes": nodes, "outs": outs})))
        if self.rng.random() < 0.12:
            prog["with_opset"] = [[self.rng.choice(["ai.onnx", "ai.onnx", ""]), self.rng.randrange(13, 22)]]
        if self.clean:
            align_unknown_rank(prog)
        return prog


def copy_json(x):
    import json

    return json.loads(json.dumps(x))


def json_key(x):
    import json

    return json.dumps(x, sort_keys=True)


def mark_shared_inlines(prog):
    """Every inline statement whose model description occurs in a `share`d statement is shared too (one
    callable for all of them), wherever pruning / sinking left them."""
    shared = {json_key(st["model"]) for st, *_ in walk(prog["nodes"]) if st["op"] == "inline" and st.get("share")}
    for st, *_ in walk(prog["nodes"]):
        if st["op"] == "inline" and json_key(st["model"]) in shared:
            st["share"] = True
    return prog


def func_twice_program(rng, idx=0):
    """Feedback class (round 7): a function whose body needs conversion (a v17 operator with an attribute the
    newer schema takes as an input, Split, DFT, GridSample …, or an inlined legacy model), a newer operator
    raising the model's opset, the function applied 2-4 times: main graph and / or If / Loop bodies."""
    g = Gen(rng, clean=True, size=rng.randrange(1, 5), max_depth=1, allow_dyn=False, allow_func=False,
            allow_inline=False, allow_ml=False)
    g.func_versions = None
    lo = rng.choice([17, 17, 17, 18, 19])
    g.versions = [lo]
    np_ = rng.randrange(1, 3)
    params = [g.fresh() for _ in range(np_)]
    body_nodes = []
    cur = params[0]
    for _ in range(rng.randrange(1, 4)):
        r = rng.random()
        if r < 0.55:
            op = rng.choice(CONVERTIBLE + ["split_cat", "dft", "grid_sample", "rlogsum", "rlse", "resize", "identity", "pad"])
            st = {"id": g.fresh(), "op": op, "mv": lo, "args": [cur]}
            if "params" in MACROS[op]:
                st["p"] = MACROS[op]["params"](rng)
        elif r < 0.75:
            st = {"id": g.fresh(), "op": "inline", "model": g.oldx_desc(), "args": [cur]}
        elif r < 0.9 and np_ == 2:
            st = {"id": g.fresh(), "op": rng.choice(["add", "sub", "mul"]), "mv": lo, "args": [cur, params[1]]}
        else:
            t = {"id": g.fresh(), "op": rng.choice(CONVERTIBLE), "mv": lo, "args": [cur], "p": {"axis": rng.randrange(2)}}
            e = {"id": g.fresh(), "op": "neg", "mv": lo, "args": [cur]}
            st = {"id": g.fresh(), "op": "if", "mv": lo, "cond": rng.choice(["t", "f"]),
                  "then": {"nodes": [t], "out": t["id"]}, "else": {"nodes": [e], "out": e["id"]}}
        body_nodes.append(st)
        cur = st["id"]
    fdef = {"op": "func", "name": f"ftw{idx}_{next(_uid)}", "domain": rng.choice(["spox.verif", "verif.other"]),
            "params": params, "body": {"nodes": body_nodes, "out": cur}}
    defs = [fdef]
    if rng.random() < 0.3:
        # a second function whose body applies the first one (twice, or once next to a convertible node): the inner
        # function is then instantiated inside several instances of the outer one
        op1 = g.fresh()
        c1 = copy_json(fdef)
        c1.update(id=g.fresh(), args=[op1] * np_)
        mid = {"id": g.fresh(), "op": rng.choice(CONVERTIBLE), "mv": lo, "args": [c1["id"]], "p": {"axis": rng.randrange(2)}}
        inner_nodes = [c1, mid]
        out = mid["id"]
        if rng.random() < 0.6:
            c2 = copy_json(fdef)
            c2.update(id=g.fresh(), args=[mid["id"]] * np_)
            inner_nodes.append(c2)
            out = c2["id"]
        defs.append({"op": "func", "name": f"fout{idx}_{next(_uid)}", "domain": rng.choice(["spox.verif", "verif.other"]),
                     "params": [op1], "body": {"nodes": inner_nodes, "out": out}})
    blk, _ = g.block(["x", "y"], set(), 0, g.size)
    nodes = list(blk["nodes"])
    taint = tainted_ids({"nodes": nodes, "outs": []})
    pool = ["x", "y"] + [st["id"] for st in nodes if st["id"] not in taint]
    tops = []

    def call(args_pool):
        c = copy_json(defs[-1] if rng.random() < 0.7 else rng.choice(defs))
        c["id"] = g.fresh()
        c["args"] = [rng.choice(args_pool) for _ in c["params"]]
        return c

    n_calls = rng.choice([2, 2, 3, 4])
    for k in range(n_calls):
        where = rng.choice(["top", "top", "if", "loop"]) if k else "top"
        if where == "top":
            c = call(pool)
            nodes.append(c)
            tops.append(c["id"])
            pool.append(c["id"])
        elif where == "if":
            c = call(pool)
            other = call(pool) if rng.random() < 0.4 else {"id": g.fresh(), "op": "abs", "mv": lo, "args": [rng.choice(pool)]}
            e = {"id": g.fresh(), "op": "if", "mv": rng.choice([lo, 17]), "cond": rng.choice(["c", "nc"]),
                 "then": {"nodes": [c], "out": c["id"]}, "else": {"nodes": [other], "out": other["id"]}}
            nodes.append(e)
            tops.append(e["id"])
        else:
            pid = g.fresh()
            c = call([pid])
            e = {"id": g.fresh(), "op": "loop", "mv": lo, "param": pid, "args": [rng.choice(pool)],
                 "body": {"nodes": [c], "out": c["id"]}}
            fx = {"id": g.fresh(), "op": "fix", "mv": lo, "args": [e["id"]]}
            nodes += [e, fx]
            tops.append(fx["id"])
    hi = rng.choice([h for h in (18, 19, 20, 21) if h > lo])
    op_, mv_ = PIN[hi]
    cur = tops[0]
    for t in tops[1:]:
        e = {"id": g.fresh(), "op": rng.choice(["add", "sub", "mul"]), "mv": lo, "args": [cur, t]}
        nodes.append(e)
        cur = e["id"]
    e = {"id": g.fresh(), "op": op_, "mv": mv_, "args": [cur]}
    nodes.append(e)
    prog = sink(prune({"nodes": nodes, "outs": [e["id"]]}))
    align_unknown_rank(prog)
    return prog


def inline_mix_program(rng, idx=0):
    """Feedback class: a legacy inlined model that needs REAL conversion and uses ai.onnx.ml / a custom domain,
    while the program elsewhere (top level, an If / Loop body, a function, another inlined model) requests
    that domain at a different version."""
    g = Gen(rng, clean=True, size=rng.randrange(1, 6), max_depth=rng.randrange(0, 2), allow_dyn=False,
            allow_func=False, allow_inline=False, allow_ml=rng.random() < 0.3)
    g.func_versions = None
    blk, _ = g.block(["x", "y"], set(), 0, g.size)
    nodes = list(blk["nodes"])
    taint = tainted_ids({"nodes": nodes, "outs": []})
    pool = ["x", "y"] + [st["id"] for st in nodes if st["id"] not in taint]
    md = g.oldx_desc()
    if not md.get("ml") and not md.get("custom"):
        md["ml"] = ["scaler", rng.randrange(1, 4)]
    a = {"id": g.fresh(), "op": "inline", "model": md, "args": [rng.choice(pool)]}
    nodes.append(a)
    tops = [a["id"]]
    where = rng.choice(["top", "if", "loop", "func", "inline2", "inline2", "func_if"])
    src = rng.choice(pool + [a["id"]])

    def ml_stmt(arg):
        op = rng.choice(["ml_label", "ml_label", "ml_scaler", "ml_binarizer", "ml_tree"])
        return {"id": g.fresh(), "op": op, "mv": 5 if op == "ml_tree" else rng.choice(ML_VERSIONS), "dv": g.mv(), "args": [arg]}

    if where == "top":
        e = ml_stmt(src)
        nodes.append(e)
        tops.append(e["id"])
    elif where == "if":
        t = ml_stmt(src)
        f = {"id": g.fresh(), "op": rng.choice(PLAIN[4:]), "mv": g.mv(), "args": [src]}
        if rng.random() < 0.5:
            md2 = g.oldx_desc()
            f = {"id": g.fresh(), "op": "inline", "model": md2, "args": [src]}
        e = {"id": g.fresh(), "op": "if", "mv": g.mv(), "cond": rng.choice(["c", "nc"]),
             "then": {"nodes": [t], "out": t["id"]}, "else": {"nodes": [f], "out": f["id"]}}
        nodes.append(e)
        tops.append(e["id"])
    elif where == "loop":
        pid = g.fresh()
        t = ml_stmt(pid)
        e = {"id": g.fresh(), "op": "loop", "mv": g.mv(), "param": pid, "args": [src if src not in taint else "x"],
             "body": {"nodes": [t], "out": t["id"]}}
        fx = {"id": g.fresh(), "op": "fix", "mv": g.mv(), "args": [e["id"]]}
        nodes += [e, fx]
        tops.append(fx["id"])
    elif where in ("func", "func_if"):
        pid = g.fresh()
        t = ml_stmt(pid)
        body = {"nodes": [t], "out": t["id"]}
        if where == "func_if":
            f = {"id": g.fresh(), "op": "neg", "mv": g.mv(), "args": [pid]}
            i = {"id": g.fresh(), "op": "if", "mv": g.mv(), "cond": rng.choice(["t", "f"]),
                 "then": {"nodes": [t], "out": t["id"]}, "else": {"nodes": [f], "out": f["id"]}}
            body = {"nodes": [i], "out": i["id"]}
        e = {"id": g.fresh(), "op": "func", "name": f"fmix{idx}_{next(_uid)}", "domain": rng.choice(["spox.verif", "verif.other"]),
             "params": [pid], "body": body, "args": [src]}
        nodes.append(e)
        tops.append(e["id"])
    else:  # another legacy model asking for the same non-default domains at other versions
        md2 = g.oldx_desc()
        if md.get("ml"):
            kind = rng.choice(["scaler", "binarizer", "norm", "afe", "le2"])
            md2["ml"] = [kind, rng.choice([v for v in (1, 2, 3) if v >= OLDX_ML[kind][0] and v != md["ml"][1]] or [3])]
        if md.get("custom"):
            md2["custom"] = rng.choice([v for v in (1, 2, 3) if v != md["custom"]])
        e = {"id": g.fresh(), "op": "inline", "model": md2, "args": [src]}
        nodes.append(e)
        tops.append(e["id"])
    # something from a newer default-domain module, so that the import is above the legacy model's opset
    if rng.random() < 0.7:
        hi = rng.choice([18, 19, 20, 21])
        op_, mv_ = PIN[hi]
        e = {"id": g.fresh(), "op": op_, "mv": mv_, "args": [tops[-1]]}
        nodes.append(e)
        tops[-1] = e["id"]
    cur = tops[0]
    for t in tops[1:]:
        e = {"id": g.fresh(), "op": rng.choice(["add", "sub", "mul"]), "mv": g.mv(), "args": [cur, t]}
        nodes.append(e)
        cur = e["id"]
    outs = [cur] + [st["id"] for st in nodes if st["op"] == "func"]
    if nodes and nodes[0]["id"] not in taint and rng.random() < 0.3 and nodes[0]["id"] not in outs:
        outs.append(nodes[0]["id"])
    prog = sink(prune({"nodes": nodes, "outs": outs}))
    align_unknown_rank(prog)
    return prog


NAME_MAPS = [{}, {"x": "y", "y": "x"}, {"x": "p", "y": "q"}, {"x": "q", "y": "p"}, {"x": "x", "y": "p"}, {"x": "y", "y": "q"}]


def make_history(rng, prog, idx=0):
    """Feedback class: 2-3 builds over the SAME Var objects, every build needing conversion, where between
    builds the names given to `build` change: arguments permuted / renamed, outputs renamed / permuted /
    other subsets, intermediate values renamed through `Var._rename`, the low-level Graph API.
    prog["history"] = [spec...]; the last spec is the build observed against the model; every build is judged.
    spec = {"names": {role: name}, "outs": [[name, id]...], "low": bool, "renames": {id: name}}"""
    import copy

    p = copy.deepcopy(prog)
    p.pop("prebuild_outs", None)
    top = [st["id"] for st in p["nodes"]]
    taint = tainted_ids(p)
    base_outs = list(p["outs"])
    # values the later builds put on top: identities from newer modules (raise the maximum -> more conversion)
    raised = {}
    for k, o in enumerate(base_outs):
        hi = rng.choice([19, 21, 21])
        nid = f"h{idx}_{k}"
        p["nodes"].append({"id": nid, "op": "identity", "mv": hi, "args": [o]})
        raised[o] = nid
    inner = [t for t in top if t not in taint and t not in base_outs]
    n = rng.choice([2, 2, 3])
    specs = []
    prev_outs = None
    for b in range(n):
        mode = rng.random()
        if prev_outs is not None and mode < 0.55:
            ids = list(prev_outs)  # same operators, same maximum: only the names differ
        else:
            ids = [raised[o] if rng.random() < 0.6 else o for o in base_outs]
            if inner and rng.random() < 0.3:
                ids.append(rng.choice(inner))
        if len(ids) > 1 and rng.random() < 0.4:
            rng.shuffle(ids)
        ids = list(dict.fromkeys(ids))
        style = rng.randrange(3)
        names = [f"out{i}" for i in range(len(ids))]
        if style == 1:
            names = list(reversed(names))
        elif style == 2:
            names = [f"r{b}_{i}" for i in range(len(ids))]
        spec = {"names": dict(rng.choice(NAME_MAPS)), "outs": [[nm, i] for nm, i in zip(names, ids)]}
        if specs and rng.random() < 0.2:
            spec = copy.deepcopy(specs[-1])  # exactly the same build once more
        if rng.random() < 0.25:
            spec["low"] = True
        if inner and rng.random() < 0.35:
            spec["renames"] = {i: f"zq{b}_{j}" for j, i in enumerate(rng.sample(inner, min(len(inner), rng.randrange(1, 3))))}
        specs.append(spec)
        prev_outs = ids
    p["history"] = specs
    p["outs"] = [i for _, i in specs[-1]["outs"]]
    align_unknown_rank(p)
    return p


def spec_program(prog, spec):
    """The abstract program one build of a history is about: its outputs, nothing else reachable."""
    return sink(prune({"nodes": prog["nodes"], "outs": [i for _, i in spec["outs"]]}))


PIN = {18: ("pad", 18), 19: ("identity", 19), 20: ("isnan_w", 20), 21: ("identity", 21)}


def pin_bodies(prog):
    """Clean family: every If body is given an operator at the model's maximum default-domain version,
    so that a body's own opsets equal the model's (the known finding `body-own-opsets` is avoided)."""
    for _ in range(4):  # pinning may raise nothing, but iterate to a fixed point for safety
        imp = expected_imports(prog).get("", 14)
        if imp not in PIN:
            return
        changed = False
        for st, depth, in_func, path in list(walk(prog["nodes"])):
            if st["op"] != "if":
                continue
            for b in (st["then"], st["else"]):
                own = policy(requirements_of_nodes(b["nodes"]) + [("", 14)]).get("", 14)
                if own < imp:
                    op, mv = PIN[imp]
                    pid = f"pin{next(_uid)}"
                    b["nodes"].append({"id": pid, "op": op, "mv": mv, "args": [b["out"]]})
                    b["out"] = pid
                    changed = True
        if not changed:
            return


def align_unknown_rank(prog):
    """Clean family: the Reshape nodes that produce / consume a value of unknown rank are written
    against the version whose schema is in force at the model's import (so they need no conversion;
    the known finding `unknown-rank` is avoided)."""
    imp = expected_imports(prog).get("", 14)
    mv = 21 if imp >= 21 else (19 if imp >= 19 else 17)
    for st, *_ in walk(prog["nodes"]):
        if st["op"] in ("dyn", "fix", "reffn"):  # reffn: its Constant carries a reference attribute
            st["mv"] = mv


def prune(prog):
    """Drop statements the outputs do not depend on (spox never builds them)."""

    def prune_nodes(nodes, needed):
        kept = []
        for st in reversed(nodes):
            if st["id"] not in needed:
                continue
            st = dict(st)
            needed |= set(st.get("args", []))
            if st["op"] == "if":
                for k in ("then", "else"):
                    b = st[k]
                    inner = {b["out"]}
                    st[k] = {"nodes": prune_nodes(b["nodes"], inner), "out": b["out"]}
                    needed |= inner
            elif st["op"] == "func":
                b = st["body"]
                inner = {b["out"]}
                st["body"] = {"nodes": prune_nodes(b["nodes"], inner), "out": b["out"]}
            elif st["op"] == "loop":
                b = st["body"]
                inner = {b["out"]}
                st["body"] = {"nodes": prune_nodes(b["nodes"], inner), "out": b["out"]}
                needed |= inner - {st["param"]}
            kept.append(st)
        kept.reverse()
        return kept

    return dict(prog, nodes=prune_nodes(prog["nodes"], set(prog["outs"])), outs=list(prog["outs"]))


def _refs(blk, sid) -> bool:
    if blk["out"] == sid:
        return True
    for st in blk["nodes"]:
        if sid in st.get("args", []):
            return True
        if st["op"] == "if" and (_refs(st["then"], sid) or _refs(st["else"], sid)):
            return True
        if st["op"] == "loop" and _refs(st["body"], sid):
            return True
    return False


def sink(prog):
    """Normal form in which the syntactic position of a statement is the graph spox places its nodes
    in: a value used only inside one body is built inside that body (innermost enclosing scope, C04)."""
    import copy

    prog = copy.deepcopy(prog)

    def process(nodes, keep):
        i = len(nodes) - 1
        while i >= 0:
            st = nodes[i]
            sid = st["id"]
            if sid not in keep and st["op"] != "func":
                later = nodes[i + 1:]
                direct = any(sid in s.get("args", []) for s in later)
                using = [s[k] for s in later if s["op"] == "if" for k in ("then", "else") if _refs(s[k], sid)]
                using += [s["body"] for s in later if s["op"] == "loop" and _refs(s["body"], sid)]
                if not direct and len(using) == 1:
                    using[0]["nodes"].insert(0, st)
                    del nodes[i]
            i -= 1
        for st in nodes:
            if st["op"] == "if":
                for k in ("then", "else"):
                    process(st[k]["nodes"], {st[k]["out"]})
            elif st["op"] in ("func", "loop"):
                process(st["body"]["nodes"], {st["body"]["out"]})

    process(prog["nodes"], set(prog["outs"]))
    return prog


def uniform(prog, mv=None):
    """The same program with every default-domain constructor taken from one opset module."""
    import copy

    prog = copy.deepcopy(prog)
    vs = [st.get("mv") for st, *_ in walk(prog["nodes"]) if st["op"] not in ML_MACROS and "mv" in st]
    vs += [st.get("dv") for st, *_ in walk(prog["nodes"]) if st["op"] in ML_MACROS]
    mv = mv or max([v for v in vs if v] + [17])
    for st, *_ in walk(prog["nodes"]):
        if st["op"] in ML_MACROS:
            st["dv"] = mv
        elif "mv" in st:
            st["mv"] = mv
    return prog


def prog_size(prog):
    return sum(1 for _ in walk(prog["nodes"]))


def prog_depth(prog):
    return max([d for _s, d, _f, _p in walk(prog["nodes"])] + [0])
