"""Block *programs* over the three scoped settings (C16, round 10).

A program is a list of commands (the `Ctx.Cmd` of lean/SpoxModel/Model/CtxProg.lean):
  {"op": "with", "which": j, "arg": a, "body": [...], "form": "with" | "decorator"}
  {"op": "set", "which": j, "v": v}      the public non-scoped setter (j = 2: a direct assignment of the dispatcher)
  {"op": "snap"}                         read the three settings
  {"op": "raise", "how": h, "junk": k}   raise (exception class / spox's own eager errors, as in c16.py)
  {"op": "try", "body": [...]}           try: body / except BaseException: pass

`run_real` executes one on the real managers; `oracle` judges the real run alone (model-free); the model side
is the driver request {"init": ..., "prog": strip(prog)} (runCmds over the IR generated from /repo).
"""
from __future__ import annotations

import itertools
import random

MANAGERS = ["type_warning_level", "value_prop_backend", "operator_overloading"]
N_ARGS = [4, 3, 4]

LEAVES = ["set0", "set1", "snap", "raise"]
NODES = ["with0", "with1", "with2", "try"]


def strip(prog):
    out = []
    for c in prog:
        d = {"op": c["op"]}
        if c["op"] == "with":
            d.update(which=c["which"], arg=c["arg"], body=strip(c["body"]))
        elif c["op"] == "set":
            d.update(which=c["which"], v=c["v"])
        elif c["op"] == "try":
            d["body"] = strip(c["body"])
        out.append(d)
    return out


def size(prog):
    return sum(1 + size(c.get("body", [])) for c in prog)


def depth(prog):
    return 0 if not prog else max(1 + depth(c["body"]) if "body" in c else 0 for c in prog)


def count_ops(prog, acc=None):
    acc = {} if acc is None else acc
    for c in prog:
        k = c["op"] + (f"{c['which']}" if c["op"] in ("with", "set") else "")
        acc[k] = acc.get(k, 0) + 1
        count_ops(c.get("body", []), acc)
    return acc


def _mk(kind, rng: random.Random, body=None, set2=False):
    if kind.startswith("with"):
        w = int(kind[4])
        return {"op": "with", "which": w, "arg": rng.randrange(1 if w == 2 else 0, N_ARGS[w]),
                "body": body if body is not None else [], "form": rng.choice(["with", "with", "decorator", "shared-decorator"])}
    if kind.startswith("set"):
        w = int(kind[3])
        if set2 and rng.random() < 0.15:
            return {"op": "set", "which": 2, "v": rng.randrange(5)}
        return {"op": "set", "which": w, "v": rng.randrange(N_ARGS[w])}
    if kind == "snap":
        return {"op": "snap"}
    if kind == "raise":
        return {"op": "raise", "how": rng.choice([1, 1, 2, 3, 4, 5, 6, 7, 8, 9]), "junk": rng.randrange(7)}
    return {"op": "try", "body": body if body is not None else []}


def _shapes(n):
    """All ordered forests with n nodes."""
    if n == 0:
        yield []
        return
    for k in range(1, n + 1):
        for first in _shapes(k - 1):
            for rest in _shapes(n - k):
                yield [first] + rest


def _label(shape, labels, rng, set2):
    out = []
    for children in shape:
        kind = next(labels)
        if children and kind in LEAVES:
            raise ValueError
        out.append(_mk(kind, rng, _label(children, labels, rng, set2), set2))
    return out


def gen_exhaustive(maxn, rng, set2=False):
    """Every program of <= maxn commands over {with x3, try, set x2, snap, raise} (args / forms / exception class
    seeded); each is followed by a final snapshot-free run: the final settings are compared anyway."""
    for n in range(1, maxn + 1):
        for shape in _shapes(n):
            for labs in itertools.product(NODES + LEAVES, repeat=n):
                try:
                    yield _label(shape, iter(labs), rng, set2)
                except ValueError:
                    continue


def instrument(prog):
    """A snapshot on entering every body and after every command."""
    out = []
    for c in prog:
        c = dict(c)
        if "body" in c:
            c["body"] = [{"op": "snap"}] + instrument(c["body"])
        out.append(c)
        if c["op"] != "raise":
            out.append({"op": "snap"})
    return out


def gen_random(rng: random.Random, budget, set2=False):
    left = [budget]

    def mk(d):
        out = []
        while left[0] > 0 and rng.random() < (0.85 if d == 0 else 0.7):
            left[0] -= 1
            kind = rng.choices(NODES + LEAVES, weights=[14, 14, 14, 12, 9, 9, 18, 10])[0]
            body = mk(d + 1) if kind in NODES and d < 6 else None
            out.append(_mk(kind, rng, body, set2))
        return out

    prog = mk(0)
    return instrument(prog) if rng.random() < 0.5 else prog


def run_real(env, prog, init):
    """-> (final, log, raised, records). `env` is c16._Env. records: one per executed `with` —
    pre / inside / post settings and how many setter calls of each setting ran while it was open."""
    env.write(init)
    log, records = [], []
    pokes = [0, 0, 0]
    shared = {}

    def poke(which, v):
        pokes[which] += 1
        if which < 2:
            env.poke(which, v)
        else:
            vals = env.read()
            vals[2] = v
            env.write([x if x >= 0 else 0 for x in vals])

    def run_cmds(cs):
        for c in cs:
            run_cmd(c)

    def run_cmd(c):
        op = c["op"]
        if op == "snap":
            log.append(env.read())
        elif op == "set":
            poke(c["which"], c["v"])
        elif op == "raise":
            env.raise_somehow(c.get("how", 1), c.get("junk", 0))
            raise AssertionError("raise_somehow returned")
        elif op == "try":
            try:
                run_cmds(c["body"])
            except BaseException:  # noqa: BLE001 - the model's tryC catches everything
                pass
        elif op == "with":
            rec = {"which": c["which"], "arg": c["arg"], "pre": env.read(), "inside": None, "end": None, "post": None,
                   "raised": False, "pokes_pre": list(pokes), "pokes_post": None}
            records.append(rec)

            def body():
                rec["inside"] = env.read()
                try:
                    run_cmds(c["body"])
                finally:
                    rec["end"] = env.read()  # the settings as the body leaves them (completing or raising)

            try:
                if c.get("form") == "decorator":
                    env.manager(c["which"], c["arg"])(body)()
                elif c.get("form") == "shared-decorator":  # one decorator object per (manager, arg), re-used by nested / repeated blocks
                    key = (c["which"], c["arg"])
                    if key not in shared:
                        shared[key] = env.manager(*key)
                    shared[key](body)()
                else:
                    with env.manager(c["which"], c["arg"]):
                        body()
            except BaseException:
                rec["raised"] = True
                raise
            finally:
                rec["post"] = env.read()
                rec["pokes_post"] = list(pokes)
        else:
            raise ValueError(op)

    raised = False
    try:
        run_cmds(prog)
    except BaseException:  # noqa: BLE001
        raised = True
    return env.read(), log, raised, records


def oracle(records):
    """Model-free (the property's own words, on the real run): on exit from a block — normal or by an exception,
    whatever the body did, including calls of the non-scoped setter of the block's own setting — the block's own
    setting is what it was before the block; a setting whose setter did not run while the block was open is what
    it was before the block; on entering the body the entered setting is in force and the others are untouched."""
    bad = []
    for r in records:
        if r["post"] is None:
            continue
        for j in range(3):
            if -1 in (r["post"][j], r["pre"][j]):
                continue
            own = j == r["which"]
            untouched = r["pokes_post"][j] == r["pokes_pre"][j]
            if (own or untouched) and r["post"][j] != r["pre"][j]:
                if own and not untouched:
                    kind = "own-setter-escapes-block"
                else:
                    kind = "leak-after-exception" if r["raised"] and own else "leak-after-exit"
                bad.append((MANAGERS[j], kind, r))
        exp = list(r["pre"])
        exp[r["which"]] = r["arg"]
        if r["inside"] is not None and -1 not in r["inside"] and -1 not in exp and r["inside"] != exp:
            bad.append((MANAGERS[r["which"]], "not-in-force-inside", r))
        # "affect only code running inside them": leaving a block changes nothing but the block's own setting -
        # the other two are, right after the exit, what they were when the body ended
        if r.get("end") is not None:
            for j in range(3):
                if j != r["which"] and -1 not in (r["end"][j], r["post"][j]) and r["end"][j] != r["post"][j]:
                    bad.append((MANAGERS[j], f"changed-by-exit-of-{MANAGERS[r['which']]}-block", r))
    return bad


def _variants(prog):
    """Smaller programs: one command deleted, or one container replaced by its body (at any depth)."""
    for k, c in enumerate(prog):
        yield prog[:k] + prog[k + 1:]
        if "body" in c:
            yield prog[:k] + c["body"] + prog[k + 1:]
            for b in _variants(c["body"]):
                yield prog[:k] + [dict(c, body=b)] + prog[k + 1:]


def shrink(env, prog, init, key, budget=400):
    """Greedy shrinking of a failing program: keeps the failure key (judged by `oracle` on the real run)."""
    def fails(p_):
        try:
            _, _, _, recs = run_real(env, p_, init)
        except Exception:  # noqa: BLE001
            return False
        return any(f"{m}:{k}" == key for m, k, _ in oracle(recs))

    improved = True
    while improved and budget > 0:
        improved = False
        for cand in _variants(prog):
            budget -= 1
            if budget <= 0:
                break
            if fails(cand):
                prog, improved = cand, True
                break
    return prog
