"""C19 — the onnxruntime programs run in child processes: a native crash of onnx / onnxruntime on a model becomes a
per-program result of the parent (never an exit code other than 0 / 1 of the check), and the modules run in parallel.

child:  python -m harness.lib_c19ort   (stdin: JSON list of [module, program, seed]; stdout: one JSON line per job)
"""
from __future__ import annotations

import json
import os
import subprocess
import sys
from pathlib import Path

VERIF = Path(__file__).resolve().parent.parent


def run_jobs(jobs, n_children=5, timeout=600):
    """jobs: [(mod, prog, seed)] -> list of results in job order: None (ok) | [stage, text] | ["child-crash", text]"""
    results = [["child-crash", "not run"]] * len(jobs)
    results = list(results)
    if not jobs:
        return results
    groups = {}
    for i, j in enumerate(jobs):
        groups.setdefault(i % max(1, min(n_children, len(jobs))), []).append((i, j))
    env = dict(os.environ, PYTHONPATH=str(VERIF) + (":" + os.environ["PYTHONPATH"] if os.environ.get("PYTHONPATH") else ""),
               PYTHONDONTWRITEBYTECODE="1")
    pending = {k: list(v) for k, v in groups.items()}
    for _round in range(4):  # a child that died is restarted behind the job it died on
        procs = {}
        for k, items in pending.items():
            if items:
                procs[k] = subprocess.Popen([sys.executable, "-m", "harness.lib_c19ort"], stdin=subprocess.PIPE,
                                            stdout=subprocess.PIPE, stderr=subprocess.PIPE, text=True, env=env, cwd=str(VERIF))
        if not procs:
            break
        nxt = {}
        for k, p in procs.items():
            items = pending[k]
            try:
                out, err = p.communicate(json.dumps([list(j) for _i, j in items]), timeout=timeout)
            except subprocess.TimeoutExpired:
                p.kill()
                out, err = p.communicate()
                err = (err or "") + "\n<timeout>"
            done = 0
            for line in out.splitlines():
                if line.startswith("R "):
                    try:
                        d = json.loads(line[2:])
                        results[items[d["i"]][0]] = d["r"]
                        done = max(done, d["i"] + 1)
                    except Exception:  # noqa: BLE001
                        pass
            if done < len(items):  # the child died (or produced nothing) on job `done`
                i_bad = items[done][0]
                results[i_bad] = ["child-crash", f"child exited with {p.returncode} while running this program: {(err or '')[-300:]}"]
                nxt[k] = items[done + 1:]
            else:
                nxt[k] = []
        pending = nxt
    return results


def _child():
    from harness import core

    core.use_repo_on_path()
    jobs = json.loads(sys.stdin.read())
    from harness.props import c19

    env = c19.Env()
    for i, (mod, prog, seed) in enumerate(jobs):
        try:
            r = c19.run_ort_prog(env, mod, prog, seed)
        except BaseException as e:  # noqa: BLE001
            r = ("harness:" + type(e).__name__, str(e)[:200])
        print("R " + json.dumps({"i": i, "r": None if r is None else list(r)}), flush=True)


if __name__ == "__main__":
    _child()
