"""C08 generator: models written against OLDER opsets (11-17) whose version-sensitive operators sit
inside control-flow bodies (If / Loop / Scan, depth 1 and 2) while the top level holds only operators
that did not change - plus the same operators at the top level, second domains (ai.onnx.ml 1/2,
com.microsoft - both runnable under onnxruntime) next to them.

"Version-sensitive" = the operator is defined differently in a later opset, either with another
signature (attribute became an input, new mandatory attribute, attribute values renamed) or with the
same signature and another meaning (Softmax / LogSoftmax / Hardmax before 13).

Every unit maps a float32[2,3,4] value to a float32[2,3,4] value, so units compose freely and a model
is chainable / usable as Loop state. Nothing here judges the property; see harness/props/c08.py.
"""
from __future__ import annotations

import random
from typing import Callable, Optional

import numpy as np
import onnx
from onnx import TensorProto as TP
from onnx import helper as H
from onnx import numpy_helper as NH

SHAPE = [2, 3, 4]

# name -> (lowest opset, highest opset) the unit is written for, kind
#   kind "sig"     : emitted verbatim under a newer import it is invalid / refused
#   kind "meaning" : emitted verbatim under a newer import it is valid but computes something else
#   kind "compat"  : changed definition, old spelling still means the same (Pad, Resize, Cast ...)
#   kind "plain"   : not version-sensitive in 11..21 (fillers)
UNITS: dict[str, tuple[int, int, str]] = {}
_BUILDERS: dict[str, Callable] = {}


def unit(name: str, lo: int, hi: int, kind: str):
    def deco(f):
        UNITS[name] = (lo, hi, kind)
        _BUILDERS[name] = f
        return f

    return deco


class Names:
    def __init__(self, prefix: str = "v"):
        self.k = 0
        self.prefix = prefix

    def __call__(self, hint: str = "") -> str:
        self.k += 1
        return f"{self.prefix}{self.k}{hint}"


def _const(nm: Names, arr: np.ndarray, nodes: list) -> str:
    out = nm("c")
    nodes.append(H.make_node("Constant", [], [out], value=NH.from_array(arr, out)))
    return out


for _r in ["ReduceMean", "ReduceMax", "ReduceMin", "ReduceProd", "ReduceL1", "ReduceL2", "ReduceSumSquare", "ReduceLogSumExp"]:
    def _mk(op):
        def build(x, nm, rng, opset):
            nodes = []
            r = nm("r")
            axes = rng.choice([[1], [0, 2], [-1], [2]])
            nodes.append(H.make_node(op, [x], [r], axes=axes, keepdims=1))
            y = nm()
            nodes.append(H.make_node("Add", [x, r], [y]))
            return nodes, y
        return build
    unit(f"{_r}<axes>", 11, 17, "sig")(_mk(_r))


@unit("ReduceSum<axes>", 11, 12, "sig")
def _reduce_sum_attr(x, nm, rng, opset):
    r, y = nm("r"), nm()
    return [H.make_node("ReduceSum", [x], [r], axes=rng.choice([[1], [0, 2]]), keepdims=1), H.make_node("Sub", [x, r], [y])], y


@unit("ReduceSum(axes)", 13, 17, "plain")
def _reduce_sum_in(x, nm, rng, opset):
    nodes = []
    a = _const(nm, np.array(rng.choice([[1], [0, 2]]), np.int64), nodes)
    r, y = nm("r"), nm()
    nodes += [H.make_node("ReduceSum", [x, a], [r], keepdims=1), H.make_node("Sub", [x, r], [y])]
    return nodes, y


@unit("Split-no-num_outputs", 11, 17, "sig")
def _split_plain(x, nm, rng, opset):
    a, b, y = nm("a"), nm("b"), nm()
    return [H.make_node("Split", [x], [a, b], axis=2), H.make_node("Concat", [b, a], [y], axis=2)], y


@unit("Split<split>", 11, 12, "sig")
def _split_attr(x, nm, rng, opset):
    a, b, y = nm("a"), nm("b"), nm()
    return [H.make_node("Split", [x], [a, b], axis=2, split=[1, 3]), H.make_node("Concat", [b, a], [y], axis=2)], y


@unit("Split(split)", 13, 17, "sig")
def _split_in(x, nm, rng, opset):
    nodes = []
    s = _const(nm, np.array([3, 1], np.int64), nodes)
    a, b, y = nm("a"), nm("b"), nm()
    nodes += [H.make_node("Split", [x, s], [a, b], axis=-1), H.make_node("Concat", [b, a], [y], axis=2)]
    return nodes, y


@unit("Squeeze<axes>", 11, 12, "sig")
def _squeeze_attr(x, nm, rng, opset):
    u, y = nm("u"), nm()
    k = rng.choice([0, 1, 3])
    return [H.make_node("Unsqueeze", [x], [u], axes=[k]), H.make_node("Squeeze", [u], [y], axes=[k])], y


@unit("Squeeze(axes)", 13, 17, "plain")
def _squeeze_in(x, nm, rng, opset):
    nodes = []
    k = _const(nm, np.array([rng.choice([0, 1, 3])], np.int64), nodes)
    u, y = nm("u"), nm()
    nodes += [H.make_node("Unsqueeze", [x, k], [u]), H.make_node("Squeeze", [u, k], [y])]
    return nodes, y


for _s in ["Softmax", "LogSoftmax", "Hardmax"]:
    def _mk2(op):
        def build(x, nm, rng, opset):
            y = nm()
            kw = rng.choice([{}, {}, {"axis": 1}, {"axis": 0}, {"axis": 2}, {"axis": -2}])
            return [H.make_node(op, [x], [y], **kw)], y
        return build
    unit(f"{_s}-coerce2d", 11, 12, "meaning")(_mk2(_s))
    unit(f"{_s}-13", 13, 17, "plain")(_mk2(_s))


@unit("Dropout<ratio>", 11, 11, "sig")
def _dropout(x, nm, rng, opset):
    y = nm()
    return [H.make_node("Dropout", [x], [y], ratio=0.25)], y


@unit("Pad", 11, 17, "compat")
def _pad(x, nm, rng, opset):
    nodes = []
    p = _const(nm, np.array([0, 0, 1, 0, 0, 0], np.int64), nodes)
    s, e, ax = (_const(nm, np.array(v, np.int64), nodes) for v in ([1], [5], [2]))
    padded, y = nm("p"), nm()
    nodes += [H.make_node("Pad", [x, p], [padded], mode=rng.choice(["constant", "edge", "reflect"])),
              H.make_node("Slice", [padded, s, e, ax], [y])]
    return nodes, y


@unit("Resize", 11, 17, "compat")
def _resize(x, nm, rng, opset):
    nodes = []
    roi = _const(nm, np.array([], np.float32), nodes)
    sc = _const(nm, np.array([1, 1, 2], np.float32), nodes)
    s, e, ax, st = (_const(nm, np.array(v, np.int64), nodes) for v in ([0], [8], [2], [2]))
    big, y = nm("z"), nm()
    nodes += [H.make_node("Resize", [x, roi, sc], [big], mode="nearest", coordinate_transformation_mode="asymmetric", nearest_mode="floor"),
              H.make_node("Slice", [big, s, e, ax, st], [y])]
    return nodes, y


@unit("GridSample-16", 16, 17, "sig")
def _grid_sample(x, nm, rng, opset):
    nodes = []
    sh4 = _const(nm, np.array([1, 2, 3, 4], np.int64), nodes)
    sh3 = _const(nm, np.array(SHAPE, np.int64), nodes)
    ys, xs = np.meshgrid(np.linspace(-1, 1, 3), np.linspace(-1, 1, 4), indexing="ij")
    grid = _const(nm, np.stack([xs, ys], -1)[None].astype(np.float32), nodes)
    x4, g, y = nm("q"), nm("g"), nm()
    nodes += [H.make_node("Reshape", [x, sh4], [x4]),
              H.make_node("GridSample", [x4, grid], [g], mode=rng.choice(["bilinear", "bilinear", "nearest"]), align_corners=1),
              H.make_node("Reshape", [g, sh3], [y])]
    return nodes, y


@unit("plain-unary", 11, 17, "plain")
def _plain_unary(x, nm, rng, opset):
    y = nm()
    return [H.make_node(rng.choice(["Abs", "Neg", "Relu", "Tanh", "Identity"]), [x], [y])], y  # continuous only


def units_for(opset: int, kinds=("sig", "meaning", "compat", "plain")) -> list[str]:
    return [n for n, (lo, hi, k) in UNITS.items() if lo <= opset <= hi and k in kinds]


def build_unit(name: str, x: str, nm: Names, rng: random.Random, opset: int):
    return _BUILDERS[name](x, nm, rng, opset)


def _f(name, shape=None):
    return H.make_tensor_value_info(name, TP.FLOAT, SHAPE if shape is None else shape)


# second domains: operators onnxruntime's CPU provider runs, so the comparison stays numeric
def ml_unit(x, nm, rng):
    """ai.onnx.ml operators that are the same in every ai.onnx.ml version (1..5)."""
    nodes = []
    sh2 = _const(nm, np.array([6, 4], np.int64), nodes)
    sh3 = _const(nm, np.array(SHAPE, np.int64), nodes)
    x2, s, y = nm("q"), nm("s"), nm()
    k = rng.randrange(3)
    if k == 0:
        mid = H.make_node("Scaler", [x2], [s], domain="ai.onnx.ml", offset=[0.5], scale=[2.0])
    elif k == 1:
        # the threshold is no value the units produce exactly (uniform Softmax rows are 1/2 .. 1/24): the built model
            # and m differ in the last bit (other kernels after conversion, other fusions inside bodies) and a
            # discontinuity would turn that into 0 / 1
            mid = H.make_node("Binarizer", [x2], [s], domain="ai.onnx.ml", threshold=0.3183099)
    else:
        mid = H.make_node("Normalizer", [x2], [s], domain="ai.onnx.ml", norm="L1")
    nodes += [H.make_node("Reshape", [x, sh2], [x2]), mid, H.make_node("Reshape", [s, sh3], [y])]
    return nodes, y


def ms_unit(x, nm, rng):
    """a contrib operator of onnxruntime (domain com.microsoft, version 1): a custom domain to onnx."""
    y = nm()
    return [H.make_node(rng.choice(["Gelu", "QuickGelu"]), [x], [y], domain="com.microsoft")], y


class VersionGen:
    """One model at opset 11..17: float32[2,3,4] inputs (+ a bool scalar), a chain of units, some of
    them wrapped in If / Loop / Scan bodies (depth 1 or 2) that capture outer values."""

    def __init__(self, rng: random.Random, opset: Optional[int] = None, placement: Optional[str] = None,
                 second_domain: Optional[str] = None, sensitive: Optional[str] = None):
        self.rng = rng
        self.opset = opset or rng.choice([11, 12, 12, 13, 14, 15, 16, 16, 17, 17, 17])
        # body-only: the top level holds only operators that are the same in every opset from the model's on
        self.placement = placement or rng.choice(["body-only", "body-only", "body-only", "top", "both"])
        self.second = second_domain if second_domain is not None else rng.choice(["", "", "", "ml", "ms", "ml+ms"])
        self.sensitive = sensitive
        self.nm = Names()
        self.features: set[str] = set()
        self.depth_max = 0

    def pick_unit(self, sensitive: bool) -> str:
        if sensitive:
            if self.sensitive:
                return self.sensitive
            names = units_for(self.opset, ("sig", "sig", "meaning", "compat"))
            sig = [n for n in names if UNITS[n][2] == "sig"]
            mean = [n for n in names if UNITS[n][2] == "meaning"]
            comp = [n for n in names if UNITS[n][2] == "compat"]
            r = self.rng.random()
            pool = mean if (mean and r < 0.45) else (comp if r > 0.9 else sig)
            name = self.rng.choice(pool)
            if name.startswith("Hardmax") and self.rng.random() < 0.6:  # known converter defect: keep it rare
                name = self.rng.choice([n for n in pool if not n.startswith("Hardmax")])
            return name
        return self.rng.choice(units_for(self.opset, ("plain",)))

    def chain(self, x: str, outer: list[str], n: int, sensitive: bool, depth: int, want_depth: int) -> tuple[list, str]:
        """n units applied one after the other, mixing in outer values; at most one nested body."""
        rng, nm = self.rng, self.nm
        nodes: list = []
        cur = x
        nest_at = rng.randrange(n) if depth < want_depth else -1
        for j in range(n):
            if j == nest_at:
                sub, cur = self.wrap(cur, outer + [cur], depth + 1, want_depth, sensitive)
                nodes += sub
                continue
            name = self.pick_unit(sensitive and rng.random() < 0.8)
            if UNITS[name][2] != "plain":
                self.features.add(f"unit:{name}")
                self.features.add(f"{UNITS[name][2]}@depth{depth}")
            un, cur = build_unit(name, cur, nm, rng, self.opset)
            nodes += un
            if outer and rng.random() < 0.4:
                y = nm()
                nodes.append(H.make_node(rng.choice(["Add", "Sub", "Mul"]), [cur, rng.choice(outer)], [y]))
                cur = y
        return nodes, cur

    def wrap(self, x: str, outer: list[str], depth: int, want_depth: int, sensitive: bool) -> tuple[list, str]:
        """A control-flow node whose body computes on x (captured or passed) - returns (nodes, result)."""
        rng, nm = self.rng, self.nm
        self.depth_max = max(self.depth_max, depth)
        kind = rng.choice(["If", "If", "Loop", "Scan"])
        self.features.add(f"{kind}@depth{depth}")
        out = nm("o")
        nodes: list = []
        if kind == "If":
            branches = []
            for b in ("then", "else"):
                binits, bouter = [], list(outer)
                if rng.random() < 0.3:
                    bi = nm("bw")
                    binits.append(NH.from_array(np.full(SHAPE, 0.75, np.float32), bi))
                    bouter.append(bi)
                    self.features.add("body-initializer")
                bn, res = self.chain(x, bouter, rng.randrange(1, 3), sensitive, depth, want_depth)
                if res == x:  # a body result must be produced inside
                    r2 = nm()
                    bn.append(H.make_node("Identity", [res], [r2]))
                    res = r2
                branches.append(H.make_graph(bn, f"{b}_{out}", [], [_f(res)], initializer=binits))
            nodes.append(H.make_node("If", [self.cond], [out], then_branch=branches[0], else_branch=branches[1]))
        elif kind == "Loop":
            it, ci, xi, co = nm("it"), nm("ci"), nm("xi"), nm("co")
            bn = [H.make_node("Identity", [ci], [co])]
            sub, res = self.chain(xi, list(outer), rng.randrange(1, 3), sensitive, depth, want_depth)
            bn += sub
            if res == xi:
                r2 = nm()
                bn.append(H.make_node("Identity", [res], [r2]))
                res = r2
            body = H.make_graph(bn, f"body_{out}", [H.make_tensor_value_info(it, TP.INT64, []), H.make_tensor_value_info(ci, TP.BOOL, []), _f(xi)],
                                [H.make_tensor_value_info(co, TP.BOOL, []), _f(res)])
            m = _const(nm, np.array(rng.randrange(1, 3), np.int64), nodes)
            nodes.append(H.make_node("Loop", [m, "", x], [out], body=body))
        else:
            # Scan over axis 0 of a stacked [1,2,3,4] sequence with one state variable
            si, xi = nm("si"), nm("xi")
            sub, res = self.chain(si, list(outer), rng.randrange(1, 3), sensitive, depth, want_depth)
            so, sc = nm("so"), nm("sc")
            sub.append(H.make_node("Add", [res, xi], [so]))
            sub.append(H.make_node("Identity", [so], [sc]))
            body = H.make_graph(sub, f"scan_{out}", [_f(si), _f(xi)], [_f(so), _f(sc)])
            sh = _const(nm, np.array([1] + SHAPE, np.int64), nodes)
            seq = nm("seq")
            nodes.append(H.make_node("Reshape", [x, sh], [seq]))
            stacked = nm("st")
            nodes.append(H.make_node("Scan", [x, seq], [out, stacked], body=body, num_scan_inputs=1))
        return nodes, out

    def model(self) -> tuple[onnx.ModelProto, dict]:
        rng, nm = self.rng, self.nm
        n_in = rng.randrange(1, 3)
        ins = [nm("in") for _ in range(n_in)]
        self.cond = nm("cond")
        inputs = [_f(n) for n in ins]
        inputs.insert(rng.randrange(len(inputs) + 1), H.make_tensor_value_info(self.cond, TP.BOOL, []))
        inits = []
        if rng.random() < 0.4:
            w = nm("w")
            inits.append(NH.from_array(np.arange(24, dtype=np.float32).reshape(SHAPE) / 8 - 1, w))
            outer = ins + [w]
            self.features.add("initializer")
        else:
            outer = list(ins)
        if rng.random() < 0.25:
            inits.append(NH.from_array(np.full(SHAPE, 0.5, np.float32), ins[-1]))
            self.features.add("default-valued-input")
        nodes: list = []
        cur = ins[0]
        top_sensitive = self.placement in ("top", "both")
        body_sensitive = self.placement in ("body-only", "both")
        want_depth = rng.choice([1, 1, 2]) if body_sensitive else rng.choice([0, 1])
        n_top = rng.randrange(1, 4)
        wrap_at = rng.randrange(n_top) if want_depth >= 1 else -1
        for j in range(n_top):
            if j == wrap_at:
                sub, cur = self.wrap(cur, list(outer), 1, want_depth, body_sensitive)
                nodes += sub
            elif top_sensitive:
                name = self.pick_unit(True)
                self.features.add(f"unit:{name}")
                self.features.add(f"{UNITS[name][2]}@depth0")
                un, cur = build_unit(name, cur, nm, rng, self.opset)
                nodes += un
            else:
                y = nm()
                nodes.append(H.make_node(rng.choice(["Add", "Mul", "Sub"]), [cur, rng.choice(outer)], [y]))
                cur = y
        imports = [H.make_operatorsetid("", self.opset)]
        if "ml" in self.second:
            un, cur = ml_unit(cur, nm, rng)
            nodes += un
            imports.append(H.make_operatorsetid("ai.onnx.ml", rng.choice([1, 1, 2, 2, 3, 5])))
            self.features.add("second-domain:ai.onnx.ml")
        if "ms" in self.second:
            un, cur = ms_unit(cur, nm, rng)
            nodes += un
            imports.append(H.make_operatorsetid("com.microsoft", 1))
            self.features.add("second-domain:com.microsoft")
        outs = [cur]
        if rng.random() < 0.3:
            outs.append(rng.choice(ins))
            self.features.add("output-is-input")
        if rng.random() < 0.3:
            # an import no node uses, with a version that looks like a default-domain opset (valid; the built
            # model imports it too) - the source / target version must be read off the DEFAULT domain only
            dom = rng.choice(["custom.unused", "ai.onnx.training"] + ([] if "ml" in self.second else ["ai.onnx.ml"]))
            ver = {"ai.onnx.training": 1, "ai.onnx.ml": rng.choice([1, 3, 5])}.get(dom) or rng.choice([14, 14, 18, 18, 19, 20, 21, 30])
            imports.append(H.make_operatorsetid(dom, ver))
            self.features.add("unused-import")
        if len(imports) > 1 and rng.random() < 0.5:
            rng.shuffle(imports)
            if imports[0].domain != "":
                self.features.add("default-domain-not-first-import")
        g = H.make_graph(nodes, "g", inputs, [_f(o) for o in dict.fromkeys(outs)], initializer=inits)
        m = H.make_model(g, opset_imports=imports, ir_version=7 if self.opset < 15 else 8)
        self.features.add(f"opset-{self.opset}")
        self.features.add(f"placement:{self.placement}")
        self.features.add(f"body-depth-{self.depth_max}")
        return m, {"features": sorted(self.features), "runnable": True, "opset": self.opset, "kind": "vbody", "no-hostile": True}
