"""C10 oracle over EVERY attribute of every shipped constructor (round 6).

Model-free: public API only (the constructor functions, `spox.argument`, `spox.build`) plus `onnx.defs` schemas to
choose well-typed inputs, and the own wire decoder (`lib_c10wire`) to read the attribute back from the serialized
model.  For one row of the generated inventory (`translator/c10_attrsites.py`) and one *way of handing the value
over* (list, tuple, numpy array, numpy scalars in a list, range, generator, map, iter, zip, dict keys / values,
deque, set, frozenset, itertools.chain, reversed; for scalar attributes numpy scalars, 0-d arrays, bool):

    call the constructor  ->  mutate the caller's source object  ->  build  ->  decode  ->  compare name, ONNX
    attribute type and the exact items with what the caller handed over at the call.

A value whose kind is debatable (numpy scalar for an int attribute, bool, 0-d array ...) may be refused with
TypeError; accepted means exact.  A plain list / tuple / generator ... of Python numbers or strings must be accepted.
"""
from __future__ import annotations

import collections
import importlib
import inspect
import itertools
import struct

from harness import lib_c10wire as W

MODULES = {
    "v17": ("spox.opset.ai.onnx.v17", "", 17), "v18": ("spox.opset.ai.onnx.v18", "", 18),
    "v19": ("spox.opset.ai.onnx.v19", "", 19), "v20": ("spox.opset.ai.onnx.v20", "", 20),
    "v21": ("spox.opset.ai.onnx.v21", "", 21), "ml_v3": ("spox.opset.ai.onnx.ml.v3", "ai.onnx.ml", 3),
    "ml_v4": ("spox.opset.ai.onnx.ml.v4", "ai.onnx.ml", 4), "ml_v5": ("spox.opset.ai.onnx.ml.v5", "ai.onnx.ml", 5),
}
LIST_KIND = {"AttrInt64s": "ints", "AttrFloat32s": "floats", "AttrStrings": "strings"}
SCALAR_KIND = {"AttrInt64": "int", "AttrFloat32": "float", "AttrString": "string"}
ONE_SHOT = ("generator", "map", "iter", "zip", "chain", "reversed")
CONTAINERS = ["list", "tuple", "ndarray", "ndarray_small", "npscalars", "range", "generator", "map", "iter", "zip",
              "dict_keys", "dict_values", "deque", "set", "frozenset", "chain", "reversed"]
SCALAR_WAYS = {
    "int": ["py", "np_int64", "np_int32", "np_int8", "np_uint8", "bool", "np_bool", "zero_d"],
    "float": ["py", "np_float32", "np_float64", "np_float16", "py_int", "bool", "zero_d"],
    "string": ["py", "np_str", "bytes"],
}
PREF = ["tensor(float)", "tensor(int64)", "tensor(bool)", "tensor(string)", "tensor(double)", "tensor(uint8)",
        "tensor(int32)", "tensor(float16)", "seq(tensor(float))", "seq(tensor(int64))", "optional(tensor(float))",
        "map(int64,float)", "map(string,float)"]
NP_OF = {"float": "float32", "double": "float64", "int64": "int64", "int32": "int32", "int16": "int16", "int8": "int8",
         "uint8": "uint8", "uint16": "uint16", "uint32": "uint32", "uint64": "uint64", "bool": "bool",
         "string": "str", "float16": "float16", "complex64": "complex64", "complex128": "complex128"}


def f32_bits(x: float) -> int:
    import numpy as np

    with np.errstate(all="ignore"):
        return int(np.array([x], dtype=np.float64).astype(np.float32).view(np.uint32)[0])


# ------------------------------------------------------------------------------- well-typed inputs
def _spox_type(tstr: str, shape):
    import numpy as np

    from spox import Optional, Sequence, Tensor

    if tstr.startswith("tensor(") and tstr[7:-1] in NP_OF:
        d = NP_OF[tstr[7:-1]]
        return Tensor(np.dtype(str) if d == "str" else np.dtype(d), shape)
    if tstr.startswith("seq("):
        inner = _spox_type(tstr[4:-1], shape)
        return None if inner is None else Sequence(inner)
    if tstr.startswith("optional("):
        inner = _spox_type(tstr[9:-1], shape)
        return None if inner is None else Optional(inner)
    return None


_SCHEMA_CACHE: dict = {}


def _schema(opname: str, domain: str, version: int):
    import onnx

    k = (opname, domain, version)
    if k not in _SCHEMA_CACHE:
        try:
            _SCHEMA_CACHE[k] = onnx.defs.get_schema(opname, version, domain)
        except Exception:  # noqa: BLE001
            _SCHEMA_CACHE[k] = None
    return _SCHEMA_CACHE[k]


def input_types(schema, shape, alt=0) -> dict:
    """parameter name -> spox type, one consistent choice per type variable (alt rotates the preference)."""
    cons = {c.type_param_str: list(c.allowed_type_strs) for c in schema.type_constraints}
    out = {}
    pref = PREF[alt:] + PREF[:alt]
    for inp in schema.inputs:
        allowed = cons.get(inp.type_str, [inp.type_str])
        pick = next((p for p in pref if p in allowed), sorted(allowed)[0])
        out[inp.name] = _spox_type(pick, shape)
    return out


REQ_DEFAULTS = {
    "AttrInt64s": [[1, 1], [1], [0, 1]], "AttrFloat32s": [[1.0], [1.0, 2.0]], "AttrStrings": [["Tanh"], ["a"]],
    "AttrInt64": [1, 0, 2], "AttrFloat32": [1.0], "AttrString": ["x", "NOTSET"],
}
SHAPES = [None, (1, 2, 4, 4), (2, 3), (3,)]
# values to try for the attribute under test (first one with which a plain-list call builds)
LIST_ITEMS = {
    "ints": [[2, 1, 3], [1, 2], [2, 1, 3, 1], [0, 1], [1, 0], [1], [1, 1], [0], [1, 1, 1, 1], [0, 0, 1, 1]],
    "floats": [[0.5, 1.5, 0.1], [0.5, 0.25], [0.1], [0.5, 1.5, 0.1, 2.0]],
    "strings": [["Tanh", "Sigmoid"], ["a", "ü", "b"], ["Tanh"], ["Sigmoid", "Tanh", "Relu"], ["a", "b"]],
}
SCALARS = {"int": [2, 1, 0, 3, -1], "float": [0.1, 0.5, 1.5], "string": ["ü", "x"]}


def _rnn(gates, acts):
    return lambda param: {
        "in": {"X": ("float32", (3, 2, 4)), "W": ("float32", (1, 5 * gates, 4)), "R": ("float32", (1, 5 * gates, 5))},
        "attrs": {"hidden_size": 5},
        "items": {"activations": [acts], "activation_alpha": [[0.5, 0.25, 0.1][:len(acts)]],
                  "activation_beta": [[0.5, 0.25, 0.1][:len(acts)]]}.get(param)}


def _label_encoder(param):
    items = {"int64s": [2, 1, 3], "floats": [0.5, 1.5, 0.1], "strings": ["a", "ü", "b"]}
    import numpy as np

    suffix = param.split("_", 1)[1] if "_" in param else ""
    if param == "keys_tensor":
        return {"in": {"X": ("int64", (3,))}, "attrs": {"values_floats": [9.5, 8.5, 7.5]}, "items": [np.array([3, -1, 2], dtype=np.int64)]}
    if param == "values_tensor":
        return {"in": {"X": ("int64", (3,))}, "attrs": {"keys_int64s": [4, 5, 6]}, "items": [np.array([1.5, -0.0, 2.5], dtype=np.float32)]}
    if param == "default_tensor":
        return {"in": {"X": ("int64", (3,))}, "attrs": {"keys_int64s": [4, 5, 6], "values_floats": [9.5, 8.5, 7.5]},
                "items": [np.array([1.5], dtype=np.float32)]}
    if suffix not in items:
        return {"in": {"X": ("int64", (3,))}, "attrs": {"keys_int64s": [4, 5, 6], "values_floats": [9.5, 8.5, 7.5]}}
    if param.startswith("keys_"):
        return {"in": {"X": ({"int64s": "int64", "floats": "float32", "strings": "str"}[suffix], (3,))},
                "attrs": {"values_floats": [9.5, 8.5, 7.5]} if suffix != "floats" else {"values_int64s": [9, 8, 7]},
                "items": [items[suffix]]}
    if param.startswith("values_"):
        return {"in": {"X": ("int64", (3,))}, "attrs": {"keys_int64s": [4, 5, 6]}, "items": [items[suffix]]}
    return {"in": {"X": ("int64", (3,))}, "attrs": {"keys_int64s": [4, 5, 6], "values_floats": [9.5, 8.5, 7.5]}}


def _tree_v5(param):
    import numpy as np

    attrs = dict(leaf_targetids=[0, 0, 0], leaf_weights=np.array([1.0, 2.0, 3.0], dtype=np.float32), nodes_falseleafs=[1, 1, 1],
                 nodes_falsenodeids=[0, 1, 2], nodes_featureids=[0, 1, 2], nodes_modes=np.array([0, 0, 0], dtype=np.uint8),
                 nodes_splits=np.array([1.0, 2.0, 3.0], dtype=np.float32), nodes_trueleafs=[1, 1, 1],
                 nodes_truenodeids=[0, 1, 2], tree_roots=[0])
    attrs.pop(param, None)
    return {"in": {"X": ("float32", (2, 3))}, "attrs": attrs}


def _pair(a, b, va, vb, x):
    def rec(param):
        attrs = {a: va, b: vb}
        attrs.pop(param, None)
        return {"in": {"X": x}, "attrs": attrs, "items": [va if param == a else vb] if param in (a, b) else None}
    return rec


def _tec(param):
    attrs = {} if param in ("classlabels_int64s", "classlabels_strings") else {"classlabels_int64s": [0, 1]}
    return {"in": {"X": ("float32", (2, 3))}, "attrs": attrs}


RECIPES = {
    "rnn": _rnn(1, ["Tanh", "Sigmoid"]), "gru": _rnn(3, ["Sigmoid", "Tanh"]), "lstm": _rnn(4, ["Sigmoid", "Tanh", "Relu"]),
    "max_roi_pool": lambda param: {"in": {"X": ("float32", (1, 2, 8, 8)), "rois": ("float32", (3, 5))}, "attrs": {"pooled_shape": [2, 1]},
                                   "items": {"pooled_shape": [[2, 1]]}},
    "label_encoder": _label_encoder,
    "scaler": _pair("scale", "offset", [0.5, 1.5, 0.1], [0.25, 2.5, 0.2], ("float32", (2, 3))),
    "category_mapper": _pair("cats_int64s", "cats_strings", [2, 1, 3], ["a", "ü", "b"], ("int64", (3,))),
    "tree_ensemble_classifier": _tec,
    "tree_ensemble": _tree_v5,
    "svmclassifier": lambda param: {"in": {"X": ("float32", (2, 3))}, "attrs": {}},
    "svmregressor": lambda param: {"in": {"X": ("float32", (2, 3))}, "attrs": {}},
    "feature_vectorizer": lambda param: {"in": {"X": ("float32", (2, 3))}, "attrs": {}, "items": [[3, 3]]},
    "center_crop_pad": lambda param: {"in": {"input_data": ("float32", (4, 4)), "shape": ("const", [2, 3])}, "attrs": {}, "items": [[1, 0]]},
    "col2_im": lambda param: {"in": {"input": ("float32", (1, 4, 4)), "image_shape": ("const", [3, 3]), "block_shape": ("const", [2, 2])},
                              "attrs": {}, "items": [[0, 0, 0, 0]] if param == "pads" else [[1, 1]]},
    "resize": lambda param: {"in": {"X": ("float32", (1, 2, 4, 4)), "sizes": ("const", [8, 8] if param == "axes" else [1, 2, 8, 8])}, "attrs": {},
                             "items": {"axes": [[3, 2], [2, 3]], "mode": ["linear", "cubic", "nearest"],
                                       "coordinate_transformation_mode": ["asymmetric", "align_corners", "half_pixel"],
                                       "nearest_mode": ["floor", "ceil", "round_prefer_floor"],
                                       "keep_aspect_ratio_policy": ["stretch"]}},
    "batch_normalization": lambda param: {"in": {"X": ("float32", (2, 3, 4, 4)), "scale": ("float32", (3,)), "B": ("float32", (3,)),
                                                 "input_mean": ("float32", (3,)), "input_var": ("float32", (3,))},
                                          "attrs": {"training_mode": 1}},  # spox declares the three training outputs
    "compress": lambda param: {"in": {"input": ("float32", (2, 3)), "condition": ("bool", (3,))}, "attrs": {}, "items": [1, 0]},
    "einsum": lambda param: {"in": {"Inputs": ("float32", (3, 3))}, "attrs": {}, "items": ["ij->ji", "ii->i", "ij->ij"]},
    "gemm": lambda param: {"in": {"A": ("float32", (2, 3)), "B": ("float32", (3, 4))}, "attrs": {}},
    "grid_sample": lambda param: {"in": {"X": ("float32", (1, 2, 4, 4)), "grid": ("float32", (1, 3, 3, 2))}, "attrs": {},
                                  "items": {"mode": ["nearest", "bilinear", "linear"], "padding_mode": ["border", "reflection", "zeros"]}},
    "multinomial": lambda param: {"in": {"input": ("float32", (2, 3))}, "attrs": {}},
    "negative_log_likelihood_loss": lambda param: {"in": {"input": ("float32", (2, 3)), "target": ("int64", (2,))}, "attrs": {},
                                                   "items": {"reduction": ["sum", "none", "mean"], "ignore_index": [2, 1]}},
    "one_hot": lambda param: {"in": {"indices": ("int64", (3,)), "depth": ("const", 4), "values": ("float32", (2,))}, "attrs": {}, "items": [0, 1, -1]},
    "reverse_sequence": lambda param: {"in": {"input": ("float32", (3, 3, 4)), "sequence_lens": ("int64", (3,))},
                                       "attrs": {"time_axis": 1, "batch_axis": 0}, "items": {"batch_axis": [0], "time_axis": [1]}},
    "roi_align": lambda param: {"in": {"X": ("float32", (1, 2, 8, 8)), "rois": ("float32", (3, 4)), "batch_indices": ("int64", (3,))}, "attrs": {},
                                "items": {"mode": ["max", "avg"], "coordinate_transformation_mode": ["output_half_pixel", "half_pixel"]}},
    "split": lambda param: {"in": {"input": ("float32", (4, 3))}, "attrs": {"num_outputs": 2}, "items": {"axis": [0, 1], "num_outputs": [2]}},
    "group_normalization": lambda param: {"in": {"X": ("float32", (1, 4, 2, 2)), "scale": ("float32", (4,)), "bias": ("float32", (4,))},
                                          "attrs": {"num_groups": 2}, "items": {"num_groups": [2, 4, 1]}},
    "affine_grid": lambda param: {"in": {"theta": ("float32", (1, 2, 3)), "size": ("const", [1, 1, 4, 4])}, "attrs": {}},
    "imputer": lambda param: ({"in": {"X": ("int64", (2, 3))}, "attrs": {"imputed_value_int64s": [1]}} if "int64" in param
                              else {"in": {"X": ("float32", (2, 3))}, "attrs": {"imputed_value_floats": [1.0]}}),
    "one_hot_encoder": lambda param: {"in": {"X": ("int64", (3,))}, "attrs": {"cats_int64s": [1, 2]}},
}


class Synth:
    """Finds, for one constructor attribute, a call that builds (inputs typed from the onnx schema or from a small
    recipe table, required attributes from candidate lists).  Everything through the public constructors."""

    def __init__(self):
        self.mods: dict = {}
        self.base: dict = {}
        self.ctor_base: dict = {}
        self.attempts = 0

    def module(self, mid):
        if mid not in self.mods:
            self.mods[mid] = importlib.import_module(MODULES[mid][0])
        return self.mods[mid]

    def make_inputs(self, mid, row, shape, alt, recipe=None):
        import numpy as np

        from spox import Tensor, argument

        fn = getattr(self.module(mid), row["ctor"])
        _, domain, version = MODULES[mid]
        schema = _schema(row["opcls"].lstrip("_"), domain, version)
        if schema is None:
            return None
        types = input_types(schema, shape, alt)
        given = (recipe or {}).get("in", {})
        kwargs, args = {}, []
        for p in inspect.signature(fn).parameters.values():
            ann = str(p.annotation)
            if "Var" not in ann:
                if p.name == "outputs_count" and p.default is inspect.Parameter.empty:
                    kwargs[p.name] = 2  # a required plain-int parameter that is not an attribute (Split)
                continue
            if p.name in given:
                d, shp = given[p.name]
                if d == "const":
                    kwargs[p.name] = self.module("v17").const(np.array(shp, dtype=np.int64))
                    continue
                v = argument(Tensor(np.dtype(str) if d == "str" else np.dtype(d), shp))
                args.append(v)
                kwargs[p.name] = [v] if "Sequence" in ann else v
                continue
            if "Optional" in ann and p.default is None:
                continue
            t = types.get(p.name)
            if t is None:
                return None
            if "Sequence" in ann:
                vs = [argument(t), argument(t)]
                args += vs
                kwargs[p.name] = vs
            else:
                v = argument(t)
                args.append(v)
                kwargs[p.name] = v
        return fn, kwargs, args

    def call(self, mid, row, shape, alt, attrs, recipe=None):
        """-> (outputs usable as model results, arguments); raises whatever spox raises"""
        self.attempts += 1
        if row["ctor"] == "scan":
            return self._scan(mid, attrs)
        made = self.make_inputs(mid, row, shape, alt, recipe)
        if made is None:
            raise LookupError("no schema / no spox type for an input")
        fn, kwargs, args = made
        if recipe is not None:  # recipe companions that this module's constructor does not have (Split.num_outputs)
            names = inspect.signature(fn).parameters
            attrs = {k: v for k, v in attrs.items() if k in names}
        res = fn(**kwargs, **attrs)
        outs = list(res) if isinstance(res, (tuple, list)) else [res]
        outs = [o for o in outs if o is not None][:1]
        return [self._shaped(o, self.module(mid)) for o in outs], args

    def _shaped(self, v, mod=None):
        from spox import Tensor

        t = v.type
        if isinstance(t, Tensor) and t.shape is None:
            # spox.build wants results of known rank; Shape of the SAME opset module where it has one (a v17 Shape next
            # to a newer node would itself be version-adapted, which spox cannot do for an input of unknown rank)
            m = mod if mod is not None and hasattr(mod, "shape") else self.module("v17")
            return m.shape(v)
        return v

    def _scan(self, mid, attrs):
        import numpy as np

        from spox import Tensor, argument

        op = self.module(mid)
        a, s = argument(Tensor(np.float32, (2,))), argument(Tensor(np.float32, (3, 2)))
        kw = dict(num_scan_inputs=1)
        kw.update(attrs)
        res = op.scan([a, s], body=lambda st, x: [op.add(st, x), op.identity(x)], **kw)
        return list(res), [a, s]

    def build(self, outs, args, mixed_with=None):
        """mixed_with = id of a newer opset module: one of its nodes sits next to the node under test, so the whole
        model is built at the newer opset version and the older node goes through spox's version adaptation."""
        import numpy as np

        import spox
        from spox import Tensor, argument

        ins = {f"in{i}": a for i, a in enumerate(args)}
        res = {f"out{i}": o for i, o in enumerate(outs)}
        if mixed_with is not None:
            extra = argument(Tensor(np.float32, (2, 3)))
            ins["mix_in"] = extra
            if mixed_with == "ml_v5":  # the only operator defined at ai.onnx.ml version 5
                res["mix_out"] = self.module(mixed_with).tree_ensemble(extra, **_tree_v5("")["attrs"])
            else:
                res["mix_out"] = self.module(mixed_with).identity(extra)
        return spox.build(ins, res).SerializeToString()

    def required_attrs(self, row, rows_of_ctor):
        """candidate assignments of the required attributes of the constructor (the one under test is overwritten)"""
        import numpy as np

        req = [r for r in rows_of_ctor if r["required"] and r["param"] and r["cls"] != "AttrGraph"]
        if row["ctor"] == "scan":
            return [{}]
        cands = []
        for k in range(3):
            d = {}
            for r in req:
                if r["cls"] == "AttrDtype":
                    d[r["param"]] = np.float32
                elif r["cls"] == "AttrTensor":
                    d[r["param"]] = np.array([1.0], dtype=np.float32)
                elif r["cls"] in REQ_DEFAULTS:
                    c = REQ_DEFAULTS[r["cls"]]
                    d[r["param"]] = c[min(k, len(c) - 1)]
                else:
                    return []
            cands.append(d)
            if not req:
                break
        return cands

    def _try(self, row, shape, alt, attrs, recipe):
        outs, args = self.call(row["mod"], row, shape, alt, attrs, recipe)
        return find_attr(self.build(outs, args), row["opcls"].lstrip("_"), row["name"]) is not None

    def find(self, row, rows_of_ctor, values, known_rank=False):
        """(shape, alt, other attrs, value, recipe) with which the plain call builds and shows the attribute.
        known_rank: inputs of known rank only (spox's version adaptation checks a singleton model in full)."""
        key = (row["mod"], row["ctor"], row["param"]) + (("known",) if known_rank else ())
        if key in self.base:
            return self.base[key]
        found, last = None, None
        rec_fn = RECIPES.get(row["ctor"])
        if rec_fn is not None:
            rec = dict(rec_fn(row["param"]))
            rec["attrs"] = {k: v for k, v in (rec.get("attrs") or {}).items() if k != row["param"]}
            if isinstance(rec.get("items"), dict):  # per-parameter candidate values
                rec["items"] = rec["items"].get(row["param"])
            combos = [(None, 0, dict(rec.get("attrs") or {}), rec)]
            values = (rec.get("items") or []) + list(values)
        else:
            ck = (row["mod"], row["ctor"])
            combos = [(s, a, o, None) for o in self.required_attrs(row, rows_of_ctor) for s in SHAPES[1 if known_rank else 0:] for a in (0, 1)]
            if ck in self.ctor_base and not (known_rank and self.ctor_base[ck][0] is None):  # what worked for a sibling attribute first
                combos = [self.ctor_base[ck]] + combos[:8]
        for vi, value in enumerate(values):
            for shape, alt, others, rec in (combos if vi == 0 else combos[:3]):
                try:
                    if self._try(row, shape, alt, {**others, row["param"]: value}, rec):
                        found = (shape, alt, others, value, rec)
                        break
                except Exception as e:  # noqa: BLE001
                    last = f"{type(e).__name__}: {str(e)[:100]}"
            if found:
                break
        self.base[key] = found
        if found is None:
            self.base[("why",) + key] = last
        elif rec_fn is None:
            self.ctor_base.setdefault((row["mod"], row["ctor"]), found[:3] + (None,))
        return found


def find_attr(model_bytes, op_type, name):
    g = W.graph_parts(W.graph_of_model(model_bytes))
    for n in g["nodes"]:
        if n["op_type"] == op_type:
            for a in n["attrs"]:
                if a["name"] == name:
                    return a
            return None
    return None


# ------------------------------------------------------------------------ ways of handing a list over
def make_container(way, kind, items):
    """-> (object handed to spox, expected items (Python values, in order or None if unordered), mutate() or None)"""
    import numpy as np

    src = list(items)

    def mut_list():
        if src:
            src[0] = {"ints": 77, "floats": 7.75, "strings": "zz"}[kind]
        src.append({"ints": 78, "floats": 8.75, "strings": "yy"}[kind])
        src.reverse()

    if way == "list":
        return src, list(items), mut_list
    if way == "tuple":
        return tuple(src), list(items), None
    if way in ("ndarray", "ndarray_small"):
        dt = {"ints": np.int64 if way == "ndarray" else np.int32, "floats": np.float64 if way == "ndarray" else np.float32,
              "strings": np.str_}[kind]
        try:
            arr = np.array(src, dtype=dt)
        except OverflowError:
            return None
        exp = [x.item() if kind != "strings" else str(x) for x in arr]

        def mut():
            if arr.size:
                arr[...] = arr[::-1].copy()
                arr[0] = {"ints": 77, "floats": 7.75, "strings": "z"}[kind]
        return arr, exp, mut
    if way == "npscalars":
        cyc = {"ints": [np.int64, np.int32, np.int8, np.uint8, np.int16], "floats": [np.float32, np.float64, np.float16],
               "strings": [np.str_]}[kind]
        try:
            with np.errstate(all="ignore"):
                lst = [cyc[i % len(cyc)](x) for i, x in enumerate(src)]
        except OverflowError:
            return None
        exp = [x.item() if kind != "strings" else str(x) for x in lst]

        def mut():
            lst.reverse()
            lst.append(lst[0] if lst else cyc[0]({"ints": 7, "floats": 7.5, "strings": "q"}[kind]))
        return lst, exp, mut
    if way == "range":
        if kind != "ints":
            return None
        r = range(min(items), min(items) + len(items)) if items else range(0)
        return r, list(r), None
    if way == "generator":
        return (x for x in src), list(items), mut_list
    if way == "map":
        return map(lambda x: x, src), list(items), mut_list
    if way == "iter":
        return iter(src), list(items), mut_list
    if way == "zip":
        return (a for a, _ in zip(src, itertools.count())), list(items), mut_list
    if way == "chain":
        return itertools.chain(src[:1], src[1:]), list(items), None
    if way == "reversed":
        rv = src[::-1]
        return reversed(rv), list(items), None
    if way in ("dict_keys", "dict_values", "set", "frozenset") and len(set(items)) != len(items):
        return None
    if way == "dict_keys":
        d = {x: i for i, x in enumerate(src)}

        def mut():
            d.clear()
            d[{"ints": 77, "floats": 7.75, "strings": "zz"}[kind]] = 0
        return d.keys(), list(items), mut
    if way == "dict_values":
        d = {i: x for i, x in enumerate(src)}

        def mut():
            d[0] = {"ints": 77, "floats": 7.75, "strings": "zz"}[kind]
            d[len(d) + 5] = d[0]
            d.pop(1, None)
        return d.values(), list(items), mut
    if way == "deque":
        dq = collections.deque(src)

        def mut():
            dq.rotate(1)
            dq.appendleft(dq[0] if dq else {"ints": 7, "floats": 7.5, "strings": "q"}[kind])
        return dq, list(items), mut
    if way == "set":
        s = set(src)

        def mut():
            s.clear()
            s.add({"ints": 77, "floats": 7.75, "strings": "zz"}[kind])
        return s, None, mut
    if way == "frozenset":
        return frozenset(src), None, None
    raise ValueError(way)


def expected_wire(kind, pyitems):
    if kind == "ints":
        return [int(x) for x in pyitems]
    if kind == "floats":
        return [f32_bits(float(x)) for x in pyitems]
    return [x.encode("utf-8") if isinstance(x, str) else bytes(x) for x in pyitems]


ATYPE = {"ints": W.ATTR_TYPE["INTS"], "floats": W.ATTR_TYPE["FLOATS"], "strings": W.ATTR_TYPE["STRINGS"],
         "int": W.ATTR_TYPE["INT"], "float": W.ATTR_TYPE["FLOAT"], "string": W.ATTR_TYPE["STRING"]}


def judge_list(a, kind, name, exp_items, ordered_items):
    """a = decoded AttributeProto of the built model"""
    if a is None:
        return "missing", f"attribute {name} is not in the built node"
    if a["name"] != name or a["type"] != ATYPE[kind]:
        return "kind", f"attribute ({a['name']!r}, type {a['type']}), expected ({name!r}, type {ATYPE[kind]})"
    got = a[kind]
    want = expected_wire(kind, exp_items if exp_items is not None else ordered_items)
    if exp_items is None:  # unordered source (set): the same items in some order
        ok = sorted(got) == sorted(want)
    else:
        ok = got == want
    if not ok:
        return "items", f"{name} embedded as {got[:8]}{'…' if len(got) > 8 else ''} ({len(got)} items), handed over {want[:8]} ({len(want)} items)"
    return None


def judge_propagated(var, kind, exp_items):
    """Constant(value_ints/floats/strings): the propagated value is the 1-d int64 / float32 / str tensor of the items."""
    import numpy as np

    try:
        v = var._get_value()
    except Exception:  # noqa: BLE001  (not observable: not a verdict)
        return None
    want = {"ints": lambda: np.array([int(x) for x in exp_items], dtype=np.int64),
            "floats": lambda: np.array([f32_bits(float(x)) for x in exp_items], dtype=np.uint32).view(np.float32),
            "strings": lambda: np.array([str(x) for x in exp_items], dtype=np.str_)}[kind]()
    v = np.asarray(v)
    same = v.shape == (len(exp_items),) and (
        (kind == "strings" and v.dtype.kind == "U" and list(v) == list(want)) or
        (kind != "strings" and v.dtype == want.dtype and v.tobytes() == want.tobytes()))
    if not same:
        return "propagated", f"propagated value {v.dtype}{list(v.shape)} {v.tolist()[:8]}, handed over {list(exp_items)[:8]}"
    return None


def run_list_case(synth: Synth, row, rows_of_ctor, way, mutate=True):
    """-> None (ok) | ('skip', why) | (part, what).  part in missing/kind/items/capture/raises:<Exc>"""
    kind = LIST_KIND[row["cls"]]
    base = synth.find(row, rows_of_ctor, LIST_ITEMS[kind])
    if base is None:
        return ("skip", synth.base.get(("why", row["mod"], row["ctor"], row["param"]), "no building call found"))
    shape, alt, others, items, rec = base
    made = make_container(way, kind, items)
    if made is None:
        return ("skip", "way not applicable")
    obj, exp, mut = made
    try:
        outs, args = synth.call(row["mod"], row, shape, alt, {**others, row["param"]: obj}, rec)
    except Exception as e:  # noqa: BLE001
        return (f"raises:{type(e).__name__}", f"{row['ctor']}({row['param']}=<{way} of {items}>) raised {type(e).__name__}: {str(e)[:120]} "
                f"(the same items as a plain list are accepted)")
    if mutate and mut is not None:
        mut()
    try:
        a = find_attr(synth.build(outs, args), row["opcls"].lstrip("_"), row["name"])
    except Exception as e:  # noqa: BLE001
        return (f"raises:{type(e).__name__}", f"build after {row['ctor']}({row['param']}=<{way} of {items}>) raised {type(e).__name__}: {str(e)[:120]}")
    bad = judge_list(a, kind, row["name"], exp, items)
    if bad is None and row["ctor"] == "constant" and exp is not None:
        bad = judge_propagated(outs[0], kind, exp)
    if bad is None:
        return None
    part, what = bad
    if mutate and mut is not None and part in ("items", "missing", "propagated"):
        again = run_list_case(synth, row, rows_of_ctor, way, mutate=False)
        if again is None:
            return ("capture", f"{row['ctor']}({row['param']}=<{way} of {items}>): after the caller mutated its {way} source, {what}")
    return (part, f"{row['ctor']}({row['param']}=<{way} of {items}>): {what}")


# ------------------------------------------------------------------------ scalar attributes
def make_scalar(way, kind, v):
    import numpy as np

    if kind == "int":
        m = {"py": lambda: v, "np_int64": lambda: np.int64(v), "np_int32": lambda: np.int32(v), "np_int8": lambda: np.int8(v),
             "np_uint8": lambda: np.uint8(v) if v >= 0 else None, "bool": lambda: bool(v) if v in (0, 1) else None,
             "np_bool": lambda: np.bool_(v) if v in (0, 1) else None, "zero_d": lambda: np.array(v)}
        x = m[way]()
        return None if x is None else (x, int(v), way == "py")
    if kind == "float":
        m = {"py": lambda: float(v), "np_float32": lambda: np.float32(v), "np_float64": lambda: np.float64(v),
             "np_float16": lambda: np.float16(v), "py_int": lambda: 2, "bool": lambda: True, "zero_d": lambda: np.array(v)}
        x = m[way]()
        return x, f32_bits(float(x)), way in ("py", "py_int")
    m = {"py": lambda: v, "np_str": lambda: np.str_(v), "bytes": lambda: v.encode("utf-8")}
    x = m[way]()
    return x, v.encode("utf-8"), way == "py"


def run_scalar_case(synth: Synth, row, rows_of_ctor, way):
    kind = SCALAR_KIND[row["cls"]]
    cands = list(SCALARS[kind])
    d = row.get("default")
    if d not in (None, "None"):
        try:
            import ast as _ast

            dv = _ast.literal_eval(d)
            cands = [c for c in cands if c != dv] + [dv]
        except Exception:  # noqa: BLE001
            pass
    base = synth.find(row, rows_of_ctor, cands)
    if base is None:
        return ("skip", synth.base.get(("why", row["mod"], row["ctor"], row["param"]), "no building call found"))
    shape, alt, others, v, rec = base
    made = make_scalar(way, kind, v)
    if made is None:
        return ("skip", "way not applicable")
    x, want, must_accept = made
    desc = f"{row['ctor']}({row['param']}={x!r} [{type(x).__name__}])"
    try:
        outs, args = synth.call(row["mod"], row, shape, alt, {**others, row["param"]: x}, rec)
    except TypeError as e:
        if must_accept:
            return ("raises:TypeError", f"{desc} raised TypeError: {str(e)[:120]}")
        return None  # refused as a wrong kind: fine
    except Exception as e:  # noqa: BLE001
        if (way in ("py_int", "bool") and kind == "float") or way == "bytes":
            return None  # another value than the base one may be refused by shape inference; bytes are a debatable kind
        return (f"raises:{type(e).__name__}", f"{desc} raised {type(e).__name__}: {str(e)[:120]} (neither accepted nor TypeError)")
    try:
        a = find_attr(synth.build(outs, args), row["opcls"].lstrip("_"), row["name"])
    except Exception as e:  # noqa: BLE001
        return (f"raises:{type(e).__name__}", f"build after {desc} raised {type(e).__name__}: {str(e)[:120]}")
    if a is None:
        return ("missing", f"{desc}: attribute {row['name']} is not in the built node")
    if a["name"] != row["name"] or a["type"] != ATYPE[kind]:
        return ("kind", f"{desc}: attribute ({a['name']!r}, type {a['type']}), expected ({row['name']!r}, type {ATYPE[kind]})")
    got = {"int": a["i"], "float": a["f"], "string": a["s"]}[kind]
    if got != want:
        return ("value", f"{desc}: embedded {got!r}, expected {want!r}")
    return None


# ------------------------------------------------------------------------ the classes themselves
CLASS_ITEMS = {
    "ints": [[], [5], [3, -1, 2**63 - 1, -2**63], [2, 1, 3], list(range(40, 1064))],
    "floats": [[], [0.1, -0.0, 1e40], [0.5], [1.5, 0.25, 1e-45, 3.0e38]],
    "strings": [[], ["a", "ü", ""], ["b"], ["z", "a", "m", "日本"]],
}


def run_class_case(A, cname, form, way, items, mutate=True):
    """`AttrX(value, name)` / `AttrX.maybe(value, name)` on one way of handing the items over.
    -> None | ('skip', why) | (part, what)"""
    kind = LIST_KIND[cname]
    made = make_container(way, kind, items)
    if made is None:
        return ("skip", "way not applicable")
    obj, exp, mut = made
    cls = getattr(A, cname)
    desc = f"{cname}{'.maybe' if form == 'maybe' else ''}(<{way} of {str(items)[:60]}>)"
    try:
        a = cls(obj, "k") if form == "direct" else cls.maybe(obj, "k")
    except Exception as e:  # noqa: BLE001
        if way in ("ndarray", "ndarray_small", "npscalars") and isinstance(e, TypeError):
            return None  # numpy items may be refused as a wrong kind (e.g. values outside the C long range)
        return (f"raises:{type(e).__name__}", f"{desc} raised {type(e).__name__}: {str(e)[:120]}")
    if mutate and mut is not None:
        mut()
    try:
        p = W.attribute(a._to_onnx().SerializeToString())
    except Exception as e:  # noqa: BLE001
        return (f"raises:{type(e).__name__}", f"{desc}._to_onnx() raised {type(e).__name__}: {str(e)[:120]}")
    bad = judge_list(p, kind, "k", exp, items)
    if bad is None:
        return None
    part, what = bad
    if mutate and mut is not None and part == "items":
        if run_class_case(A, cname, form, way, items, mutate=False) is None:
            return ("capture", f"{desc}: after the caller mutated its {way} source, {what}")
    return (part, f"{desc}: {what}")


def run_tensors_case(A, form, way, mutate=True):
    """AttrTensors on iterables of arrays."""
    import numpy as np

    arrs = [np.array([1, 2], dtype=np.int16), np.array(["ü"]), np.array(2.5, dtype=np.float32)]
    src = list(arrs)
    obj = {"list": lambda: src, "tuple": lambda: tuple(src), "generator": lambda: (x for x in src), "iter": lambda: iter(src),
           "map": lambda: map(lambda x: x, src), "deque": lambda: collections.deque(src),
           "dict_values": lambda: dict(enumerate(src)).values(), "chain": lambda: itertools.chain(src[:1], src[1:])}.get(way)
    if obj is None:
        return ("skip", "way not applicable")
    desc = f"AttrTensors{'.maybe' if form == 'maybe' else ''}(<{way} of 3 arrays>)"
    try:
        o = obj()
        a = A.AttrTensors(o, "k") if form == "direct" else A.AttrTensors.maybe(o, "k")
    except Exception as e:  # noqa: BLE001
        return (f"raises:{type(e).__name__}", f"{desc} raised {type(e).__name__}: {str(e)[:120]}")
    if mutate:
        src.reverse()
        src.pop()
        arrs[0][0] = 9
    try:
        p = W.attribute(a._to_onnx().SerializeToString())
        got = [W.tensor(t) for t in p["tensors"]]
    except Exception as e:  # noqa: BLE001
        return (f"raises:{type(e).__name__}", f"{desc}._to_onnx() raised {type(e).__name__}: {str(e)[:120]}")
    want = [("int16", [2], [1, 2]), ("str", [1], [list("ü".encode())]), ("float32", [], [0x40200000])]
    seen = [(g["dtype"], g["dims"], g.get("words") if g["dtype"] != "str" else [list(s) for s in g.get("strs", [])]) for g in got]
    if p["type"] != W.ATTR_TYPE["TENSORS"] or seen != want:
        part = "items"
        if mutate and run_tensors_case(A, form, way, mutate=False) is None:
            part = "capture"
        return (part, f"{desc}: embedded {seen}, handed over {want}")
    return None


# ------------------------------------------------------------------------ dtype and tensor attributes
DTYPE_WAYS = ["type", "np_dtype", "name", "char", "builtin", "array_dtype"]
DTYPE_CANDS = ["float32", "int64", "float64", "int32", "bool", "float16"]


def run_dtype_case(synth: Synth, row, rows_of_ctor, way):
    """`cast(x, to=…)`, `random_normal(dtype=…)`, `eye_like(dtype=…)` …: every spelling of a numpy element type embeds the
    ONNX enum of that type."""
    import numpy as np

    base = synth.find(row, rows_of_ctor, [np.dtype(d).type for d in DTYPE_CANDS])
    if base is None:
        return ("skip", synth.base.get(("why", row["mod"], row["ctor"], row["param"]), "no building call found"))
    shape, alt, others, v, rec = base
    d = np.dtype(v)
    builtin = {"float64": float, "int64": int, "bool": bool}.get(d.name)
    x = {"type": d.type, "np_dtype": d, "name": d.name, "char": d.str, "builtin": builtin,
         "array_dtype": np.zeros(1, dtype=d).dtype}[way]
    if x is None:
        return ("skip", "way not applicable")
    desc = f"{row['ctor']}({row['param']}={x!r})"
    try:
        outs, args = synth.call(row["mod"], row, shape, alt, {**others, row["param"]: x}, rec)
        a = find_attr(synth.build(outs, args), row["opcls"].lstrip("_"), row["name"])
    except Exception as e:  # noqa: BLE001
        return (f"raises:{type(e).__name__}", f"{desc} raised {type(e).__name__}: {str(e)[:120]} (the numpy type itself is accepted)")
    want = W.ONNX_ENUM["bool" if d.name == "bool" else d.name]
    if a is None or a["name"] != row["name"] or a["type"] != W.ATTR_TYPE["INT"] or a["i"] != want:
        return ("value", f"{desc}: embedded {None if a is None else (a['name'], a['type'], a['i'])}, expected ({row['name']!r}, INT, {want} = ONNX {d.name})")
    return None


TENSOR_WAYS = ["array", "strided", "fortran", "readonly", "np_scalar", "bigendian"]


def _tensor_cands():
    import numpy as np

    return [np.array([1.5, -0.0, 2.5], dtype=np.float32), np.array([3, -1, 2], dtype=np.int64), np.array([1.5], dtype=np.float32),
            np.array([3], dtype=np.int64), np.array([1, 0, 2], dtype=np.uint8), np.array([1.5, 0.25, 2.5], dtype=np.float64),
            np.array(["a", "ü"]), np.array([1], dtype=np.int32)]


def run_tensor_case(synth: Synth, row, rows_of_ctor, way):
    """every tensor attribute of every constructor: layouts of the same array, and a mutation of the caller's array
    between the call and the build."""
    import numpy as np

    base = synth.find(row, rows_of_ctor, _tensor_cands())
    if base is None:
        return ("skip", synth.base.get(("why", row["mod"], row["ctor"], row["param"]), "no building call found"))
    shape, alt, others, v, rec = base
    ref = np.array(v)
    if way == "array":
        x = ref.copy()
    elif way == "strided":
        big = np.zeros(ref.size * 2, dtype=ref.dtype)
        big[::2] = ref
        x = big[::2]
    elif way == "fortran":
        x = np.asfortranarray(ref.copy())
    elif way == "readonly":
        x = ref.copy()
        x.setflags(write=False)
    elif way == "np_scalar":
        if ref.size != 1:
            return ("skip", "way not applicable")
        x = ref.reshape(())[()]
        ref = ref.reshape(())
    elif way == "bigendian":
        if ref.dtype.kind not in "iuf" or ref.dtype.itemsize == 1:
            return ("skip", "way not applicable")
        x = ref.astype(ref.dtype.newbyteorder(">"))
    else:
        raise ValueError(way)
    desc = f"{row['ctor']}({row['param']}=<{way} {ref.dtype}{list(ref.shape)}>)"
    try:
        outs, args = synth.call(row["mod"], row, shape, alt, {**others, row["param"]: x}, rec)
    except Exception as e:  # noqa: BLE001
        if way == "np_scalar":
            return None  # a 0-d tensor may be refused by the operator's shape inference
        return (f"raises:{type(e).__name__}", f"{desc} raised {type(e).__name__}: {str(e)[:120]} (the same values as a plain array are accepted)")
    mutated = False
    if isinstance(x, np.ndarray) and x.flags.writeable and x.size:
        x[...] = x[::-1].copy() if x.ndim == 1 and x.size > 1 else x
        x.flat[0] = "zz" if ref.dtype.kind == "U" else 7
        mutated = True
    try:
        a = find_attr(synth.build(outs, args), row["opcls"].lstrip("_"), row["name"])
    except Exception as e:  # noqa: BLE001
        return (f"raises:{type(e).__name__}", f"build after {desc} raised {type(e).__name__}: {str(e)[:120]}")
    if a is None or a["type"] != W.ATTR_TYPE["TENSOR"] or a["t"] is None:
        return ("kind", f"{desc}: attribute {None if a is None else (a['name'], a['type'])}, expected a TENSOR named {row['name']!r}")
    t = W.tensor(a["t"])
    if ref.dtype.kind == "U":
        want = ("str", list(ref.shape), [list(str(s).encode("utf-8")) for s in ref.ravel()])
        got = (t["dtype"], t["dims"], [list(s) for s in t.get("strs", [])])
    else:
        le = ref.astype(ref.dtype.newbyteorder("<")).ravel()
        want = (ref.dtype.name, list(ref.shape), [int(w) for w in le.view(f"<u{ref.dtype.itemsize}")])
        got = (t["dtype"], t["dims"], t.get("words"))
    if got != want:
        return ("capture" if mutated else "value", f"{desc}{' after the caller mutated its array' if mutated else ''}: embedded {got}, handed over {want}")
    return None


# ------------------------------------------------------------------------ mixed-opset programs (version adaptation)
NEWEST = {"": "v21", "ai.onnx.ml": "ml_v5"}


def _literal_default(row):
    import ast as _ast

    d = row.get("default")
    if d in (None, "None"):
        return None
    try:
        return _ast.literal_eval(d)
    except Exception:  # noqa: BLE001
        return None


def run_mixed_case(synth: Synth, row, rows_of_ctor, which):
    """The node comes from an OLDER opset module and sits next to a node of the newest module, so `spox.build` adapts it
    to the newer opset.  The attribute given at the call - equal to the ONNX schema default (`which == "default"`) or not
    (`"other"`) - must still be in the BUILT node under its ONNX name with its exact value, whenever the operator keeps
    an attribute of that name in the target opset."""
    import numpy as np

    mid = row["mod"]
    _, domain, version = MODULES[mid]
    newest = NEWEST[domain]
    if mid == newest or row["cls"] not in LIST_KIND and row["cls"] not in SCALAR_KIND and row["cls"] != "AttrDtype":
        return ("skip", "way not applicable")
    opname = row["opcls"].lstrip("_")
    target = _schema(opname, domain, MODULES[newest][2])
    if target is None or row["name"] not in target.attributes:
        return ("skip", "way not applicable")  # the operator has no attribute of that name in the target opset
    if row["cls"] in LIST_KIND:
        kind, cands = LIST_KIND[row["cls"]], LIST_ITEMS[LIST_KIND[row["cls"]]]
    elif row["cls"] == "AttrDtype":
        kind, cands = "dtype", [np.dtype(d).type for d in DTYPE_CANDS]
    else:
        kind = SCALAR_KIND[row["cls"]]
        dv = _literal_default(row)
        cands = [c for c in SCALARS[kind] if c != dv] + ([dv] if dv is not None else [])
    base = synth.find(row, rows_of_ctor, cands, known_rank=True)
    if base is None:
        return ("skip", "way not applicable")
    shape, alt, others, v, rec = base
    if which == "default":
        v = _literal_default(row)
        if v is None or kind in ("dtype",) or isinstance(v, (list, tuple)):
            return ("skip", "way not applicable")
    desc = f"{mid}.{row['ctor']}({row['param']}={v!r}) next to a {newest} node"
    try:
        outs, args = synth.call(mid, row, shape, alt, {**others, row["param"]: v}, rec)
        plain = find_attr(synth.build(outs, args), opname, row["name"])
    except Exception:  # noqa: BLE001  (this value does not build on its own: nothing to compare)
        return ("skip", "way not applicable")
    if plain is None:
        return ("skip", "way not applicable")
    try:
        a = find_attr(synth.build(outs, args, mixed_with=newest), opname, row["name"])
        g = W.graph_parts(W.graph_of_model(synth.build(outs, args, mixed_with=newest)))
    except Exception as e:  # noqa: BLE001  the adaptation itself fails: not a statement about the attribute (C10 judges built models)
        return ("skip", f"mixed build raises {type(e).__name__}")
    if not any(n["op_type"] == opname for n in g["nodes"]):
        return ("skip", "way not applicable")  # the converter replaced the operator
    if a is None:
        return ("missing", f"{desc}: attribute {row['name']!r} is not in the built {opname} node (alone, the node has it)")
    if kind in ("ints", "floats", "strings"):
        bad = judge_list(a, kind, row["name"], list(v), list(v))
        return None if bad is None else (bad[0], f"{desc}: {bad[1]}")
    if kind == "dtype":
        want, got, ty = W.ONNX_ENUM[np.dtype(v).name], a["i"], W.ATTR_TYPE["INT"]
    else:
        want = {"int": lambda: int(v), "float": lambda: f32_bits(float(v)), "string": lambda: v.encode("utf-8")}[kind]()
        got, ty = {"int": a["i"], "float": a["f"], "string": a["s"]}[kind], ATYPE[kind]
    if kind == "string" and RENAMED_VALUES.get((opname, row["name"]), {}).get(v) == got.decode("utf-8", "replace"):
        return None  # the ONNX version converter's documented renaming of an enumeration value
    if a["type"] != ty or got != want:
        return ("value", f"{desc}: embedded ({a['type']}, {got!r}), expected ({ty}, {want!r})")
    return None


# enumeration values the ONNX specification renamed between opset versions (GridSample-20)
RENAMED_VALUES = {("GridSample", "mode"): {"bilinear": "linear", "bicubic": "cubic"}}


# ------------------------------------------------------------------------ variadic inputs (a caller-owned list of Vars)
VARIADIC_MUTS = ["append", "setitem", "clear", "insert0", "pop", "reverse", "extend", "delitem", "iadd"]


def _variadic_builder(mod, ctor):
    """-> (make_list(pool) -> list of Vars, call(list) -> outputs, op_type).  pool: f32 (3,3) arguments p0..p3."""
    import numpy as np

    op = mod
    two = lambda pool: [pool[0], pool[1]]  # noqa: E731
    simple = {"max": "Max", "mean": "Mean", "min": "Min", "sum": "Sum"}
    if ctor in simple:
        return two, lambda l: [getattr(op, ctor)(l)], simple[ctor]
    if ctor == "concat":
        return two, lambda l: [op.concat(l, axis=0)], "Concat"
    if ctor == "einsum":
        return two, lambda l: [op.einsum(l, equation="ij,jk->ik")], "Einsum"
    if ctor == "sequence_construct":
        return two, lambda l: [op.sequence_length(op.sequence_construct(l))], "SequenceConstruct"
    if ctor == "feature_vectorizer":
        import spox.opset.ai.onnx.v17 as op17

        return two, lambda l: [op17.shape(op.feature_vectorizer(l, inputdimensions=[3, 3]))], "FeatureVectorizer"
    if ctor == "loop":
        def call(l):
            return list(op.loop(op.const(np.array(2, np.int64)), None, v_initial=l,
                                body=lambda i, c, *xs: [op.const(np.array(True))] + [op.add(x, x) for x in xs]))
        return two, call, "Loop"
    if ctor == "scan":
        def call(l):
            return list(op.scan(l, body=lambda st, x: [op.add(st, x), op.identity(x)], num_scan_inputs=1))
        return (lambda pool: [pool[4], pool[0]]), call, "Scan"
    if ctor == "sequence_map":
        def call(l):
            sq = op.sequence_construct([l[0], l[0]]) if l else None
            return list(op.sequence_map(sq, l, body=lambda x, *ys: [op.add(x, ys[0])]))
        return two, call, "SequenceMap"
    return None


def run_variadic_case(synth: Synth, vrow, mut):
    """`ctor(<list of Vars>)`, then the caller mutates its list (append / item assignment / clear / ...), then build: the
    node's inputs in the built model are the Vars the list held at the call (compared with an untouched twin)."""
    import numpy as np

    import spox
    from spox import Tensor, argument

    mod = synth.module(vrow["mod"])
    b = _variadic_builder(mod, vrow["ctor"])
    if b is None:
        return ("skip", f"no builder for the variadic constructor {vrow['ctor']}")
    make, call, op_type = b

    def once(mutate):
        pool = [argument(Tensor(np.float32, (3, 3))) for _ in range(4)] + [argument(Tensor(np.float32, (3,)))]
        lst = make(pool)
        outs = [synth._shaped(o, mod) for o in call(lst)]
        if mutate:
            if mut == "append":
                lst.append(pool[2])
            elif mut == "setitem":
                lst[0] = pool[3]
            elif mut == "clear":
                lst.clear()
            elif mut == "insert0":
                lst.insert(0, pool[2])
            elif mut == "pop":
                lst.pop()
            elif mut == "reverse":
                lst.reverse()
            elif mut == "extend":
                lst.extend([pool[2], pool[3]])
            elif mut == "delitem":
                del lst[0]
            elif mut == "iadd":
                lst += [pool[3]]
        mb = spox.build({f"p{i}": a for i, a in enumerate(pool)}, {f"o{i}": o for i, o in enumerate(outs)}).SerializeToString()
        g = W.graph_parts(W.graph_of_model(mb))
        node = next((n for n in g["nodes"] if n["op_type"] == op_type), None)
        return None if node is None else node["inputs"]

    desc = f"{vrow['mod']}.{vrow['ctor']}({vrow['param']}=<list of Vars>), then list.{mut}"
    try:
        ref = once(False)
    except Exception as e:  # noqa: BLE001
        return ("skip", f"variadic call does not build: {type(e).__name__}: {str(e)[:80]}")
    if ref is None:
        return ("skip", f"no {op_type} node in the built model")
    try:
        got = once(True)
    except Exception as e:  # noqa: BLE001
        return (f"raises:{type(e).__name__}", f"{desc}: build raised {type(e).__name__}: {str(e)[:120]} (without the mutation it builds)")
    if got != ref:
        return ("model", f"{desc}: the built {op_type} node has inputs {got}, at the call the list held {ref}")
    return None
