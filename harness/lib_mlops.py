"""Operator tables shared by the C06 correspondence and oracle.

For every operator whose `infer_output_types` spox writes by hand (ai.onnx.ml v3 operators, Compress,
the Loop patch) plus OneHot (typed by ONNX, checked by the oracle only) this module knows

  * the *attribute summary* the inference and the runtime shape depend on (small JSON object with
    fields a/b/c, the same object the Lean driver receives),
  * how to turn a summary into concrete attribute values (for the real constructor and for a raw
    ONNX node run under onnxruntime),
  * which element types / shapes are explored.

JSON encodings used everywhere in C06:
  type  : null (Var.type is None) | {"e": "f32", "s": null | [dim, ...]}     dim: int | "N" | null
  value : {"e": "f32", "s": [int, ...]}                                        (a runtime tensor)
"""
from __future__ import annotations

import itertools
from typing import Any, Optional

import numpy as np

ELEM = {
    "f32": np.float32,
    "f64": np.float64,
    "i32": np.int32,
    "i64": np.int64,
    "bool": np.bool_,
    "str": np.str_,
}


def elem_name(dtype) -> str:
    d = np.dtype(dtype)
    if d.kind in ("O", "U", "S", "T"):
        return "str"
    if d.kind == "b":
        return "bool"
    key = {("f", 4): "f32", ("f", 8): "f64", ("i", 4): "i32", ("i", 8): "i64"}.get((d.kind, d.itemsize))
    return key or d.name


# ----------------------------------------------------------------------------- types <-> JSON
def ty_to_json(t) -> Any:
    from spox import Tensor

    if t is None:
        return None
    if not isinstance(t, Tensor):
        return {"other": str(t)}
    s = t.shape
    return {"e": elem_name(t.dtype), "s": None if s is None else list(s)}


def ty_from_json(j):
    from spox import Tensor

    if j is None:
        return None
    return Tensor(ELEM[j["e"]], None if j["s"] is None else tuple(j["s"]))


def mk_var(j):
    """A fresh argument Var of the given type; `null` gives an untyped Var."""
    from spox import argument
    from spox import Tensor

    import warnings

    if j is None:
        v = argument(Tensor(np.float32, ()))
        v.type = None
        return v
    with warnings.catch_warnings():
        warnings.simplefilter("ignore")
        return argument(ty_from_json(j))


def val_of(arr) -> dict:
    a = np.asarray(arr)
    return {"e": elem_name(a.dtype), "s": list(a.shape)}


def conforms(val: dict, ty) -> Optional[str]:
    """The property's own words: None if the runtime value conforms to the reported type, else the
    kind of disagreement ("dtype", "rank", "dim<i>")."""
    if ty is None:
        return None
    if "other" in ty:
        return None
    if val["e"] != ty["e"]:
        return "dtype"
    if ty["s"] is None:
        return None
    if len(ty["s"]) != len(val["s"]):
        return "rank"
    for i, (d, n) in enumerate(zip(ty["s"], val["s"])):
        if isinstance(d, int) and d != n:
            return f"dim{i}"
    return None


# ----------------------------------------------------------------------------- shape universes
DIMS = [0, 1, 2, 3, "N", None]


def shapes_upto(max_rank: int, dims=DIMS):
    out: list = [None]
    for r in range(max_rank + 1):
        out.extend(list(p) for p in itertools.product(dims, repeat=r))
    return out


def instantiations(shape, sizes):
    """All concrete shapes of a (ranked) symbolic shape; every unknown dim ranges over `sizes`,
    equal names get equal sizes, anonymous dims are independent."""
    keys = []
    for i, d in enumerate(shape):
        if isinstance(d, int):
            keys.append(None)
        elif isinstance(d, str):
            keys.append(("s", d))
        else:
            keys.append(("a", i))
    uniq = list(dict.fromkeys(k for k in keys if k is not None))
    for combo in itertools.product(sizes, repeat=len(uniq)):
        m = dict(zip(uniq, combo))
        yield [d if k is None else m[k] for d, k in zip(shape, keys)]


# ----------------------------------------------------------------------------- operators
class Op:
    name: str
    domain = "ai.onnx.ml"
    inputs = ["X"]
    outputs = ["Y"]
    in_elems = [["f32"]]  # per input: element types explored by the correspondence
    max_rank = [3]  # per input

    def ctor(self):
        raise NotImplementedError

    def attr_classes(self) -> list[dict]:
        return [{}]

    def kwargs(self, a: dict, shapes: Optional[list] = None) -> dict:
        """Concrete attribute values for summary `a`; `shapes` (concrete input shapes, or None) lets the
        runtime cases choose lengths that make the node executable."""
        return {}

    def feed(self, rng, vals: list[dict]) -> list[np.ndarray]:
        return [rand_array(rng, v) for v in vals]


def rand_array(rng, v: dict, lo=0, hi=3) -> np.ndarray:
    n = int(np.prod(v["s"])) if v["s"] else 1
    e = v["e"]
    if e == "bool":
        data = [rng.random() < 0.5 for _ in range(n)]
        return np.array(data, dtype=np.bool_).reshape(v["s"])
    if e == "str":
        data = [rng.choice(["a", "b", "c", "zz"]) for _ in range(n)]
        return np.array(data, dtype=object).reshape(v["s"])
    data = [rng.randrange(lo, hi) for _ in range(n)]
    return np.array(data, dtype=ELEM[e]).reshape(v["s"])


def _ml():
    import spox.opset.ai.onnx.ml.v3 as ml

    return ml


def _op17():
    import spox.opset.ai.onnx.v17 as op

    return op


def _last(shapes, i=0, default=1):
    if shapes is None or shapes[i] is None or len(shapes[i]) == 0:
        return default
    return shapes[i][-1]


class ArrayFeatureExtractor(Op):
    name = "ArrayFeatureExtractor"
    inputs = ["X", "Y"]
    outputs = ["Z"]
    in_elems = [["f32", "i64", "str"], ["i64"]]
    max_rank = [3, 3]

    def ctor(self):
        return _ml().array_feature_extractor

    def feed(self, rng, vals):
        x = rand_array(rng, vals[0])
        c = vals[0]["s"][-1] if vals[0]["s"] else 1
        n = int(np.prod(vals[1]["s"])) if vals[1]["s"] else 1
        y = np.array([rng.randrange(0, max(c, 1)) for _ in range(n)], dtype=np.int64).reshape(vals[1]["s"])
        return [x, y]


class Binarizer(Op):
    name = "Binarizer"
    in_elems = [["f32", "f64", "i64", "i32"]]

    def ctor(self):
        return _ml().binarizer

    def kwargs(self, a, shapes=None):
        return {"threshold": 0.5}


class CategoryMapper(Op):
    name = "CategoryMapper"
    in_elems = [["i64", "str", "f32"]]

    def ctor(self):
        return _ml().category_mapper

    def attr_classes(self):
        return [{"a": 2, "b": 2}, {"a": 0, "b": 0}, {"a": 2, "b": 3}, {"a": None, "b": 2}, {"a": 2, "b": None}, {"a": None, "b": None}]

    def kwargs(self, a, shapes=None):
        kw = {}
        if a.get("a") is not None:
            kw["cats_int64s"] = list(range(a["a"]))
        if a.get("b") is not None:
            kw["cats_strings"] = ["abcdefgh"[i] for i in range(a["b"])]
        return kw


class Imputer(Op):
    name = "Imputer"
    in_elems = [["f32", "i64", "f64"]]

    def ctor(self):
        return _ml().imputer

    def attr_classes(self):
        return [
            {"a": 1, "b": None}, {"a": 2, "b": None}, {"a": 3, "b": None}, {"a": 0, "b": None},
            {"a": None, "b": 1}, {"a": None, "b": 2}, {"a": None, "b": 3},
            {"a": 2, "b": 2}, {"a": None, "b": None},
        ]

    def kwargs(self, a, shapes=None):
        kw = {}
        if a.get("a") is not None:
            kw["imputed_value_floats"] = [0.5] * a["a"]
            kw["replaced_value_float"] = 1.0
        if a.get("b") is not None:
            kw["imputed_value_int64s"] = [7] * a["b"]
            kw["replaced_value_int64"] = 1
        return kw


class LinearRegressor(Op):
    name = "LinearRegressor"
    in_elems = [["f32", "f64", "i64"]]

    def ctor(self):
        return _ml().linear_regressor

    def attr_classes(self):
        return [{"a": 1}, {"a": 2}, {"a": 3}]

    def kwargs(self, a, shapes=None):
        c = _last(shapes)
        t = a["a"]
        return {"targets": t, "coefficients": [0.5] * (t * c), "intercepts": [0.25] * t}


class Normalizer(Op):
    name = "Normalizer"
    in_elems = [["f32", "f64", "i64", "i32"]]

    def ctor(self):
        return _ml().normalizer

    def attr_classes(self):
        return [{"a": 0}, {"a": 1}, {"a": 2}, {"a": 3}]

    def kwargs(self, a, shapes=None):
        return {"norm": ["MAX", "L1", "L2", "L3"][a["a"]]}


class OneHotEncoder(Op):
    name = "OneHotEncoder"
    in_elems = [["i64", "str", "f32"]]

    def ctor(self):
        return _ml().one_hot_encoder

    def attr_classes(self):
        return [{"a": 3, "b": None}, {"a": None, "b": 2}, {"a": 1, "b": None}, {"a": 2, "b": 3}, {"a": 0, "b": None}, {"a": None, "b": None}]

    def kwargs(self, a, shapes=None):
        kw = {"zeros": 1}
        if a.get("a") is not None:
            kw["cats_int64s"] = list(range(a["a"]))
        if a.get("b") is not None:
            kw["cats_strings"] = ["abcdefgh"[i] for i in range(a["b"])]
        return kw


class Scaler(Op):
    name = "Scaler"
    in_elems = [["f32", "f64", "i64", "i32"]]

    def ctor(self):
        return _ml().scaler

    def attr_classes(self):
        return [{"a": 1, "b": 1}, {"a": 2, "b": 2}, {"a": 3, "b": 3}, {"a": 1, "b": 3}, {"a": 2, "b": 1},
                {"a": 0, "b": 0}, {"a": None, "b": 1}, {"a": 1, "b": None}]

    def kwargs(self, a, shapes=None):
        kw = {}
        if a.get("a") is not None:
            kw["scale"] = [2.0] * a["a"]
        if a.get("b") is not None:
            kw["offset"] = [0.5] * a["b"]
        return kw


def _tree_nodes():
    return dict(
        nodes_falsenodeids=[2, 0, 0],
        nodes_featureids=[0, 0, 0],
        nodes_hitrates=[1.0, 1.0, 1.0],
        nodes_missing_value_tracks_true=[0, 0, 0],
        nodes_modes=["BRANCH_LEQ", "LEAF", "LEAF"],
        nodes_nodeids=[0, 1, 2],
        nodes_treeids=[0, 0, 0],
        nodes_truenodeids=[1, 0, 0],
        nodes_values=[0.5, 0.0, 0.0],
        post_transform="NONE",
    )


class TreeEnsembleClassifier(Op):
    name = "TreeEnsembleClassifier"
    outputs = ["Y", "Z"]
    in_elems = [["f32", "f64", "i64"]]

    def ctor(self):
        return _ml().tree_ensemble_classifier

    def attr_classes(self):
        # a = len(class_ids), b = len(classlabels_strings), c = len(classlabels_int64s)
        return [
            {"a": 2, "b": None, "c": 2}, {"a": 3, "b": None, "c": 2}, {"a": 2, "b": None, "c": 3},
            {"a": 3, "b": 3, "c": None}, {"a": 4, "b": 2, "c": None}, {"a": 2, "b": 2, "c": 2},
            {"a": None, "b": None, "c": 2}, {"a": 2, "b": None, "c": None},
        ]

    def kwargs(self, a, shapes=None):
        kw = _tree_nodes()
        k = a.get("b") if a.get("b") is not None else a.get("c")
        k = k or 1
        if a.get("a") is not None:
            n = a["a"]
            kw.update(
                class_ids=[j % k for j in range(n)],
                class_nodeids=[1 + (j % 2) for j in range(n)],
                class_treeids=[0] * n,
                class_weights=[1.0] * n,
            )
        if a.get("b") is not None:
            kw["classlabels_strings"] = ["abcdefgh"[i] for i in range(a["b"])]
        if a.get("c") is not None:
            kw["classlabels_int64s"] = list(range(a["c"]))
        return kw


class TreeEnsembleRegressor(Op):
    name = "TreeEnsembleRegressor"
    in_elems = [["f32", "f64", "i64"]]

    def ctor(self):
        return _ml().tree_ensemble_regressor

    def attr_classes(self):
        return [{"a": 1}, {"a": 2}, {"a": 3}, {"a": None}]

    def kwargs(self, a, shapes=None):
        kw = _tree_nodes()
        t = a.get("a")
        n = t if t else 1
        kw.update(
            target_ids=[j % n for j in range(2 * n)],
            target_nodeids=[1 + (j % 2) for j in range(2 * n)],
            target_treeids=[0] * (2 * n),
            target_weights=[1.0] * (2 * n),
        )
        if t is not None:
            kw["n_targets"] = t
        return kw


class Compress(Op):
    name = "Compress"
    domain = ""
    inputs = ["input", "condition"]
    outputs = ["output"]
    in_elems = [["f32", "i64"], ["bool", "i64"]]
    max_rank = [3, 2]

    def ctor(self):
        return _op17().compress

    def attr_classes(self):
        return [{"a": None}, {"a": 0}, {"a": 1}, {"a": 2}, {"a": -1}, {"a": -2}, {"a": -3}, {"a": 3}, {"a": -4}]

    def kwargs(self, a, shapes=None):
        return {} if a.get("a") is None else {"axis": a["a"]}

    def feed(self, rng, vals):
        # the condition always drops the first entry, so the compressed dim differs from the input's
        x = rand_array(rng, vals[0])
        c = rand_array(rng, vals[1])
        if vals[1]["e"] == "bool" and c.size:
            c.reshape(-1)[0] = False
        return [x, c]


class OneHot(Op):
    """Typed by ONNX (no override in the pinned tree): only the oracle and the override table use it."""

    name = "OneHot"
    domain = ""
    inputs = ["indices", "depth", "values"]
    outputs = ["output"]
    in_elems = [["i64"], ["i64"], ["f32"]]
    max_rank = [2, 0, 1]

    def ctor(self):
        return _op17().one_hot

    def attr_classes(self):
        return [{"a": -1}, {"a": 0}, {"a": 1}, {"a": -2}, {"a": -3}, {"a": 2}]

    def kwargs(self, a, shapes=None):
        return {"axis": a["a"]}

    def feed(self, rng, vals):
        idx = rand_array(rng, vals[0])
        depth = np.full(vals[1]["s"], rng.choice([1, 2, 4]), dtype=np.int64)
        values = rand_array(rng, vals[2]) if vals[2]["s"] != [2] else np.array([0.0, 1.0], dtype=np.float32)
        return [idx, depth, values]


OPS: dict[str, Op] = {
    o.name: o
    for o in [
        ArrayFeatureExtractor(), Binarizer(), CategoryMapper(), Imputer(), LinearRegressor(), Normalizer(),
        OneHotEncoder(), Scaler(), TreeEnsembleClassifier(), TreeEnsembleRegressor(), Compress(), OneHot(),
    ]
}
MODELLED = [n for n in OPS if n != "OneHot"]


# ----------------------------------------------------------------------------- the real inference
def real_infer(op: Op, attrs: dict, in_types: list) -> dict:
    """Call the real constructor; canonical result {"ok": [type|null, ...]} or {"err": ExceptionClass}."""
    import warnings

    try:
        vs = [mk_var(t) for t in in_types]
        with warnings.catch_warnings():
            warnings.simplefilter("ignore")
            out = op.ctor()(*vs, **op.kwargs(attrs))
        outs = list(out) if isinstance(out, (tuple, list)) else [out]
        return {"ok": [ty_to_json(o.type) for o in outs]}
    except Exception as e:  # noqa: BLE001
        return {"err": type(e).__name__}


# ----------------------------------------------------------------------------- raw ONNX node under ORT
_SESS: dict = {}


def _np_to_onnx_elem(e: str) -> int:
    import onnx

    return {
        "f32": onnx.TensorProto.FLOAT, "f64": onnx.TensorProto.DOUBLE, "i32": onnx.TensorProto.INT32,
        "i64": onnx.TensorProto.INT64, "bool": onnx.TensorProto.BOOL, "str": onnx.TensorProto.STRING,
    }[e]


def raw_session(op: Op, kwargs: dict, elems: list[str], ranks: list[int]):
    """An onnxruntime session over ONE raw node (made with onnx.helper, no spox involved) whose inputs
    declare only element type and rank, and whose outputs declare nothing."""
    import onnx
    import onnxruntime as ort

    key = (op.name, repr(sorted(kwargs.items())), tuple(elems), tuple(ranks))
    if key in _SESS:
        return _SESS[key]
    try:
        node = onnx.helper.make_node(op.name, op.inputs, op.outputs, domain=op.domain, **kwargs)
    except ValueError as e:  # e.g. an empty list attribute: onnx.helper cannot guess its type
        _SESS[key] = ("load-error", str(e)[:200])
        return _SESS[key]
    ins = [
        onnx.helper.make_tensor_value_info(n, _np_to_onnx_elem(e), [f"d_{n}_{i}" for i in range(r)])
        for n, e, r in zip(op.inputs, elems, ranks)
    ]
    outs = [onnx.helper.make_empty_tensor_value_info(n) for n in op.outputs]
    g = onnx.helper.make_graph([node], "g", ins, outs)
    m = onnx.helper.make_model(
        g, opset_imports=[onnx.helper.make_operatorsetid("", 17), onnx.helper.make_operatorsetid("ai.onnx.ml", 3)], ir_version=8
    )
    try:
        so = ort.SessionOptions()
        so.log_severity_level = 4
        so.intra_op_num_threads = 1
        so.inter_op_num_threads = 1
        sess = ort.InferenceSession(m.SerializeToString(), so, providers=["CPUExecutionProvider"])
    except Exception as e:  # noqa: BLE001
        sess = ("load-error", str(e)[:200])
    if len(_SESS) > 4000:
        _SESS.clear()
    _SESS[key] = sess
    return sess


def raw_run(op: Op, attrs: dict, vals: list[dict], rng) -> Optional[list[dict]]:
    """Runtime element type / shape of every output of the raw node on inputs of the given types, or
    None when onnxruntime refuses the node or the inputs."""
    kw = op.kwargs(attrs, [v["s"] for v in vals])
    sess = raw_session(op, kw, [v["e"] for v in vals], [len(v["s"]) for v in vals])
    if isinstance(sess, tuple):
        return None
    feeds = dict(zip(op.inputs, op.feed(rng, vals)))
    try:
        res = sess.run(None, feeds)
    except Exception:  # noqa: BLE001
        return None
    return [val_of(r) for r in res]
