"""onnxruntime in a child process (C01, round 8): a native crash of onnxruntime on a model (abort, segfault) must
become a per-case result, never the end of the check.

Parent side: `RemoteOrt.load(model_bytes)` -> ("ok", handle) | ("load-err", msg); `RemoteOrt.run(handle, feeds)` ->
("ok", [arrays]) | ("run-err", msg).  A worker that dies is restarted; the request that killed it answers
`load-err` / `run-err` with "onnxruntime crashed (exit code …)".  Protocol: length-prefixed pickles over the child's
stdin / stdout.  Worker side: `python -m harness.lib_ort_worker` keeps the last few sessions.
"""
import os
import pickle
import struct
import subprocess
import sys


def _send(f, obj):
    data = pickle.dumps(obj, protocol=pickle.HIGHEST_PROTOCOL)
    f.write(struct.pack("<Q", len(data)))
    f.write(data)
    f.flush()


def _recv(f):
    head = f.read(8)
    if len(head) < 8:
        raise EOFError
    (n,) = struct.unpack("<Q", head)
    data = f.read(n)
    if len(data) < n:
        raise EOFError
    return pickle.loads(data)


class RemoteOrt:
    def __init__(self):
        self.proc = None
        self.next_id = 0
        self.crashes = 0

    def _start(self):
        env = dict(os.environ)
        root = os.path.dirname(os.path.dirname(os.path.abspath(__file__)))
        env["PYTHONPATH"] = root + os.pathsep + env.get("PYTHONPATH", "")
        self.proc = subprocess.Popen([sys.executable, "-m", "harness.lib_ort_worker"], stdin=subprocess.PIPE,
                                     stdout=subprocess.PIPE, stderr=subprocess.DEVNULL, env=env, cwd=root)

    def _ask(self, req):
        for attempt in (0, 1):
            if self.proc is None or self.proc.poll() is not None:
                self._start()
            try:
                _send(self.proc.stdin, req)
                return _recv(self.proc.stdout)
            except (EOFError, BrokenPipeError, OSError):
                code = self.proc.poll()
                if code is None:
                    try:
                        self.proc.kill()
                    except OSError:
                        pass
                    code = self.proc.wait()
                self.proc = None
                self.crashes += 1
                return ("crash", f"onnxruntime crashed (worker exit code {code})")
        return ("crash", "onnxruntime worker could not be started")

    def load(self, model_bytes):
        self.next_id += 1
        h = (self.next_id, model_bytes)
        r = self._ask(("load", h[0], model_bytes))
        if r[0] == "ok":
            return "ok", h
        return "load-err", r[1]

    def run(self, h, feeds):
        r = self._ask(("run", h[0], h[1], feeds))
        if r[0] == "ok":
            return "ok", r[1]
        return "run-err", r[1]

    def close(self):
        if self.proc is not None and self.proc.poll() is None:
            try:
                self.proc.stdin.close()
                self.proc.wait(timeout=5)
            except Exception:  # noqa: BLE001
                self.proc.kill()
        self.proc = None


def _worker():
    import onnxruntime as ort

    fin, fout = sys.stdin.buffer, sys.stdout.buffer
    sessions: dict = {}

    def make(model_bytes):
        so = ort.SessionOptions()
        so.graph_optimization_level = ort.GraphOptimizationLevel.ORT_DISABLE_ALL
        so.log_severity_level = 4
        so.intra_op_num_threads = 1
        so.inter_op_num_threads = 1
        return ort.InferenceSession(model_bytes, so, providers=["CPUExecutionProvider"])

    while True:
        try:
            req = _recv(fin)
        except EOFError:
            return
        try:
            if req[0] == "load":
                sessions[req[1]] = make(req[2])
                while len(sessions) > 6:
                    sessions.pop(next(iter(sessions)))
                _send(fout, ("ok",))
            else:
                sess = sessions.get(req[1])
                if sess is None:
                    sess = sessions[req[1]] = make(req[2])
                _send(fout, ("ok", sess.run(None, req[3])))
        except Exception as e:  # noqa: BLE001
            _send(fout, ("err", f"{type(e).__name__}: {str(e)[:300]}"))


if __name__ == "__main__":
    _worker()
