"""Histories of constructions, builds (successful and failing) and inline calls over a shared pool
of Vars, with snapshots of every Var and every passed-in ModelProto around each operation (C12).

A history is a list of abstract operations over an abstract program of `lib_front` (so it can be
re-run in a fresh interpreter):
  {"op": "build", "req": {...}}                          spox.build (any request, may fail)
  {"op": "construct", "k": "add"|"mul"|"neg"|"lift", "a": id, "b": id}    new Var, id = next free
  {"op": "inline", "model": k, "x": id, "how": "kw"|"pos"|"missing"|"unknown"}   inline(models[k])(…)
  {"op": "renames", "kw": [[key, id]], "raises": bool}   the context manager on its own
  {"op": "build_new", "outs": [ids], "drop": bool}        build Vars constructed during the history (twice);
                                                          the same request later in the history must give the same bytes
                                                          optional "names": {"ins": [...], "outs": [...], "perm": [...]}:
                                                          the same Vars under other input/output names, inputs listed in
                                                          another order (the same objects, differently named neighbours)
  {"op": "edit_model", "model": k, "how": "weights"|"op"}  the CALLER edits a model it passed to inline
                                                          earlier, in place, keeping its byte size
  construct kinds "untyped"/"partial": a user-defined operator whose output has no type / no rank
  inline "how": also "bad-second" (model 2 with a wrongly typed second argument: fails after the first was seen)
  construct kinds "id19"/"id21": Identity of opset 19 / 21 (forces the model's default opset up)
Nothing here uses the Lean model.
"""
from __future__ import annotations

import hashlib
import random
import warnings

import numpy as np

from harness import lib_front as lf

N_MODELS = 4


def inline_model(k: int):
    """Small hand-made ONNX models (not built by spox) with symbolic dims, value_info, initializers."""
    import onnx
    from onnx import TensorProto as T
    from onnx import helper as h

    if k == 0:
        # z = x + sum(w); w is an input with a default (initializer), symbolic dim N
        nodes = [h.make_node("ReduceSum", ["w"], ["s"], keepdims=0, name="rs"),
                 h.make_node("Add", ["x", "s"], ["z"], name="plus")]
        g = h.make_graph(
            nodes, "with_default",
            [h.make_tensor_value_info("x", T.FLOAT, []), h.make_tensor_value_info("w", T.FLOAT, ["N"])],
            [h.make_tensor_value_info("z", T.FLOAT, [])],
            initializer=[h.make_tensor("w", T.FLOAT, [2], [1.0, 2.0])],
            value_info=[h.make_tensor_value_info("s", T.FLOAT, [])],
        )
    elif k == 1:
        # z = (x * c) reshaped through a symbolic-dim intermediate; c a plain initializer
        nodes = [h.make_node("Mul", ["x", "c"], ["t"], name="times"),
                 h.make_node("Unsqueeze", ["t", "ax"], ["u"], name="unsq"),
                 h.make_node("ReduceSum", ["u"], ["z"], keepdims=0, name="rs")]
        g = h.make_graph(
            nodes, "my graph name",
            [h.make_tensor_value_info("x", T.FLOAT, [])],
            [h.make_tensor_value_info("z", T.FLOAT, [])],
            initializer=[h.make_tensor("c", T.FLOAT, [], [3.0]), h.make_tensor("ax", T.INT64, [1], [0])],
            value_info=[h.make_tensor_value_info("u", T.FLOAT, ["batch"])],
        )
        g.doc_string = "a doc string"
    elif k == 3:
        # an opset-10 model in attribute style (Unsqueeze axes, Pad pads/value, ReduceSum axes): converting it to the
        # opset of the surrounding build turns the attributes into inputs and makes the converter introduce graph
        # initializers — `adapt_inline` rewrites the *converted copy*; neither the caller's model nor the one kept
        # by the `_Inline` node may change, and every later build must give the same bytes
        nodes = [h.make_node("Unsqueeze", ["x"], ["u"], axes=[0], name="unsq"),
                 h.make_node("Pad", ["u"], ["p"], pads=[1, 1], mode="constant", value=0.0, name="pad"),
                 h.make_node("ReduceSum", ["p"], ["z"], axes=[0], keepdims=0, name="rs")]
        g = h.make_graph(nodes, "pad10", [h.make_tensor_value_info("x", T.FLOAT, [])],
                         [h.make_tensor_value_info("z", T.FLOAT, [])])
    else:
        # two outputs, input with a symbolic dim
        nodes = [h.make_node("Neg", ["x"], ["a"], name="neg"),
                 h.make_node("ReduceSum", ["v"], ["r"], keepdims=0, name="rs"),
                 h.make_node("Add", ["a", "r"], ["b"], name="plus")]
        g = h.make_graph(
            nodes, "two_out",
            [h.make_tensor_value_info("x", T.FLOAT, []), h.make_tensor_value_info("v", T.FLOAT, ["M", 2])],
            [h.make_tensor_value_info("a", T.FLOAT, []), h.make_tensor_value_info("b", T.FLOAT, [])],
            initializer=[h.make_tensor("v", T.FLOAT, [1, 2], [1.0, 1.0])],
        )
    m = h.make_model(g, opset_imports=[h.make_opsetid("", {1: 15, 3: 10}.get(k, 17))], ir_version=5 if k == 3 else 8, producer_name="verif")
    m.doc_string = "model doc"
    onnx.checker.check_model(m)
    return m


def sha(model) -> str:
    return hashlib.sha1(model.SerializeToString(deterministic=True)).hexdigest()


def get_manager():
    """The private context manager, or None if this tree has no such function (then the facet is skipped)."""
    try:
        from spox._public import _temporary_renames

        return _temporary_renames
    except Exception:  # noqa: BLE001
        return None


def _freeze(x):
    """A comparable stand-in for an attribute value of a Var."""
    if x is None or isinstance(x, (str, int, float, bool)):
        return x
    if hasattr(x, "value") and hasattr(x, "type") and not hasattr(x, "_op"):  # a propagated value
        try:
            val = x.value
            return (type(x).__name__, repr(x.type), np.asarray(val).tobytes() if isinstance(val, np.ndarray) else repr(val))
        except Exception:  # noqa: BLE001
            return ("id", id(x))
    if hasattr(x, "_to_onnx"):  # a spox Type: value equality
        return x
    return ("id", id(x))


def snap_var(v):
    """Every instance attribute of the Var (type, _value, _name, _op on this tree), name-agnostic."""
    try:
        items = vars(v).items()
    except TypeError:
        items = [(k, getattr(v, k, None)) for k in getattr(type(v), "__slots__", ())]
    out = {k.lstrip("_"): _freeze(x) for k, x in items}
    try:  # the model an `_Inline` node keeps (spox's own copy): builds that convert it must leave it as it was
        m = getattr(getattr(v, "_op", None), "model", None)
        if m is not None and hasattr(m, "SerializeToString"):
            out["inlined-model"] = hashlib.sha1(m.SerializeToString(deterministic=True)).hexdigest()
    except Exception:  # noqa: BLE001 - not observable on this tree
        pass
    return out


def snapshot(env):
    from spox import Var

    return {i: snap_var(v) for i, v in env.items() if isinstance(v, Var)}


def diff(before, after):
    """[(field, id, before, after)] for Vars that existed before."""
    out = []
    for i, b in before.items():
        a = after.get(i)
        if a is None:
            continue
        for f in sorted(set(a) | set(b)):
            x, y = b.get(f, "<absent>"), a.get(f, "<absent>")
            try:
                same = bool(x == y)
            except Exception:  # noqa: BLE001
                same = x is y
            if not same:
                out.append((f, i, repr(x)[:80], repr(y)[:80]))
    return out


class _Boom(Exception):
    pass


def run_case(prog, hist, ref, collect_all=False, _twin=False, twin=True):
    """Realise `prog`, build `ref` (if any), run `hist`, build `ref` again; finally make the same
    constructions once more on new objects that are never built before (`_twin`: constructions only,
    returns {"env": …}) and build the last requests there: equal requests must give equal bytes
    whatever was built before on the same objects under other names / with other companions.

    Returns {"violations": [[key, what, step]], "ref_before", "ref_mid", "ref_after"} where the ref_*
    are sha1 of SerializeToString(deterministic=True) or 'err:<class>'."""
    import spox
    import spox.opset.ai.onnx.v17 as op

    manager = get_manager()

    env = lf.realize(prog)
    models = {}
    model_bytes = {}
    viol = []
    next_id = [prog["n"]]

    last_builds = {}  # request (as json) -> (request, sha): what each successful request gave most recently

    def remember(req, s_):
        import json as _json

        if not s_.startswith("err:"):
            k_ = _json.dumps([req["inputs"], req["outputs"], bool(req["drop"])])
            last_builds.pop(k_, None)
            last_builds[k_] = (req, s_)

    def ref_build():
        if ref is None or _twin:
            return None
        got = lf.run_build(env, ref)
        return sha(got[1]) if got[0] == "ok" else "err:" + got[1]

    out = {"ref_before": None, "ref_mid": [], "ref_after": None}
    s0 = snapshot(env)
    out["ref_before"] = ref_build()
    for f, i, b, a in diff(s0, snapshot(env)):
        viol.append([f"{f}:changed-after-build-ok", f"Var #{i}: {f} was {b}, is {a} after the reference build", -1])
    second = ref_build()
    if second != out["ref_before"]:
        viol.append(["bytes:repeat-differs", f"the same request built twice in a row: {out['ref_before']} then {second}", -1])

    del lf.DICT_MUTATIONS[:]
    seen_new = {}
    edited = set()
    for step, o in enumerate(hist):
        kind = o["op"]
        if _twin and kind in ("build", "build_new", "renames"):
            continue
        before = {} if _twin else snapshot(env)
        mb = {k: m.SerializeToString(deterministic=True) for k, m in models.items()}
        tag = kind
        with warnings.catch_warnings():
            warnings.simplefilter("ignore")
            if kind == "build":
                got = lf.run_build(env, o["req"])
                tag = "build-ok" if got[0] == "ok" else "build-failed"
                if got[0] == "ok":
                    remember(o["req"], sha(got[1]))
            elif kind in ("construct", "inline") and (o.get("a", o.get("x")) not in env or ("b" in o and o["b"] not in env)):
                tag = "skipped"  # an earlier operation failed to produce the operand
            elif kind == "construct":
                a, b = env[o["a"]], env.get(o.get("b"))
                k = o["k"]
                v = None
                if k in ("untyped", "partial"):
                    try:
                        from harness import lib_untyped

                        v = lib_untyped.make(k)(a)
                    except Exception:  # noqa: BLE001 - the custom-operator recipe is not available on this tree
                        tag = "skipped"
                elif k in ("id19", "id21"):
                    import importlib

                    v = importlib.import_module("spox.opset.ai.onnx.v" + k[2:]).identity(a)  # a genuinely newer operator
                elif k == "lift":
                    v = lf.lift_var(op, a)
                elif k == "neg":
                    v = op.neg(a)
                else:
                    v = (op.add if k == "add" else op.mul)(a, b)
                if v is not None:
                    env[next_id[0]] = v
                next_id[0] += 1
            elif kind == "inline":
                k = o["model"]
                if k not in models:
                    models[k] = inline_model(k)
                    mb[k] = models[k].SerializeToString(deterministic=True)
                m = models[k]
                x = env[o["x"]]
                try:
                    f = spox.inline(m)
                    how = o["how"]
                    if how == "kw":
                        res = f(x=x)
                    elif how == "pos":
                        res = f(x)
                    elif how == "missing":
                        res = f()
                    elif how == "bad-second":
                        res = f(x, x)  # model 2's second input is a rank-2 tensor: TypeError after `x` was looked at
                    else:
                        res = f(x=x, nonexistent=x)
                    for v in res.values():
                        env[next_id[0]] = v
                        next_id[0] += 1
                    tag = "inline-ok"
                    # the result must be what an equal, never-seen copy of the model gives — also after the
                    # caller has edited the model in place since an earlier inline call
                    if how in ("kw", "pos") and getattr(x, "type", None) is not None and not _twin:
                        import onnx

                        twin = onnx.ModelProto()
                        twin.CopyFrom(m)
                        res2 = spox.inline(twin)(x=x) if how == "kw" else spox.inline(twin)(x)
                        arg_ids = [n["id"] for n in prog["nodes"] if n["k"] == "arg"]
                        ins_ = {f"x{j}": env[a] for j, a in enumerate(arg_ids)}
                        try:
                            b1 = sha(spox.build(ins_, {f"o{j}": v for j, v in enumerate(res.values())}, drop_unused_inputs=True))
                            b2 = sha(spox.build(ins_, {f"o{j}": v for j, v in enumerate(res2.values())}, drop_unused_inputs=True))
                        except Exception:  # noqa: BLE001 - not buildable (e.g. depends on an untyped value): nothing to compare
                            b1 = b2 = None
                        if b1 != b2:
                            key_ = "inline:stale-model-after-caller-edit" if k in edited else "inline:differs-from-equal-copy"
                            viol.append([key_, f"inline(model {k}) at step {step} builds to {b1}, inline(an equal copy of the model as it is now) to {b2}", step])
                except Exception:  # noqa: BLE001
                    tag = "inline-failed"
            elif kind == "build_new":
                outs_ = o.get("outs", [o["out"]] if "out" in o else [])
                if any(x not in env for x in outs_):
                    tag = "skipped"
                else:
                    arg_ids = [n["id"] for n in prog["nodes"] if n["k"] == "arg"]
                    nm = o.get("names") or {}
                    in_names = nm.get("ins") or [f"x{j}" for j in range(len(arg_ids))]
                    out_names = nm.get("outs") or [f"o{j}" for j in range(len(outs_))]
                    order = [j for j in (nm.get("perm") or range(len(arg_ids))) if j < len(arg_ids)]
                    req = {"inputs": [[in_names[j] if j < len(in_names) else f"x{j}", arg_ids[j]] for j in order],
                           "outputs": [[out_names[j] if j < len(out_names) else f"o{j}", x] for j, x in enumerate(outs_)],
                           "drop": o["drop"]}
                    rk = (tuple(outs_), bool(o["drop"]), repr(o.get("names")))
                    g1 = lf.run_build(env, req)
                    g2 = lf.run_build(env, req) if rk not in seen_new else g1   # twice in a row the first time
                    tag = "build-ok" if g1[0] == "ok" else "build-failed"
                    s1 = sha(g1[1]) if g1[0] == "ok" else "err:" + g1[1]
                    s2 = sha(g2[1]) if g2[0] == "ok" else "err:" + g2[1]
                    if s1 != s2:
                        viol.append(["bytes:repeat-differs", f"Vars made during the history built twice in a row: {s1} then {s2} (step {step})", step])
                    # the same request earlier in this history must have given the same bytes
                    remember(req, s1)
                    if rk in seen_new and seen_new[rk][0] != s1:
                        viol.append(["bytes:differs-after-history",
                                     f"Vars #{list(outs_)} built at step {seen_new[rk][1]} gave {seen_new[rk][0]}, the same request at step {step} gives {s1}", step])
                    seen_new.setdefault(rk, (s1, step))
            elif kind == "edit_model":
                k = o["model"]
                tag = "edit"
                if k in models:
                    m = models[k]
                    size0 = m.ByteSize()
                    if o["how"] == "weights" and len(m.graph.initializer):
                        t = m.graph.initializer[0]
                        if len(t.float_data):
                            for j in range(len(t.float_data)):
                                t.float_data[j] = t.float_data[j] + 4.0
                        elif len(t.int64_data):
                            for j in range(len(t.int64_data)):
                                t.int64_data[j] = t.int64_data[j] + 0  # axes stay valid
                    else:
                        for nd_ in m.graph.node:
                            if nd_.op_type in ("Add", "Mul"):
                                nd_.op_type = "Sub" if nd_.op_type == "Add" else "Div"
                                break
                    edited.add(k)
                    mb[k] = m.SerializeToString(deterministic=True)  # the caller's own edit is not spox's doing
                    assert m.ByteSize() == size0, "harness: the edit was meant to preserve the size"
            elif kind == "renames" and manager is None:
                tag = "skipped"
            elif kind == "renames":
                kw = {k: env[i] for k, i in o["kw"]}
                try:
                    with manager(**kw):
                        if o["raises"]:
                            raise _Boom()
                    tag = "renames-ok"
                except _Boom:
                    tag = "renames-raised"
                except Exception:  # noqa: BLE001 - a changed signature: facet not observable here
                    tag = "skipped"
            else:
                raise ValueError(kind)
        for f, i, b, a in diff(before, snapshot(env)):
            viol.append([f"{f}:changed-after-{tag}", f"Var #{i}: {f} was {b}, is {a} after step {step} ({tag})", step])
        if lf.DICT_MUTATIONS:
            viol.append([f"request:dict-changed-after-{tag}", f"build changed the caller's dictionaries at step {step}: {lf.DICT_MUTATIONS[0][:300]}", step])
            del lf.DICT_MUTATIONS[:]
        for k, m in models.items():
            if k in mb and m.SerializeToString(deterministic=True) != mb[k]:
                viol.append([f"inline:model-mutated-by-{tag}", f"the ModelProto passed to inline (model {k}) changed during step {step} ({tag})", step])
        if collect_all and ref is not None:
            out["ref_mid"].append(ref_build())
        if viol and not collect_all:
            break
    if _twin:
        return {"env": env}
    out["ref_after"] = ref_build()
    if ref is not None and out["ref_after"] is not None:
        remember(ref, out["ref_after"])
    if twin and not viol and last_builds:
        # the same constructions on new objects, none of which has ever been built: the most recent requests
        # must give there what they gave here after everything that went before
        try:
            env2 = run_case(prog, hist, None, _twin=True)["env"]
        except Exception:  # noqa: BLE001 - the constructions themselves are not what is judged here
            env2 = None
        for req_, s_here in list(last_builds.values())[-3:] if env2 is not None else []:
            if any(i not in env2 for _, i in req_["inputs"] + req_["outputs"]):
                continue
            g2 = lf.run_build(env2, req_)
            s_twin = sha(g2[1]) if g2[0] == "ok" else "err:" + g2[1]
            if s_twin != s_here:
                viol.append(["bytes:differs-from-never-built-objects",
                             f"request {req_['inputs']} -> {req_['outputs']} (drop={req_['drop']}) gives {s_here} after this history, "
                             f"{s_twin} on equal objects made the same way but never built before", len(hist)])
                break
    if out["ref_after"] != out["ref_before"]:
        viol.append(["bytes:differs-after-history",
                     f"the reference request built {out['ref_before']} before and {out['ref_after']} after the history", len(hist)])
    out["violations"] = viol
    return out


# ----------------------------------------------------------------------------- generation
def gen_history(rng: random.Random, prog, n_ops):
    """Random operations over the pool; ids of constructed Vars continue after prog['n']."""
    idx = lf.index(prog)
    top = prog["nodes"]
    args = [n["id"] for n in top if n["k"] == "arg"]
    scalars = [n["id"] for n in top if n["k"] not in ("arg", "init", "junk", "tcast")]
    anyv = args + scalars
    # f32 rank-0 arguments are scalars too: inlined models / new operators then have an *argument* — a value
    # whose name the next request chooses — as their direct neighbour
    scalars = scalars + [n["id"] for n in top if n["k"] == "arg" and n["ty"] == lf.SCALAR] * 2

    def other_names():
        """The same Vars under other names: inputs renamed and listed in another order, outputs renamed."""
        perm = list(range(len(args)))
        rng.shuffle(perm)
        pool = [f"x{j}" for j in range(len(args))] + [f"in{j}" for j in range(len(args))] + ["a", "b", "data", "Z"] + lf.HOSTILE_NAMES[:12]
        ins = rng.sample(pool, len(args))
        outs = rng.sample(["o0", "o1", "o2", "y", "out", "res", "r0", "final"], 3)
        outs = [n_ for n_ in outs if n_ not in ins] + ["oo0", "oo1", "oo2"]
        return {"ins": ins, "outs": outs[:3], "perm": perm}
    nxt = prog["n"]
    hist = []
    made = []
    untyped = []   # ids of untyped / unranked values (outputs of a user-defined operator without inference)
    used_models = set()
    inlined = []   # (id of an inline result, model index)
    newer = []     # ids of values made by operators of a newer default opset
    for _ in range(n_ops):
        r = rng.random()
        if inlined and scalars and rng.random() < 0.25:
            # the same Var alone, then with a companion from a newer opset, then alone again
            v = rng.choice(inlined)[0]
            if not newer or rng.random() < 0.5:
                hist.append({"op": "construct", "k": rng.choice(["id19", "id21"]), "a": rng.choice(scalars)})
                newer.append(nxt)
                made.append(nxt)
                nxt += 1
            d = rng.random() < 0.7
            hist.append({"op": "build_new", "outs": [v], "drop": d})
            mid = {"op": "build_new", "outs": [v, rng.choice(newer)], "drop": d}
            if rng.random() < 0.5:
                mid["names"] = other_names()   # … and with differently named neighbours
            hist.append(mid)
            hist.append({"op": "build_new", "outs": [v], "drop": d})
        elif made and rng.random() < 0.25:
            # the same objects under names A, then under names B (other order, maybe another companion), then A again
            k_ = rng.choice([1, 1, 2])
            outs_ = rng.sample(made, min(k_, len(made)))
            if inlined and rng.random() < 0.6:
                outs_[0] = rng.choice(inlined)[0]
            d = rng.random() < 0.7
            first = {"op": "build_new", "outs": outs_, "drop": d}
            if rng.random() < 0.5:
                first["names"] = other_names()
            hist.append(first)
            other = {"op": "build_new", "outs": list(outs_), "drop": d if rng.random() < 0.7 else not d, "names": other_names()}
            if rng.random() < 0.4 and len(made) > 1:
                other["outs"] = other["outs"] + [rng.choice(made)]
            hist.append(other)
            hist.append(dict(first))
        elif made and rng.random() < 0.2:
            k_ = rng.choice([1, 1, 2])
            hist.append({"op": "build_new", "outs": rng.sample(made, min(k_, len(made))), "drop": rng.random() < 0.7})
        elif r < 0.5:
            req = lf.gen_request(rng, prog, allow_bad=True, allow_dup=(rng.random() < 0.35))
            if rng.random() < 0.2:
                req = lf.gen_odd_request(rng, prog) or req
            if rng.random() < 0.12 and req["inputs"] and req["outputs"]:
                # an output named like an input: ScopeError in the middle of the build
                req["outputs"][0][0] = req["inputs"][0][0]
                req["kind"] = "name-clash"
            hist.append({"op": "build", "req": req})
        elif r < 0.68 and anyv:
            k = rng.choice(["add", "mul", "neg", "lift"]) if scalars else "lift"
            if k == "lift":
                o = {"op": "construct", "k": k, "a": rng.choice(anyv)}
            elif k == "neg":
                o = {"op": "construct", "k": k, "a": rng.choice(scalars)}
            else:
                o = {"op": "construct", "k": k, "a": rng.choice(scalars), "b": rng.choice(scalars)}
            hist.append(o)
            scalars.append(nxt)
            anyv.append(nxt)
            made.append(nxt)
            nxt += 1
        elif r < 0.72 and scalars and rng.random() < 0.5:
            hist.append({"op": "construct", "k": rng.choice(["untyped", "untyped", "partial"]), "a": rng.choice(scalars)})
            untyped.append(nxt)
            nxt += 1
        elif scalars and rng.random() < 0.12:
            # something unrelated that needs a newer default opset (18-21) is built; the reference request
            # (opset 17, with If/Loop bodies holding nodes the adapter rewrites) must not notice
            hist.append({"op": "construct", "k": rng.choice(["id19", "id21", "id19"]), "a": rng.choice(scalars)})
            newer.append(nxt)
            made.append(nxt)
            hist.append({"op": "build_new", "outs": [nxt], "drop": True})
            nxt += 1
        elif scalars and rng.random() < 0.12:
            # inline a model, let the caller edit it in place (same byte size), inline the same object again
            k = rng.randrange(N_MODELS)
            for j in range(2):
                hist.append({"op": "inline", "model": k, "x": rng.choice(scalars), "how": rng.choice(["kw", "pos"])})
                used_models.add(k)
                for _ in range(2 if k == 2 else 1):
                    scalars.append(nxt)
                    anyv.append(nxt)
                    made.append(nxt)
                    inlined.append((nxt, k))
                    nxt += 1
                if j == 0:
                    hist.append({"op": "edit_model", "model": k, "how": rng.choice(["weights", "op"])})
        elif used_models and rng.random() < 0.15:
            hist.append({"op": "edit_model", "model": rng.choice(sorted(used_models)), "how": rng.choice(["weights", "op"])})
        elif r < 0.88 and scalars:
            k = rng.randrange(N_MODELS)
            how = rng.choice(["kw", "kw", "pos", "missing", "unknown"])
            xs = scalars + untyped * 3
            x_ = rng.choice(xs)
            if k == 2 and rng.random() < 0.4:
                how = "bad-second"
            hist.append({"op": "inline", "model": k, "x": x_, "how": how})
            used_models.add(k)
            if how in ("kw", "pos"):
                for _ in range(2 if k == 2 else 1):
                    scalars.append(nxt)
                    anyv.append(nxt)
                    made.append(nxt)
                    inlined.append((nxt, k))
                    nxt += 1
        elif args:
            ks = rng.sample(args, min(len(args), rng.randrange(1, 4)))
            kw = [[f"t{j}", a] for j, a in enumerate(ks)]
            if rng.random() < 0.4:
                kw.append(["again", rng.choice(ks)])
            hist.append({"op": "renames", "kw": kw, "raises": rng.random() < 0.5})
    return hist


def gen_reference(rng: random.Random, prog):
    """A valid request with >= 1 input over the original pool (the request whose bytes are compared)."""
    for _ in range(20):
        req = lf.gen_request(rng, prog, allow_bad=False)
        if not req["outputs"]:
            continue
        if "multi" in prog and all(o != prog["multi"] for _, o in req["outputs"]):
            req["outputs"][0][1] = prog["multi"]  # the value that needs several operator domains
        e = lf.expected(prog, req)
        if e and e[0] == "ok":
            return req
    return None


# ----------------------------------------------------------------------------- address re-use
def gen_reuse_family(rng: random.Random, n):
    """`n` programs of identical structure (so their objects are likely to land on the addresses
    freed by their predecessors) but different argument types and constants, one request for all."""
    base = lf.gen_program(rng, n_args=rng.randrange(2, 5), size=rng.randrange(2, 6), max_depth=1)
    req = None
    for _ in range(20):
        req = gen_reference(rng, base)
        if req is not None and len(req["inputs"]) >= 2:
            break
    if req is None:
        return None
    import copy

    progs = []
    for _ in range(n):
        p = copy.deepcopy(base)
        for nd in lf.walk(p["nodes"]):
            if nd["k"] == "arg" and lf.role_typed(nd["ty"]):
                pass  # may be a direct operand (scalar operand, If condition, Loop trip count, Scan input): type kept
            elif nd["k"] == "arg":
                for _ in range(20):
                    nd["ty"] = lf.gen_type(rng, "e" in nd["ty"])  # keep tensor arguments tensors (Cast nodes refer to their dims)
                    if not lf.role_typed(nd["ty"]) and nd["ty"].get("e") not in lf.SIZE_LIFT:
                        break  # (a Cast of the argument may exist: no string / bfloat16 / complex here)
            elif nd["k"] == "const":
                nd["v"] = float(rng.randrange(-3, 4))
        progs.append(p)
    return {"progs": progs, "req": req}


def run_reuse_family(fam, rounds=2):
    """Build every program once, freeing it before the next is made; then do it all again.
    Equal requests must give equal bytes both times. Returns [[key, what]]."""
    import gc

    def one_round():
        shas = []
        for p in fam["progs"]:
            env = lf.realize(p)
            got = lf.run_build(env, fam["req"])
            shas.append(sha(got[1]) if got[0] == "ok" else "err:" + got[1])
            del env, got
            gc.collect()
        return shas

    first = one_round()
    bad = []
    for _ in range(rounds - 1):
        again = one_round()
        for j, (a, b) in enumerate(zip(first, again)):
            if a != b:
                bad.append(["bytes:stale-after-address-reuse",
                            f"program {j} of a family of look-alike programs: {a} when built first, {b} when built again after its Vars were freed and others built"])
                return bad
    return bad


# ----------------------------------------------------------------------------- Graph setters after a build
def graph_setter_probe(prog, req):
    """Low-level API: a Graph that has been built, then `with_arguments` / `with_name` / `with_opset` /
    `with_doc`; the new Graph must build like one constructed from scratch. [[key, what]];
    raises if the internal API is not there (the caller registers that as 'not observable')."""
    from spox._graph import results

    env = lf.realize(prog)
    outs = {n: env[i] for n, i in req["outputs"]}
    ins = [env[i] for _, i in req["inputs"]]
    for (n, _), v in zip(req["inputs"], ins):
        v._rename(n)
    bad = []
    try:
        with warnings.catch_warnings():
            warnings.simplefilter("ignore")
            g = results(**outs)
            g.get_arguments()  # builds, and memoises the result in g
            want = list(results(**outs).with_arguments(*ins).get_arguments())
            got = list(g.with_arguments(*ins).get_arguments())
            if got != want:
                bad.append(["graph-cache:stale-after-with_arguments",
                            f"results(…) built, then .with_arguments({[n for n, _ in req['inputs']]}): arguments {got}, a Graph made from scratch has {want}"])
            for label, f in (("with_name", lambda x: x.with_name("renamed")), ("with_doc", lambda x: x.with_doc("doc")),
                             ("with_opset", lambda x: x.with_opset(("", 18)))):
                a = f(g.with_arguments(*ins)).to_onnx_model().SerializeToString(deterministic=True)
                b = f(results(**outs).with_arguments(*ins)).to_onnx_model().SerializeToString(deterministic=True)
                if a != b:
                    bad.append([f"graph-cache:stale-after-{label}", f"a built Graph then .{label}(…) serialises differently from one made from scratch"])
    finally:
        for v in ins:
            v._rename(None)
    return bad
