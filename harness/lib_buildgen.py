"""Generators of programs for the Builder correspondence / C04 oracle.

* `skeletons(max_bodies, k)`   exhaustive: every scope tree (If = two bodies, Loop = one body with
                               arguments) x every creation scope, dependency and use-set of k values;
* `random_script(rng, size)`   random nested programs with arbitrary references (legal and leaking);
* `ap_variants(ap, rng)`       hand-made misuse through the low-level API: Graph objects shared by
                               two nodes / two attributes, two Graphs over the same arguments,
                               unspecified argument lists, arguments nobody owns.
"""
from __future__ import annotations

import copy
import itertools
import random


class Invalid(Exception):
    pass


# --------------------------------------------------------------------------- scope trees


def ctrl_lists(b: int):
    """All lists of control nodes using at most b bodies; yields (list, bodies used).
    ctrl = ("if", else_list, then_list) | ("loop", body_list)."""
    yield [], 0
    if b >= 1:
        for body, u1 in ctrl_lists(b - 1):
            for rest, u2 in ctrl_lists(b - 1 - u1):
                yield [("loop", body)] + rest, 1 + u1 + u2
    if b >= 2:
        for e, u1 in ctrl_lists(b - 2):
            for t, u2 in ctrl_lists(b - 2 - u1):
                for rest, u3 in ctrl_lists(b - 2 - u1 - u2):
                    yield [("if", e, t)] + rest, 2 + u1 + u2 + u3


def scope_table(tree):
    """Scopes in execution order: (index, parent index, kind) with kind main/else/then/body."""
    table = []

    def go(ctrls, parent, kind):
        idx = len(table)
        table.append((idx, parent, kind))
        for c in ctrls:
            if c[0] == "if":
                go(c[1], idx, "else")
                go(c[2], idx, "then")
            else:
                go(c[1], idx, "body")
        return idx

    go(tree, None, "main")
    return table


LOOP_MODES = ("plain", "M3", "M1", "M0", "M3+cond", "cond")


INTERNAL_KINDS = ("intro1", "ucast", "ureshape")


def skeleton_script(tree, values, unused=frozenset(), ctrl_uses=None, loop_mode="plain", lits=False, vkind=None):
    """values: [(scope, dep, uses)], dep = "x" | ("arg", loop_scope) | ("val", j); uses = set of scopes.
    A value is created at the start of its scope's block; the use-node of a scope (a Sum over the
    scope's base value, the values used there and the control nodes of the scope) is created at its
    end and is the scope's result.  `unused` = indices (creation order) of control nodes whose
    outputs nobody consumes; `lits`: every scope makes its own `const(1.0)` (a plain Python literal, the
    same in every scope) and uses it, every If takes a fresh `const(True)` as condition; `ctrl_uses` = {control node index: scopes whose use-node additionally
    consumes its output}.  Raises Invalid if a reference would precede the creation."""
    ctrl_uses = ctrl_uses or {}
    ctrl_id: dict[int, int] = {}
    counter = [2]
    val_id: dict[int, int] = {}
    carried: dict[int, int] = {}
    scope_no = [0]
    ctrl_no = [0]

    def fresh():
        counter[0] += 1
        return counter[0] - 1

    def scope(ctrls, base):
        sidx = scope_no[0]
        scope_no[0] += 1
        block = []
        for k, (s, dep, uses) in enumerate(values):
            if s != sidx:
                continue
            if dep == "none":
                block.append(["val", "const", []])
                val_id[k] = fresh()
                continue
            if dep == "x":
                ref = 0
            elif dep[0] == "arg":
                if dep[1] not in carried:
                    raise Invalid
                ref = carried[dep[1]]
            else:
                if dep[1] not in val_id:
                    raise Invalid
                ref = val_id[dep[1]]
            # `vkind` (an int): the shared values are user-level internal operators (`intro`, `unsafe_cast`,
            # `unsafe_reshape` - `_Introduce` nodes), in turn
            block.append(["val", "neg" if vkind is None else INTERNAL_KINDS[(vkind + k) % 3], [ref]])
            val_id[k] = fresh()
        refs = [base]
        if lits:
            block.append(["val", "pconst", [], 1.0])
            pc = fresh()
            block.append(["val", "castf", [pc]])
            refs.append(fresh())
        for c in ctrls:
            if c[0] == "if":
                cond = 1
                if lits:
                    block.append(["val", "pconst", [], True])
                    cond = fresh()
                eb, er = scope(c[1], base)
                tb, tr = scope(c[2], base)
                block.append(["if", cond, eb, er, tb, tr])
            else:
                mc = {}
                if loop_mode.startswith("M"):
                    # a constant trip count, created right before the Loop (value-propagated)
                    block.append(["val", "consti", [], int(loop_mode[1])])
                    mc["m"] = fresh()
                if loop_mode.endswith("cond"):
                    mc["c"] = 1
                body_scope = scope_no[0]
                a0 = counter[0]
                counter[0] += 3
                carried[body_scope] = a0 + 2
                bb, br = scope(c[1], a0 + 2)
                block.append(["loop", [base], 3, bb, [a0 + 1] + br, mc])
            cid = fresh()
            me = ctrl_no[0]
            ctrl_no[0] += 1
            ctrl_id[me] = cid
            if me not in unused:
                refs.append(cid)
        for k, (s, dep, uses) in enumerate(values):
            if sidx in uses:
                if k not in val_id:
                    raise Invalid
                refs.append(val_id[k])
        for c, where in ctrl_uses.items():
            if sidx in where:
                if c not in ctrl_id:
                    raise Invalid
                if ctrl_id[c] not in refs:
                    refs.append(ctrl_id[c])
        block.append(["val", "sum", refs])
        return block, [fresh()]

    main, res = scope(tree, 0)
    if len(val_id) != len(values):
        raise Invalid
    return {"main": main, "res": res}


def skeletons(max_bodies: int, k: int, rng: random.Random | None = None, sample: int | None = None):
    """Yield (descr, script) for every valid skeleton with k values over all trees with 1..max_bodies
    bodies (or `sample` random ones per tree when given)."""
    for tree, used in ctrl_lists(max_bodies):
        if used == 0:
            continue
        table = scope_table(tree)
        scopes = [t[0] for t in table]
        loops = [t[0] for t in table if t[2] == "body"]
        subsets = [frozenset(c) for r in range(len(scopes) + 1) for c in itertools.combinations(scopes, r)]

        def choices(kk):
            deps = ["x", "none"] + [("arg", l) for l in loops] + [("val", j) for j in range(kk)]
            return [(s, d, u) for s in scopes for d in deps for u in subsets]

        per = [choices(kk) for kk in range(k)]
        if sample is None:
            combos = itertools.product(*per)
        else:
            assert rng is not None
            combos = (tuple(rng.choice(c) for c in per) for _ in range(sample))
        for idx, vals in enumerate(combos):
            modes = ["plain"]
            if loops:
                # constant / absent trip count, with / without cond: one mode per skeleton in turn,
                # plus the constant-trip-count-without-cond mode for every skeleton
                modes = sorted({LOOP_MODES[idx % len(LOOP_MODES)], "M3"})
            for mode in modes + ["lits"]:
                if mode == "lits" and (k != 1 or idx % 2):
                    continue
                # every fourth skeleton: the shared values are `intro` / `unsafe_cast` / `unsafe_reshape`
                vkind = idx // 4 if idx % 4 == 1 else None
                try:
                    sc = skeleton_script(tree, list(vals), loop_mode="M3" if mode == "lits" else mode,
                                         lits=mode == "lits", vkind=vkind)
                except Invalid:
                    continue
                yield {"tree": tree, "values": [[s, d, sorted(u)] for s, d, u in vals], "loop_mode": mode,
                       **({"value_kinds": "internal"} if vkind is not None else {})}, sc


# --------------------------------------------------------------------------- random scripts


def random_script(rng: random.Random, size: int, leak_p: float, max_depth: int = 3):
    """Random nested program. With probability `leak_p` a reference ignores scoping discipline
    (any value created so far, e.g. one depending on the arguments of a finished or sibling body)."""
    counter = [2]
    # id -> (type, frozenset of loop-body tokens whose arguments the value depends on)
    info: dict[int, tuple[str, frozenset]] = {0: ("f", frozenset()), 1: ("b", frozenset())}
    budget = [size]
    body_tok = [0]

    def fresh(t, deps):
        i = counter[0]
        counter[0] += 1
        info[i] = (t, frozenset(deps))
        return i

    def pick(t, open_bodies, recent=None):
        cands = [i for i, (tt, d) in info.items() if tt == t]
        if rng.random() >= leak_p:
            cands = [i for i in cands if info[i][1] <= open_bodies]
        if not cands:
            return 0 if t == "f" else 1
        if recent and rng.random() < 0.6:
            rc = [i for i in cands if i in recent]
            if rc:
                return rng.choice(rc)
        if rng.random() < 0.5:
            return max(cands[-4:], key=lambda _: rng.random())
        return rng.choice(cands)

    def deps_of(refs):
        s = set()
        for r in refs:
            s |= info[r][1]
        return s

    def block(depth, open_bodies, local):
        out = []
        n = rng.randrange(1, 5)
        for _ in range(n):
            if budget[0] <= 0:
                break
            budget[0] -= 1
            r = rng.random()
            if r < 0.55 or depth >= max_depth:
                kind = rng.choice(["neg", "add", "add", "sum", "less", "const", "init", "plit", "intro1", "ucast", "ureshape"])
                if kind == "plit":
                    # a plain Python literal from a small pool (repeated all over the program), cast, used
                    out.append(["val", "pconst", [], rng.choice([1.0, 2.0])])
                    pc = fresh("p", [])
                    out.append(["val", "castf", [pc]])
                    cf = fresh("s", [])
                    refs = [pick("f", open_bodies, local), cf]
                    out.append(["val", "add", refs])
                    local.append(fresh("f", deps_of(refs)))
                    continue
                if kind in ("const", "init"):
                    refs = []
                elif kind in ("neg", "intro1", "ucast", "ureshape"):
                    refs = [pick("f", open_bodies, local)]
                elif kind in ("add", "less"):
                    refs = [pick("f", open_bodies, local), pick("f", open_bodies, local)]
                else:
                    refs = [pick("f", open_bodies, local) for _ in range(rng.randrange(1, 4))]
                out.append(["val", kind, refs])
                local.append(fresh("b" if kind == "less" else "f", deps_of(refs)))
            elif r < 0.8:
                cref = pick("b", open_bodies, local)
                nres = rng.randrange(1, 3)
                le: list = []
                eb = block(depth + 1, open_bodies, le)
                er = [pick("f", open_bodies, le) for _ in range(nres)]
                lt: list = []
                tb = block(depth + 1, open_bodies, lt)
                tr = [pick("f", open_bodies, lt) for _ in range(nres)]
                out.append(["if", cref, eb, er, tb, tr])
                local.append(fresh("f", deps_of([cref] + er + tr)))
            else:
                k = rng.randrange(1, 3)
                mc = {}
                mode = rng.randrange(6)
                if mode in (1, 2, 3, 4):
                    out.append(["val", "consti", [], [3, 1, 0, 3][mode - 1]])
                    mc["m"] = fresh("i", [])
                if mode in (4, 5):
                    mc["c"] = pick("b", open_bodies, local)
                init = [pick("f", open_bodies, local) for _ in range(k)]
                tok = ("L", body_tok[0])
                body_tok[0] += 1
                inner = open_bodies | {tok}
                args = [fresh("i", [tok]), fresh("b", [tok])] + [fresh("f", [tok]) for _ in range(k)]
                lb: list = list(args)
                bb = block(depth + 1, inner, lb)
                cres = args[1] if rng.random() < 0.7 else pick("b", inner, lb)
                br = [cres] + [pick("f", inner, lb) for _ in range(k)]
                if rng.random() < 0.3:
                    br.append(pick("f", inner, lb))  # a scan output
                out.append(["loop", init, 2 + k, bb, br, mc])
                local.append(fresh("f", deps_of(init) | deps_of([r for r in mc.values()]) | (deps_of(br) - {tok})))
        return out

    loc: list = []
    main = block(0, frozenset(), loc)
    nres = rng.randrange(1, 3)
    res = [pick("f", frozenset(), loc) for _ in range(nres)]
    return {"main": main, "res": res}


# --------------------------------------------------------------------------- low-level misuse variants


def ap_variants(ap: dict, rng: random.Random):
    """Yield (name, ap') — abstract programs only expressible with the low-level Graph API."""
    owners = [(n, j, g) for n, nd in enumerate(ap["nodes"]) for j, g in enumerate(nd["s"])]
    ifs = [n for n, nd in enumerate(ap["nodes"]) if nd["k"] == "if"]
    loops = [n for n, nd in enumerate(ap["nodes"]) if nd["k"] == "loop"]

    def arity(g):
        return len(ap["graphs"][g]["res"])

    # a Graph object shared by the two branches of one If
    for n in ifs[:2]:
        q = copy.deepcopy(ap)
        q["nodes"][n]["s"][1] = q["nodes"][n]["s"][0]
        yield "same-graph-both-branches", q
    # a Graph object shared by two nodes (the later node takes the earlier node's graph)
    for a, b in itertools.combinations(ifs, 2):
        ga, gb = ap["nodes"][a]["s"][0], ap["nodes"][b]["s"][0]
        if arity(ga) == arity(gb) and arity(ap["nodes"][b]["s"][1]) == arity(ga):
            q = copy.deepcopy(ap)
            q["nodes"][b]["s"][rng.randrange(2)] = ga
            yield "graph-two-owners", q
            break
    for a, b in itertools.combinations(loops, 2):
        ga, gb = ap["nodes"][a]["s"][0], ap["nodes"][b]["s"][0]
        if arity(ga) == arity(gb) and len(ap["nodes"][a]["i"]) == len(ap["nodes"][b]["i"]):
            q = copy.deepcopy(ap)
            q["nodes"][b]["s"][0] = ga
            yield "graph-two-owners", q
            break
    # two Graphs over the same arguments: a second Loop whose body is a copy (same argument list)
    for n in loops[:2]:
        q = copy.deepcopy(ap)
        g = q["nodes"][n]["s"][0]
        q["graphs"].append(copy.deepcopy(q["graphs"][g]))
        q["nodes"].append({"k": "loop", "ty": "f", "a": False, "i": list(q["nodes"][n]["i"]), "s": [len(q["graphs"]) - 1],
                           "m": q["nodes"][n].get("m"), "c": q["nodes"][n].get("c")})
        new = len(q["nodes"]) - 1
        q["nodes"].append({"k": "sum", "ty": "f", "a": False, "i": [q["graphs"][0]["res"][0], new], "s": []})
        q["graphs"][0]["res"][0] = len(q["nodes"]) - 1
        yield "arguments-claimed-twice", q
    # main graph without an argument list
    q = copy.deepcopy(ap)
    q["graphs"][0]["args"] = None
    yield "main-args-unspecified", q
    # an argument nobody owns, feeding the first result
    q = copy.deepcopy(ap)
    q["nodes"].append({"k": "arg", "ty": "f", "a": True, "i": [], "s": []})
    a = len(q["nodes"]) - 1
    q["nodes"].append({"k": "add", "ty": "f", "a": False, "i": [q["graphs"][0]["res"][0], a], "s": []})
    q["graphs"][0]["res"][0] = len(q["nodes"]) - 1
    yield "argument-without-owner", q
    # a body with an unspecified argument list
    for n in loops[:1]:
        q = copy.deepcopy(ap)
        q["graphs"][q["nodes"][n]["s"][0]]["args"] = None
        yield "body-args-unspecified", q


def handmade_aps():
    """Fixed abstract programs (low-level API): argument lists shared between a body and a body nested
    in it, the probe programs of the design round."""

    def arg(t):
        return {"k": "arg", "ty": t, "a": True, "i": [], "s": []}

    def node(k, i, s=(), ty="f"):
        return {"k": k, "ty": ty, "a": False, "i": list(i), "s": list(s)}

    # nested Loops whose body graphs are built over the *same* argument Vars
    nested_shared = {
        "nodes": [arg("f"), arg("b"), arg("i"), arg("b"), arg("f"),
                  node("neg", [4]),                # 5 (inner body)
                  node("loop", [4], [2]),          # 6 inner loop, body graph 2
                  node("sum", [6]),                # 7 (outer body)
                  node("loop", [0], [1]),          # 8 outer loop, body graph 1
                  node("sum", [8, 0])],            # 9
        "graphs": [{"args": [0, 1], "res": [9]},
                   {"args": [2, 3, 4], "res": [3, 7]},
                   {"args": [2, 3, 4], "res": [3, 5]}],
    }
    yield "nested-bodies-share-arguments", nested_shared
    # the same with only one argument shared
    yield "nested-bodies-share-one-argument", {
        "nodes": [arg("f"), arg("b"), arg("i"), arg("b"), arg("f"), arg("i"), arg("b"),
                  node("neg", [4]),                # 7 (inner body)
                  node("loop", [4], [2]),          # 8 inner loop
                  node("sum", [8]),                # 9 (outer body)
                  node("loop", [0], [1]),          # 10 outer loop
                  node("sum", [10, 0])],           # 11
        "graphs": [{"args": [0, 1], "res": [11]},
                   {"args": [5, 6, 4], "res": [6, 9]},
                   {"args": [2, 3, 4], "res": [3, 7]}],
    }
    # main claims an argument that a body also claims
    yield "main-and-body-share-argument", {
        "nodes": [arg("f"), arg("b"), arg("i"), arg("b"), arg("f"),
                  node("add", [4, 0]),             # 5
                  node("loop", [0], [1]),          # 6
                  node("sum", [6, 0])],            # 7
        "graphs": [{"args": [0, 1, 4], "res": [7]},
                   {"args": [2, 3, 4], "res": [3, 5]}],
    }
    # round 10 (`shared_body_rejected`, Props/C04 `exTwoOwners`): two If nodes hold the SAME two argument-less
    # branch graphs - no argument list can trip the flat Scope, only the multiple-owner check rejects it
    yield "two-ifs-share-both-bodies", {
        "nodes": [arg("f"), arg("b"),
                  node("neg", [0]),                # 2 (else branch)
                  node("neg", [0]),                # 3 (then branch)
                  node("if", [1], [1, 2]),         # 4
                  node("if", [1], [1, 2]),         # 5: the same Graph objects
                  node("sum", [4, 5])],            # 6
        "graphs": [{"args": [0, 1], "res": [6]}, {"args": [], "res": [2]}, {"args": [], "res": [3]}],
    }
    # round 10 (`shared_argument_rejected`, Props/C04 `exSharedArgs`): SIBLING Loop bodies over one argument list
    yield "sibling-bodies-share-arguments", {
        "nodes": [arg("f"), arg("b"), arg("i"), arg("b"), arg("f"),
                  node("add", [4, 0]),             # 5 (first body)
                  node("loop", [0], [1]),          # 6
                  node("add", [4, 0]),             # 7 (second body)
                  node("loop", [6], [2])],         # 8
        "graphs": [{"args": [0, 1], "res": [8]},
                   {"args": [2, 3, 4], "res": [3, 5]},
                   {"args": [2, 3, 4], "res": [3, 7]}],
    }
    # sibling Loops: the second body uses the first body's carried argument (design probe p4)
    yield "sibling-argument-leak", {
        "nodes": [arg("f"), arg("b"), arg("i"), arg("b"), arg("f"),
                  node("add", [4, 0]),             # 5
                  node("loop", [0], [1]),          # 6
                  arg("i"), arg("b"), arg("f"),    # 7 8 9
                  node("add", [9, 4]),             # 10: leaked argument 4
                  node("loop", [6], [2])],         # 11
        "graphs": [{"args": [0, 1], "res": [11]},
                   {"args": [2, 3, 4], "res": [3, 5]},
                   {"args": [7, 8, 9], "res": [8, 10]}],
    }
    # the reverse order: the body that uses the foreign argument is compiled first
    yield "sibling-argument-leak-used-first", {
        "nodes": [arg("f"), arg("b"), arg("i"), arg("b"), arg("f"),
                  node("add", [4, 0]),             # 5
                  node("loop", [0], [1]),          # 6
                  arg("i"), arg("b"), arg("f"),    # 7 8 9
                  node("add", [9, 4]),             # 10
                  node("loop", [0], [2]),          # 11
                  node("add", [11, 6])],           # 12
        "graphs": [{"args": [0, 1], "res": [12]},
                   {"args": [2, 3, 4], "res": [3, 5]},
                   {"args": [7, 8, 9], "res": [8, 10]}],
    }


def tree_depth(tree) -> int:
    def d(ctrls):
        return 1 + max([max(d(c[1]), d(c[2])) if c[0] == "if" else d(c[1]) for c in ctrls], default=0)

    return d(tree)


def ctrl_table(tree):
    """Control nodes in creation order: (index, parent scope, [body scopes])."""
    table = []
    scope_no = [0]

    def go(ctrls):
        sidx = scope_no[0]
        scope_no[0] += 1
        for c in ctrls:
            bodies = []
            if c[0] == "if":
                bodies.append(scope_no[0])
                go(c[1])
                bodies.append(scope_no[0])
                go(c[2])
            else:
                bodies.append(scope_no[0])
                go(c[1])
            table.append((sidx, bodies))
        return sidx

    go(tree)
    # creation order = post-order of the recursion above, which is how `table` was filled
    return [(i, p, b) for i, (p, b) in enumerate(table)]


def cross_skeletons(max_bodies: int, rng: random.Random | None = None, sample: int | None = None):
    """Programs in which the OUTPUT of a control-flow node is consumed from two further scopes (any
    pair: related or unrelated, equal or different depth) while a value is shared between that node's
    own bodies - the interleaving on which the order of the scope relaxation matters (the node is
    hoisted after its bodies were entered). Trees with up to `max_bodies` bodies, depth >= 2.
    Exhaustive over (tree, node, pair of consumer scopes, where the shared value is created) unless
    `sample` is given."""
    combos = []
    for tree, used in ctrl_lists(max_bodies):
        if used < 3 or tree_depth(tree) < 3:
            continue
        table = scope_table(tree)
        scopes = [t[0] for t in table]
        for ci, parent, bodies in ctrl_table(tree):
            for u1, u2 in itertools.combinations(scopes, 2):
                for vscope in {0, parent}:
                    combos.append((tree, ci, parent, tuple(bodies), u1, u2, vscope))
    if sample is not None:
        assert rng is not None
        combos = [rng.choice(combos) for _ in range(sample)] if combos else []
    for tree, ci, parent, bodies, u1, u2, vscope in combos:
        table = scope_table(tree)
        desc = set(bodies)
        # the shared value is used in the node's bodies (and, for a Loop, in the scopes nested in it)
        changed = True
        while changed:
            changed = False
            for idx, par, _ in table:
                if par in desc and idx not in desc:
                    desc.add(idx)
                    changed = True
        uses = frozenset(bodies) if len(bodies) > 1 else frozenset(desc)
        vals = [(vscope, "x", uses)]
        for unused in (frozenset(), frozenset([ci])):
            try:
                sc = skeleton_script(tree, vals, unused=unused, ctrl_uses={ci: {u1, u2}},
                                     loop_mode=LOOP_MODES[(ci + u1 + u2) % len(LOOP_MODES)],
                                     vkind=(ci + u2) if (ci + u1) % 3 == 0 else None)
            except Invalid:
                continue
            yield {"tree": tree, "ctrl": ci, "consumers": [u1, u2], "value_scope": vscope, "unused": sorted(unused)}, sc


# --------------------------------------------------------------------------- round 6: inputs read only deep down


def deep_input_scripts():
    """Programs whose main inputs are read ONLY at nesting depth >= 2 (or at a chosen set of depths):
    a chain of n = 2, 3 nested If/Loop bodies; `x` (id 0) is read exactly in the scopes of `xlevels`
    (never in main), `c` (id 1) is the condition of the If created at level `clevel` (or of none: then it
    is an unused model input). Everything else a scope needs is made locally (fresh constants, a
    constant trip count), so the main graph itself reads no argument. Built with an argument list, with
    none (`drop_unused_inputs=True`: the arguments are what the traversal finds through the bodies) and
    through the low-level API."""
    for n in (2, 3):
        for kinds in itertools.product(("if", "loop"), repeat=n):
            levels = list(range(1, n + 1))
            for r in range(1, n + 1):
                for xl in itertools.combinations(levels, r):
                    if max(xl) < 2:
                        continue
                    cl_opts = [None] + [k for k in range(n) if kinds[k] == "if"]
                    for clevel in cl_opts:
                        yield ({"kinds": list(kinds), "x_read_at_depths": list(xl), "c_read_at_depth": clevel},
                               _deep_script(kinds, set(xl), clevel))


def _deep_script(kinds, xlevels, clevel):
    n = len(kinds)
    counter = [2]

    def fresh():
        counter[0] += 1
        return counter[0] - 1

    def scope(level, base):
        block, refs = [], []
        if level in xlevels:
            block.append(["val", "neg", [0]])
            refs.append(fresh())
        if level < n:
            if kinds[level] == "if":
                if clevel == level:
                    cond = 1
                else:
                    block.append(["val", "pconst", [], True])
                    cond = fresh()
                eb = [["val", "const", []]]
                er = [fresh()]
                tb, tr = scope(level + 1, None)
                block.append(["if", cond, eb, er, tb, tr])
            else:
                block.append(["val", "const", []])
                init = fresh()
                block.append(["val", "consti", [], 3])
                m = fresh()
                a0 = counter[0]
                counter[0] += 3
                bb, br = scope(level + 1, a0 + 2)
                block.append(["loop", [init], 3, bb, [a0 + 1] + br, {"m": m}])
            refs.append(fresh())
        if base is not None:
            refs.append(base)
        if not refs:
            block.append(["val", "const", []])
            refs.append(fresh())
        block.append(["val", "sum", refs])
        return block, [fresh()]

    main, res = scope(0, None)
    return {"main": main, "res": res}


def wide_script(width: int = 12, nested: bool = True):
    """A Loop with `width` carried values (callback-argument list of length width + 2 >= 11: argument
    names a2 .. a15 do not sort like their ids), a Sum over all of them, and - nested - an If inside the
    body that reads the LAST carried value and a main value."""
    counter = [2]

    def fresh():
        counter[0] += 1
        return counter[0] - 1

    main = []
    inits = []
    for _ in range(width):
        main.append(["val", "neg", [0]])
        inits.append(fresh())
    main.append(["val", "neg", [0]])
    shared = fresh()
    main.append(["val", "consti", [], 3])
    m = fresh()
    a0 = counter[0]
    counter[0] += 2 + width
    carried = [a0 + 2 + k for k in range(width)]
    body = []
    outs = []
    for k, a in enumerate(carried):
        body.append(["val", "add", [a, carried[(k + 1) % width]]])
        outs.append(fresh())
    if nested:
        eb = [["val", "neg", [carried[-1]]]]
        er = [fresh()]
        tb = [["val", "add", [carried[-1], shared]]]
        tr = [fresh()]
        body.append(["if", 1, eb, er, tb, tr])
        outs[-1] = fresh()
    body.append(["val", "sum", outs + [shared]])
    outs[0] = fresh()
    main.append(["loop", inits, 2 + width, body, [a0 + 1] + outs, {"m": m}])
    lo = fresh()
    main.append(["val", "sum", [lo, shared] + inits[:10]])
    return {"main": main, "res": [fresh()]}


def long_chain_script(length: int = 1100, outer: int | None = None):
    """Dependency chains of > 1000 operators: one in the main graph read inside a Loop body (it must
    stay in main), one inside the body starting at the carried argument (it must stay in the body), one
    in main that nothing requested reads (never emitted)."""
    counter = [2]

    def fresh():
        counter[0] += 1
        return counter[0] - 1

    main = []
    prev = 0
    for _ in range(length if outer is None else outer):
        main.append(["val", "neg", [prev]])
        prev = fresh()
    outer_chain = prev
    prev = 0
    for _ in range((length if outer is None else outer) // 4):
        main.append(["val", "neg", [prev]])
        prev = fresh()
    main.append(["val", "consti", [], 1])
    m = fresh()
    a0 = counter[0]
    counter[0] += 3
    body = []
    prev = a0 + 2
    for _ in range(length):
        body.append(["val", "neg", [prev]])
        prev = fresh()
    body.append(["val", "add", [prev, outer_chain]])
    r = fresh()
    main.append(["loop", [0], 3, body, [a0 + 1, r], {"m": m}])
    return {"main": main, "res": [fresh()]}


# --------------------------------------------------------------------------- round 7: one callable object, several bodies

CALLABLE_FORMS = ("def", "lambda", "method", "partial")


def callable_scripts():
    """Legal programs in which ONE Python callable object is handed to several body slots: both branches
    of one If; branches of two different `if_` calls (same and crossed slots); one `step` as the body of
    two Loops (same argument types), also fed by the first Loop's output; a callable reading a mutable
    capture that changes between two uses. Every slot must get its own body: the callable is called once
    per slot and the applications it makes appear once per body. Forms: named function, lambda stored
    in a variable, bound method, functools.partial. Refs: int = absolute id of a value made before any
    callable is used, ["L", k] = k-th value of this invocation, ["A", k] = k-th argument, ["V"] = the
    mutable capture, ["C", k] = output of the k-th control node made through a callable."""
    f_block = [["val", "neg", [2]], ["val", "add", [["L", 0], 0]]]
    g_block = [["val", "add", [2, 0]]]
    step = [["val", "add", [["A", 2], 2]], ["val", "neg", [["L", 0]]]]
    vcap = [["val", "add", [["V"], 0]]]
    for form in CALLABLE_FORMS:
        pre = [["val", "neg", [0]]]                                       # id 2
        d_f = ["def", "f", form, f_block, [["L", 1]]]
        d_g = ["def", "g", form, g_block, [["L", 0]]]
        d_s = ["def", "step", form, step, [["L", 1]]]
        yield {"form": form, "shape": "both-branches-of-one-if"}, {
            "main": pre + [d_f, ["ifc", 1, "f", "f"], ["val", "sum", [["C", 0], 2]]], "res": [-1]}
        yield {"form": form, "shape": "two-ifs-same-slots"}, {
            "main": pre + [d_f, d_g, ["ifc", 1, "f", "g"], ["ifc", 1, "f", "g"], ["val", "sum", [["C", 0], ["C", 1]]]], "res": [-1]}
        yield {"form": form, "shape": "two-ifs-crossed-slots"}, {
            "main": pre + [d_f, d_g, ["ifc", 1, "f", "g"], ["ifc", 1, "g", "f"], ["val", "sum", [["C", 0], ["C", 1], 2]]], "res": [-1]}
        yield {"form": form, "shape": "one-step-two-loops"}, {
            "main": pre + [["val", "consti", [], 3], d_s, ["loopc", [0], "step", {"m": 3}], ["loopc", [2], "step", {"m": 3}],
                           ["val", "sum", [["C", 0], ["C", 1]]]], "res": [-1]}
        yield {"form": form, "shape": "one-step-two-loops-chained"}, {
            "main": pre + [["val", "consti", [], 1], d_s, ["loopc", [0], "step", {"m": 3}], ["loopc", [["C", 0]], "step", {"m": 3}],
                           ["val", "sum", [["C", 1], 2]]], "res": [-1]}
        yield {"form": form, "shape": "capture-changes-between-uses"}, {
            "main": pre + [["val", "neg", [2]], ["def", "h", form, vcap, [["L", 0]]], ["setcell", 2], ["ifc", 1, "h", "h"],
                           ["setcell", 3], ["ifc", 1, "h", "h"], ["val", "sum", [["C", 0], ["C", 1]]]], "res": [-1]}
