"""C06 model-free oracle, part 2: reported types that depend on PROPAGATED VALUES and on
DATA-DEPENDENT TERMINATION.

Three program families, all built with the real spox through its public constructors and judged by
`lib_c06prog.observe` (ModelProto + onnxruntime values + `Var.type`, nothing else):

* termination loops (`run_term_loop`): Loop from every opset module, trip count
  {constant 0 / 1 / 4, initializer, computed from constants, size of a constant, model input, omitted}
  x cond {omitted, constant true / false, computed from constants, model input} x body termination
  {never, constant true, breaks at a constant iteration, breaks at a fed iteration, breaks immediately},
  scan outputs of rank 1-2 (known rank), consumers downstream of every result; also inside a Loop
  body, both branches of an If, a function body and an inlined model.
* scans (`run_scan_family`): Scan from every opset module, scan-input length constant / symbolic /
  zero, non-default scan axes and directions, consumers downstream.
* value-dependent inference (`run_vdep`): a scalar `k` from one of many *value sources* (constant,
  initializer, arithmetic on constants, result of an inlined model / of an inlined Loop that breaks
  early / of an inlined If, carried result of a Loop with constant operands, If with a constant or fed
  condition, function result, overridable default, plain input) feeding every operator whose reported
  shape depends on a value (Range, OneHot, ConstantOfShape, Expand, Tile, Slice with and without the
  optional inputs, Pad, Reshape, TopK, Split, Unsqueeze/Squeeze axes), under each value-propagation
  backend. Wherever the static value and the runtime value can differ, the runtime value is varied.
"""
from __future__ import annotations

import random
import warnings
from typing import Optional

import numpy as np

from harness import lib_c06prog as P
from harness import lib_mlops as L

I64 = np.int64


def _i(x):
    return np.array(x, dtype=I64)


def _rej(e) -> dict:
    return {"rejected": True, "error": f"{type(e).__name__}: {str(e)[:200]}", "runs": 0, "refused": 0, "checked": 0, "fails": []}


# ----------------------------------------------------------------------------- termination loops
M_SRC = ["const0", "const1", "const", "init", "computed", "sizeof", "input", "none"]
COND_SRC = ["none", "true", "false", "computed", "input"]
BRK = ["never", "const_true", "at_k", "at_input", "immediately"]
CTX = ["top", "in_loop", "in_if", "in_function", "inlined"]


def term_loop_cases(modules, thorough: bool, escalate: bool = False) -> list[dict]:
    """quick: the full (trip count x cond) product for the modules that define their own Loop class
    (v17, v19, v21); for the re-exporting modules the cond-omitted column. thorough: everything."""
    cases = []
    quick_brk = [b for b in BRK if b != "const_true"]
    for mod in modules:
        own = thorough or escalate or mod in ("v17", "v19", "v21")  # (escalate: the glue code changed)
        for m in M_SRC:
            if not thorough and (m == "const1" or (not own and m not in ("const", "computed", "input"))):
                continue
            for c in COND_SRC:
                if thorough or (own and c != "computed") or c == "none":
                    cases.append({"module": mod, "M": m, "cond": c, "ctx": "top", "x": ["N"], "full": thorough,
                                  "brk": BRK if thorough else quick_brk})
        # constant initial shape: a doubling / narrowing carried value contradicts what the body declares
        for m in ("const", "const1", "computed", "input") if own else ("const",):
            cases.append({"module": mod, "M": m, "cond": "none", "ctx": "top", "x": [3], "full": thorough,
                          "brk": BRK if thorough else ["never", "at_k"]})
        # the same loops nested in other constructs, for the combinations that matter most
        if thorough:
            combos = (("const", "none"), ("computed", "none"), ("init", "true"), ("const", "input"))
        elif own:
            combos = (("const", "none"), ("computed", "none")) if mod == "v17" else (("const", "none"),)
        else:
            combos = ()
        for ctx in CTX[1:]:
            for m, c in combos:
                cases.append({"module": mod, "M": m, "cond": c, "ctx": ctx, "x": [3], "full": thorough,
                              "brk": BRK if thorough else ["never", "at_input"]})
    return cases


def _trip(op, kind: str, args: dict):
    """(Var or None, does it carry a compile-time value?)"""
    if kind == "none":
        return None
    if kind == "const0":
        return op.const(_i(0))
    if kind == "const1":
        return op.const(_i(1))
    if kind == "const":
        return op.const(_i(4))
    if kind == "init":
        from spox._future import initializer

        return initializer(_i(3))
    if kind == "computed":
        return op.add(op.const(_i(2)), op.const(_i(3)))
    if kind == "sizeof":
        return op.size(op.const(np.zeros((3,), np.float32)))
    if kind == "input":
        return args["m"]
    raise ValueError(kind)


def _cond(op, kind: str, args: dict):
    if kind == "none":
        return None
    if kind == "true":
        return op.const(np.array([True]))
    if kind == "false":
        return op.const(np.array([False]))
    if kind == "computed":
        return op.less(op.const(_i([1])), op.const(_i([2])))
    if kind == "input":
        return args["c"]
    raise ValueError(kind)


def _term_body(op, brk: str, stop):
    empty = op.const(np.array([], dtype=I64))
    one = op.const(_i(1))

    ones3 = op.const(np.ones((3,), dtype=np.float32))

    def body(i, c, v, w, u):
        i0 = op.reshape(i, empty)  # the iteration number as a scalar
        if brk == "never":
            nxt = c
        elif brk == "const_true":
            nxt = op.const(np.array(True))
        elif brk == "at_k":
            nxt = op.less(op.add(i0, one), op.const(_i(2)))
        elif brk == "at_input":
            nxt = op.less(op.add(i0, one), stop)
        elif brk == "immediately":
            nxt = op.const(np.array(False))
        else:
            raise ValueError(brk)
        # three carried values: shape-preserving, doubling, narrowing (broadcast against a constant)
        return [nxt, op.add(v, v), op.concat([w, w], axis=0), op.add(u, ones3),
                i, v, op.const(np.zeros((3,), np.float32)), i0]

    return body


def _consumers(op, outs: list, full: bool = True) -> list:
    """Values computed downstream of the Loop / Scan results (ONNX's own inference carries a wrong
    static dim on; every one of them is compared with the runtime too). `full=False`: a small set."""
    extra = []
    zero = op.const(_i([0]))
    ranked = [o for o in outs if getattr(o.type, "shape", None) is not None]
    if not full:
        two = [o for o in ranked if len(o.type.shape) == 2]
        if two:
            extra += [op.shape(two[0]), op.concat([two[0], two[0]], axis=0), op.transpose(two[-1], perm=[1, 0])]
        if outs:
            extra.append(op.identity(outs[0]))
        return extra
    for o in outs:
        t = o.type
        extra.append(op.identity(o))
        if t is None or getattr(t, "shape", None) is None:
            continue
        r = len(t.shape)
        extra.append(op.shape(o))
        if r >= 1:
            extra.append(op.concat([o, o], axis=0))
            extra.append(op.reduce_sum(op.cast(o, to=np.float32), zero, keepdims=0))
        if r >= 2:
            extra.append(op.transpose(o, perm=[1, 0] + list(range(2, r))))
    return extra


def _brks(case: dict) -> list:
    brks = case.get("brk") or BRK
    if case["M"] == "none":  # without a trip count only bodies that stop by themselves
        brks = [b for b in brks if b in ("at_k", "at_input", "immediately")]
    return brks


def run_term_loop(case: dict, rng, sizes, max_inst: int, extra_feeds=()) -> dict:
    """One program holding a Loop per termination kind for the given (module, trip-count source,
    cond source, context); every result and its consumers are exposed."""
    try:
        op = P.opset_module(case["module"])
        with warnings.catch_warnings():
            warnings.simplefilter("ignore")
            decl = {"x": L.ty_from_json({"e": "f32", "s": case["x"]}), "stop": L.ty_from_json({"e": "i64", "s": []})}
            if case["M"] == "input":
                decl["m"] = L.ty_from_json({"e": "i64", "s": []})
            if case["cond"] == "input":
                decl["c"] = L.ty_from_json({"e": "bool", "s": [1]})  # spox declares the body's cond argument bool[1]
            args = P.make_args(decl)
            x, stop = args["x"], args["stop"]
            ctx = case.get("ctx", "top")
            outs: list = []
            for brk in _brks(case):
                def mk(xx, st, brk=brk):
                    return list(op.loop(_trip(op, case["M"], args), _cond(op, case["cond"], args), [xx, xx, xx], body=_term_body(op, brk, st)))

                if ctx == "top":
                    res = mk(x, stop)
                elif ctx == "in_loop":  # the loop sits in the body of an outer loop that runs twice
                    def outer(i, c, v, mk=mk):
                        inner = mk(v, stop)
                        return [c, op.identity(v)] + inner[3:]

                    res = list(op.loop(op.const(_i(2)), None, [x], body=outer))
                elif ctx == "in_if":  # the same loop in both branches: the merged type keeps their dims
                    res = list(op.if_(op.less(stop, op.const(_i(100))), then_branch=lambda mk=mk: mk(x, stop),
                                      else_branch=lambda mk=mk: mk(op.neg(x), stop)))
                elif ctx == "in_function":
                    from spox._function import to_function

                    def fbody(a, s):
                        return mk(a, s)  # noqa: B023 - called before the next iteration rebinds mk

                    fun = to_function(f"c06_term_{case['module']}_{case['M']}_{case['cond']}_{brk}", "c06.term")(fbody)
                    res = list(fun(x, stop))
                elif ctx == "inlined":
                    from spox import argument, build, inline

                    p = argument(L.ty_from_json({"e": "f32", "s": case["x"]}))
                    q = argument(L.ty_from_json({"e": "i64", "s": []}))
                    inner = [o for o in mk(p, q) if getattr(o.type, "shape", None) is not None]
                    mod = build({"p": p, "q": q}, {f"r{j}": o for j, o in enumerate(inner)})
                    res = list(inline(mod)(p=x, q=stop).values())
                else:
                    raise ValueError(ctx)
                outs += res + _consumers(op, res, bool(case.get("full")))
    except Exception as e:  # noqa: BLE001
        return _rej(e)
    feeds = []
    for base in P.feeds_for({"x": args["x"]}, rng, [3, 1], 2):  # (the narrowing value broadcasts against 3)
        for m in ((0, 1, 2, 6) if "m" in args else (None,)):
            for c in ((True, False) if "c" in args else (None,)):
                for st in (0, 1, 3):
                    f = dict(base, stop=_i(st))
                    if m is not None:
                        f["m"] = _i(m)
                    if c is not None:
                        f["c"] = np.array([c])
                    feeds.append(f)
    return P.observe(args, outs, rng, sizes, max_inst, extra_feeds=list(extra_feeds) + feeds, only_extra=True)


# ----------------------------------------------------------------------------- Scan families
SCAN_FAMILY = [
    {"len": 3, "axes": None},
    {"len": "N", "axes": None},
    {"len": None, "axes": None},
    {"len": 0, "axes": None},
    {"len": 3, "axes": "in1"},      # scan_input_axes=[1]
    {"len": "N", "axes": "out1"},   # scan_output_axes=[1, ...]
    {"len": 3, "axes": "reverse"},  # scan_input_directions / scan_output_directions = 1
    {"len": "N", "axes": "in1out1"},
    {"len": 3, "axes": "out1"},     # constant scan length that lands on axis 1 of two of the scan outputs
    {"len": 3, "axes": "outneg"},   # scan_output_axes=[-1, ...]
]


def run_scan_family(case: dict, rng, sizes, max_inst: int, extra_feeds=()) -> dict:
    """Scan (the trip count is the length of the scan axis): one state of rank 1, one scan input of
    rank 2 whose scan axis has the given length; the body returns slices, values computed from them and
    constants as scan outputs; consumers downstream."""
    try:
        op = P.opset_module(case["module"])
        n, ax = case["len"], case["axes"]
        in_axis = 1 if ax in ("in1", "in1out1") else 0
        if in_axis == 1 and isinstance(n, int):
            n = 5  # ONNX's Scan inference refuses a body whose declared slice shape contradicts constant dims
        shape = [5, n] if in_axis == 1 else [n, 5]
        with warnings.catch_warnings():
            warnings.simplefilter("ignore")
            args = P.make_args({"s": L.ty_from_json({"e": "f32", "s": [5]}), "xs": L.ty_from_json({"e": "f32", "s": shape})})

            def body(s, x):
                t = op.reduce_sum(x, keepdims=0)
                return [op.add(s, t), x, op.add(x, x), op.const(np.zeros((2, 3), np.float32)), t]

            kw = {}
            if in_axis == 1:
                kw["scan_input_axes"] = [1]
            if ax in ("out1", "in1out1"):
                kw["scan_output_axes"] = [1, 0, 1, 0]
            if ax == "outneg":
                kw["scan_output_axes"] = [-1, 0, -2, 0]
            if ax == "reverse":
                kw["scan_input_directions"] = [1]
                kw["scan_output_directions"] = [1, 0, 1, 0]
            res = list(op.scan([args["s"], args["xs"]], body=body, num_scan_inputs=1, **kw))
            outs = res + _consumers(op, res)
    except Exception as e:  # noqa: BLE001
        return _rej(e)
    if ax is not None:  # onnxruntime dies (SIGFPE) on a zero-length scan axis with non-default output axes
        sizes = [s for s in sizes if s != 0]
    return P.observe(args, outs, rng, sizes, max_inst, extra_feeds=extra_feeds)


# ----------------------------------------------------------------------------- value-dependent inference
SOURCES = [
    "const", "init", "computed", "sizeof", "computed_float", "inline_arith", "inline_loop_break", "inline_loop_full",
    "inline_loop_condless", "inline_if", "loop_const", "loop_break", "if_const", "if_input", "function", "default", "input", "shape_static", "shape_symbolic",
    # If with a constant condition and DIFFERENT constants in the two branches (a propagation that takes the wrong branch)
    "if_const_false", "inline_if_true",
    # sampling operators: the built model draws a fresh sample on every run, so nothing may be claimed from one
    "random_uniform", "random_normal", "random_uniform_like", "random_normal_like", "multinomial", "bernoulli", "dropout",
    "dropout_mask",
    # (outside round 7) the same with EVERY optional attribute set (seed in particular, dtype where there is one):
    # a seeded sampler is still a sampler - the runtime draws its own sample, another one on each run
    "random_uniform_seeded", "random_normal_seeded", "random_uniform_like_seeded", "random_normal_like_seeded",
    "multinomial_seeded", "bernoulli_seeded", "dropout_seeded", "dropout_mask_seeded",
]
NONE_QUICK = ("const", "computed", "inline_arith", "if_const", "default", "multinomial", "shape_static", "loop_const", "init")
RANDOM_SOURCES = ("random_uniform", "random_normal", "random_uniform_like", "random_normal_like", "multinomial", "bernoulli",
                  "dropout", "dropout_mask",
                  "random_uniform_seeded", "random_normal_seeded", "random_uniform_like_seeded", "random_normal_like_seeded",
                  "multinomial_seeded", "bernoulli_seeded", "dropout_seeded", "dropout_mask_seeded")
# sources whose value exists at compile time (or could): the ones worth the slow ONNXRUNTIME backend in the quick tier
ORT_QUICK = ("computed", "inline_loop_break", "default", "shape_symbolic", "if_const", "if_const_false", "multinomial", "random_uniform",
             "random_uniform_seeded", "bernoulli_seeded")
GROUPS = ["safe", "risky"]
BACKENDS = ["REFERENCE", "ONNXRUNTIME", "NONE"]


def _loop_model(op, kind: str):
    """A model (inputs m, k) whose outputs are a counter carried through a Loop."""
    from spox import argument, build

    m_ = argument(L.ty_from_json({"e": "i64", "s": []}))
    k_ = argument(L.ty_from_json({"e": "i64", "s": []}))
    one = op.const(_i(1))
    empty = op.const(np.array([], dtype=I64))

    def body(i, c, cnt):
        i0 = op.reshape(i, empty)
        nxt = op.less(op.add(i0, one), k_) if kind != "full" else op.const(np.array(True))
        return [nxt, op.add(cnt, one)]

    cond = op.const(np.array([True])) if kind == "full" else None
    (r,) = op.loop(m_, cond, [op.const(_i(1))], body=body)
    return build({"m": m_, "k": k_}, {"r": op.reshape(r, empty)})  # (a carried result may be rank-unknown)


def _source(op, kind: str, args: dict):
    """A scalar int64 Var `k` >= 0 from the given value source (new model inputs are added to `args`)."""
    from spox import argument, build, inline

    def inp(name, ty):
        args[name] = P.make_args({name: L.ty_from_json(ty)})[name]
        return args[name]

    if kind == "const":
        return op.const(_i(3))
    if kind == "init":
        from spox._future import initializer

        return initializer(_i(3))
    if kind == "computed":
        return op.add(op.const(_i(1)), op.const(_i(2)))
    if kind == "sizeof":
        return op.size(op.const(np.zeros((3, 1), np.float32)))
    if kind == "computed_float":
        return op.cast(op.floor(op.div(op.const(np.array(7.0, np.float32)), op.const(np.array(2.0, np.float32)))), to=I64)
    if kind == "inline_arith":
        a = argument(L.ty_from_json({"e": "i64", "s": []}))
        mod = build({"a": a}, {"r": op.add(a, op.const(_i(1)))})
        return inline(mod)(a=op.const(_i(2)))["r"]
    if kind in ("inline_loop_break", "inline_loop_full", "inline_loop_condless"):
        # trip count and break point are constants of the OUTER program: the result is a compile-time
        # constant computed by an inlined Loop (1 + number of iterations)
        mod = _loop_model(op, {"inline_loop_break": "break", "inline_loop_full": "full", "inline_loop_condless": "break"}[kind])
        k = 2 if kind == "inline_loop_break" else 9
        return inline(mod)(m=op.const(_i(3)), k=op.const(_i(k)))["r"]
    if kind == "inline_if":
        c = argument(L.ty_from_json({"e": "bool", "s": []}))
        (r,) = op.if_(c, then_branch=lambda: [op.const(_i(3))], else_branch=lambda: [op.const(_i(4))])
        mod = build({"c": c}, {"r": r})
        return inline(mod)(c=op.const(np.array(False)))["r"]
    if kind in ("loop_const", "loop_break"):
        stop = inp("stop", {"e": "i64", "s": []}) if kind == "loop_break" else None
        one = op.const(_i(1))
        empty = op.const(np.array([], dtype=I64))

        def body(i, c, cnt):
            nxt = c if stop is None else op.less(op.add(op.reshape(i, empty), one), stop)
            return [nxt, op.add(cnt, one)]

        (r,) = op.loop(op.const(_i(3)), None, [op.const(_i(0))], body=body)
        return r
    if kind == "inline_if_true":
        c = argument(L.ty_from_json({"e": "bool", "s": []}))
        (r,) = op.if_(c, then_branch=lambda: [op.const(_i(3))], else_branch=lambda: [op.const(_i(4))])
        mod = build({"c": c}, {"r": r})
        return inline(mod)(c=op.const(np.array(True)))["r"]
    if kind in RANDOM_SOURCES:
        # an int64 scalar in 0..8 computed from a sample
        f32 = np.float32
        scalar = op.const(np.array([], dtype=I64))

        def to_k(v):  # floor of a float sample in [0, 5)
            return op.reshape(op.cast(op.floor(op.clip(v, op.const(f32(0.0)), op.const(f32(4.9)))), to=I64), scalar)

        seeded = kind.endswith("_seeded")
        base_kind = kind[: -len("_seeded")] if seeded else kind
        sd = {"seed": 7.0} if seeded else {}           # float attribute `seed`
        dt = {"dtype": np.float32} if seeded else {}   # the other optional attribute of the samplers
        if base_kind == "random_uniform":
            return to_k(op.random_uniform(low=0.0, high=5.0, shape=[1], **sd, **dt))
        if base_kind == "random_normal":
            return to_k(op.random_normal(mean=2.5, scale=2.0, shape=[1], **sd, **dt))
        if base_kind == "random_uniform_like":
            return to_k(op.random_uniform_like(op.const(np.zeros((1,), f32)), low=0.0, high=5.0, **sd, **dt))
        if base_kind == "random_normal_like":
            return to_k(op.random_normal_like(op.const(np.zeros((1,), f32)), mean=2.5, scale=2.0, **sd, **dt))
        if base_kind == "multinomial":
            return op.reshape(op.multinomial(op.const(np.zeros((1, 5), f32)), dtype=np.int64, sample_size=1, **sd), scalar)
        if base_kind == "bernoulli":
            b = op.cast(op.bernoulli(op.const(np.full((1,), 0.5, f32)), **sd, **dt), to=I64)
            return op.reshape(op.add(op.mul(b, op.const(_i(3))), op.const(_i(1))), scalar)  # 1 or 4
        out, mask = op.dropout(op.const(np.ones((8,), f32)), op.const(f32(0.5)), op.const(np.array(True)),
                               **({"seed": 7} if seeded else {}))
        kept = op.cast(mask, to=I64) if base_kind == "dropout_mask" else op.cast(op.greater(out, op.const(f32(0.0))), to=I64)
        return op.reduce_sum(kept, keepdims=0)  # how many of the 8 entries survived
    if kind in ("if_const", "if_input", "if_const_false"):
        c = inp("c", {"e": "bool", "s": []}) if kind == "if_input" else op.const(np.array(kind == "if_const"))
        (r,) = op.if_(c, then_branch=lambda: [op.const(_i(3))], else_branch=lambda: [op.const(_i(4))])
        return r
    if kind == "function":
        from spox._function import to_function

        fun = to_function("c06_vdep_inc", "c06.vdep")(lambda a: [op.add(a, op.const(_i(1)))])
        return list(fun(op.const(_i(2))))[0]
    if kind == "default":
        from spox._graph import arguments_dict

        args["d"] = arguments_dict(d=_i(3))["d"]
        return args["d"]
    if kind == "input":
        return inp("k", {"e": "i64", "s": []})
    if kind in ("shape_static", "shape_symbolic"):
        # a dim of another input: a compile-time constant only where the static shape says so
        y = inp("y", {"e": "f32", "s": [3, 2] if kind == "shape_static" else ["N", 2]})
        return op.gather(op.shape(y), op.const(_i(0)))
    raise ValueError(kind)


def _vdep_consumers(op, k, x, group: str) -> list:
    """Operators whose reported shape depends on the VALUE of an input, all fed from the scalar `k`
    (x: f32[12, 12])."""
    zero, one = op.const(_i(0)), op.const(_i(1))
    ax0 = op.const(_i([0]))
    kv = op.unsqueeze(k, ax0)  # int64[1]
    outs = []
    if group == "safe":
        outs.append(op.range(zero, k, one))
        outs.append(op.one_hot(op.const(_i([0, 1])), k, op.const(np.array([0.0, 1.0], np.float32))))
        outs.append(op.constant_of_shape(op.concat([kv, op.const(_i([2]))], axis=0)))
        outs.append(op.constant_of_shape(kv))
        outs.append(op.expand(op.const(np.ones((1, 3), np.float32)), op.concat([kv, op.const(_i([3]))], axis=0)))
        outs.append(op.tile(op.const(np.ones((2, 3), np.float32)), op.concat([kv, op.const(_i([1]))], axis=0)))
        outs.append(op.slice(x, op.const(_i([0])), kv))  # axes, steps omitted
        outs.append(op.slice(x, op.const(_i([0])), kv, op.const(_i([1]))))  # steps omitted
        outs.append(op.slice(x, op.const(_i([0])), op.const(_i([12])), op.const(_i([0])), op.add(kv, op.const(_i([1])))))
        outs.append(op.pad(x, op.concat([op.const(_i([0, 0])), kv, op.const(_i([0]))], axis=0)))
        outs.append(op.reduce_sum(op.constant_of_shape(op.concat([kv, op.const(_i([2]))], axis=0)), ax0, keepdims=0))
    else:
        outs.append(op.reshape(x, op.concat([kv, op.const(_i([-1]))], axis=0)))
        outs.append(op.top_k(x, kv)[0])
        parts = op.concat([kv, op.sub(op.const(_i([12])), kv)], axis=0)
        try:
            outs += list(op.split(x, parts, outputs_count=2))
        except TypeError:  # opset 18 on: the number of results cannot be given next to a `split` input
            pass
        outs.append(op.unsqueeze(op.const(np.ones((2, 3), np.float32)), op.min([kv, op.const(_i([2]))])))
    return outs + [op.identity(o) for o in outs]


def vdep_cases(thorough: bool, escalate: bool = False) -> list[dict]:
    cases = []
    mods = P.OPSET_MODULES
    for j, src in enumerate(SOURCES):
        for g in GROUPS:
            for b in BACKENDS:
                if not (thorough or escalate) and b != "REFERENCE" and g == "risky":
                    continue
                if not (thorough or escalate) and b == "ONNXRUNTIME" and src not in ORT_QUICK:
                    continue
                if not (thorough or escalate) and b == "NONE" and src not in NONE_QUICK:
                    continue  # (with propagation off nothing constant can be claimed from most sources)
                cases.append({"src": src, "group": g, "backend": b, "module": mods[j % len(mods)] if not thorough else None})
    if thorough:
        cases = [dict(c, module=m) for c in cases for m in mods]
    return cases


def run_vdep(case: dict, rng, sizes, max_inst: int, extra_feeds=()) -> dict:
    try:
        import spox._future as fut

        op = P.opset_module(case["module"])
        backend = getattr(fut.ValuePropBackend, case["backend"])
        with warnings.catch_warnings():
            warnings.simplefilter("ignore")
            with fut.value_prop_backend(backend):
                args = P.make_args({"x": L.ty_from_json({"e": "f32", "s": [12, 12]})})
                k = _source(op, case["src"], args)
                outs = [k] + _vdep_consumers(op, k, args["x"], case["group"])
    except Exception as e:  # noqa: BLE001
        return _rej(e)
    base = {"x": np.ones((12, 12), np.float32)}
    feeds = [dict(base)]
    if "stop" in args:
        feeds = [dict(base, stop=_i(s)) for s in (0, 1, 2, 9)]
    if "c" in args:
        feeds = [dict(base, c=np.array(c)) for c in (True, False)]
    if "k" in args:
        feeds = [dict(base, k=_i(v)) for v in (0, 1, 3, 4)]
    if "d" in args:
        feeds = [dict(base), dict(base, d=_i(4)), dict(base, d=_i(1))]
    if case["src"] in RANDOM_SOURCES:  # every run draws a fresh sample
        feeds = [dict(base) for _ in range(8)]
    if "y" in args:
        n0 = args["y"].type.shape[0]
        feeds = [dict(base, y=np.zeros((n, 2), np.float32)) for n in ((n0,) if isinstance(n0, int) else (0, 1, 3, 4))]
    st = P.observe(args, outs, rng, sizes, max_inst, extra_feeds=list(extra_feeds) + feeds, only_extra=True)
    collapsed = []
    for f in st["fails"]:
        head = f["key"].rsplit(":", 1)[0]
        if case["src"].startswith("inline_loop") and case["backend"] != "NONE" and f["key"].endswith(":unexplained"):
            # the inlined model's result is a compile-time value computed THROUGH a Loop; every consumer
            # whose reported shape uses it is one symptom of the same thing
            f["what"] = f"value propagated through an inlined model containing a Loop differs from the runtime value: " + f["what"]
            f["key"] = "Inline:result:value:propagated-through-control-flow"
        elif case["src"] == "default" and "d" in f.get("feed", {}):
            f["key"] = head + ":constant-dim-from-overridable-default"
        f["what"] = f"[value source {case['src']}, backend {case['backend']}, {case['module']}] " + f["what"]
        if not any(g["key"] == f["key"] for g in collapsed):
            collapsed.append(f)
    st["fails"] = collapsed
    return st


# ----------------------------------------------------------------------------- every single-input operator
# EVERY constructor of every opset module that can be applied to ONE Var (all other parameters
# defaulted), applied to an input with distinct constant dims that shape-changing operators change
# (Det, GlobalAveragePool / GlobalMaxPool / GlobalLpPool, Squeeze, Transpose, Flatten, ArgMax, Shape,
# Size, NonZero, reductions without axes, ...): reported type vs. what onnxruntime computes.
ALL_MODULES = ["v17", "v18", "v19", "v20", "v21", "ml.v3", "ml.v4", "ml.v5"]
UNARY_CANDIDATES = [
    {"e": "f32", "s": [1, 2, 3, 3]}, {"e": "f32", "s": [2, 3]}, {"e": "i64", "s": [1, 2, 3, 3]},
    {"e": "bool", "s": [1, 2, 3, 3]}, {"e": "str", "s": [2, 3]}, {"e": "f32", "s": []}, {"e": "i64", "s": []},
    {"e": "f32", "s": [1, 3, 4]},
]
UNARY_SYMBOLIC = [{"e": "f32", "s": ["N", 2, 3, 3]}, {"e": "f32", "s": [1, "C", 3, 3]}, {"e": "i64", "s": ["N", 3]}]


def _any_module(name: str):
    import importlib

    return importlib.import_module(f"spox.opset.ai.onnx.{name}")


def unary_ops(module: str) -> list:
    """Names (operator identifiers) of the module's constructors callable with exactly one Var."""
    import inspect

    mod = _any_module(module)
    table = getattr(mod, "_CONSTRUCTORS", None)
    if not isinstance(table, dict):
        table = {n: getattr(mod, n) for n in getattr(mod, "__all__", []) if callable(getattr(mod, n, None))}
    out = []
    for name, fn in sorted(table.items()):
        try:
            ps = list(inspect.signature(fn).parameters.values())
        except (TypeError, ValueError):
            continue
        req = [p for p in ps if p.default is inspect.Parameter.empty and p.kind in (p.POSITIONAL_ONLY, p.POSITIONAL_OR_KEYWORD)]
        kwreq = [p for p in ps if p.default is inspect.Parameter.empty and p.kind == p.KEYWORD_ONLY]
        if len(req) == 1 and not kwreq and "Sequence" not in str(req[0].annotation) and "Var" in str(req[0].annotation):
            out.append(name)
    return out


# Non-default settings of the optional, shape-relevant attributes (by parameter name), one at a time plus
# the axis x keepdims combination: a single-input operator is exercised at MORE than its defaults.
ATTR_SETTINGS = {
    "axis": [-1, 1, 0, 2, -2], "keepdims": [0], "noop_with_empty_axes": [1], "axes": [[0], [-1], [1, 2]],
    "perm": [[0, 2, 1, 3], [1, 0], [3, 2, 1, 0]], "select_last_index": [1], "start": [1, -2], "end": [-1, 2],
    "num_outputs": [2, 3], "p": [1], "k": [1, -1], "periodic": [0], "onesided": [1], "upper": [0], "sorted": [0],
    "dtype": [np.float64], "output_datatype": [11], "sample_size": [3], "detect_negative": [0],
}


def unary_attr_settings(module: str) -> list:
    """[(operator, kwargs)] for every single-input constructor and every non-default setting above."""
    import inspect

    mod = _any_module(module)
    table = getattr(mod, "_CONSTRUCTORS", None) or {}
    out = []
    for name in unary_ops(module):
        fn = table.get(name) or getattr(mod, name)
        params = {p.name for p in inspect.signature(fn).parameters.values() if p.kind == p.KEYWORD_ONLY}
        for pn in sorted(params & set(ATTR_SETTINGS)):
            for val in ATTR_SETTINGS[pn]:
                out.append((name, {pn: val}))
        if {"axis", "keepdims"} <= params:
            out.append((name, {"axis": -1, "keepdims": 0}))
        if {"axes", "keepdims"} <= params:
            out.append((name, {"axes": [1], "keepdims": 0}))
    return out


def _kw_json(kw: dict) -> dict:
    return {k: (np.dtype(v).name if isinstance(v, type) else v) for k, v in kw.items()}


def _kw_real(kw: dict) -> dict:
    return {k: (np.dtype(v).type if k == "dtype" and isinstance(v, str) else v) for k, v in kw.items()}


def unary_cases(thorough: bool, chunk: int = 12) -> list[dict]:
    cases = []
    for m in ALL_MODULES:
        try:
            names = unary_ops(m)
        except Exception:  # noqa: BLE001
            names = []
        for i in range(0, len(names), chunk):
            cases.append({"module": m, "ops": names[i:i + chunk], "symbolic": False})
            if thorough:
                cases.append({"module": m, "ops": names[i:i + chunk], "symbolic": True})
        try:
            settings = [[n, _kw_json(kw)] for n, kw in unary_attr_settings(m)]
        except Exception:  # noqa: BLE001
            settings = []
        for i in range(0, len(settings), 2 * chunk):
            cases.append({"module": m, "ops": settings[i:i + 2 * chunk], "symbolic": False, "attrs": True})
    return cases


def _apply_unary(mod, name, args: dict, cands: list):
    """First candidate input type the constructor accepts -> list of result Vars (or None).
    `name`: operator identifier, or [identifier, {attribute settings}]."""
    kw = {}
    if not isinstance(name, str):
        name, kw = name[0], _kw_real(name[1])
    table = getattr(mod, "_CONSTRUCTORS", None) or {}
    fn = table.get(name) or getattr(mod, name)
    for j, t in enumerate(cands):
        key = f"u{j}"
        if key not in args:
            args.update(P.make_args({key: L.ty_from_json(t)}))
        try:
            r = fn(args[key], **kw)
        except Exception:  # noqa: BLE001 - this candidate is not accepted
            continue
        outs = list(r) if isinstance(r, (tuple, list)) else [r]
        outs = [o for o in outs if hasattr(o, "type")]
        if outs:
            return outs
    return None


def run_unary_all(case: dict, rng, sizes, max_inst: int, extra_feeds=()) -> dict:
    cands = UNARY_SYMBOLIC + UNARY_CANDIDATES if case.get("symbolic") else UNARY_CANDIDATES

    def attempt(names, cands=cands):
        all_args: dict = {}
        outs: list = []
        applied = 0
        with warnings.catch_warnings():
            warnings.simplefilter("ignore")
            mod = _any_module(case["module"])
            for n in names:
                r = _apply_unary(mod, n, all_args, cands)
                if r:
                    applied += 1
                    outs += r
        used = {id(v) for v in all_args.values()}
        args = {k: v for k, v in all_args.items() if id(v) in used}
        if not outs:
            return {"rejected": True, "error": "no constructor accepted any candidate", "runs": 0, "refused": 0, "checked": 0, "fails": []}, 0
        st = P.observe(args, outs, rng, sizes, max_inst, extra_feeds=extra_feeds)
        return st, applied

    try:
        st, applied = attempt(case["ops"])
        if (st.get("load_error") or st.get("checked", 0) == 0) and len(case["ops"]) > 1:  # one operator the runtime cannot load / run: one by one
            tot = {"rejected": False, "runs": 0, "refused": 0, "checked": 0, "fails": [], "unloadable": []}
            applied = 0
            for n in case["ops"]:
                for c1 in cands:  # the first candidate type on which the operator is built AND runs
                    s1, a1 = attempt([n], [c1])
                    if s1.get("checked", 0) or s1["fails"]:
                        break
                applied += a1
                if s1.get("load_error") or (a1 and s1.get("checked", 0) == 0):
                    tot["unloadable"].append(n)
                for k in ("runs", "refused", "checked"):
                    tot[k] += s1.get(k, 0)
                for f in s1["fails"]:
                    if not any(g["key"] == f["key"] for g in tot["fails"]):
                        tot["fails"].append(f)
            st = tot
        st["applied"] = applied
        return st
    except Exception as e:  # noqa: BLE001
        return _rej(e)
