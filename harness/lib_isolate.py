"""Native-crash isolation for the C02 / C14 oracles.

`onnx.checker`, `onnx.shape_inference`, `onnx.reference` and onnxruntime are C++ code: on some invalid models (which a
mutated spox may hand back) they do not raise but kill the process (SIGSEGV / SIGABRT). Every such call of the
harness goes through `call()`: the function runs in a forked child, the (picklable) result comes back over a pipe;
a child that dies is a RESULT (`Aborted`), never a dead check. Fork keeps it cheap (no re-import) and lets closures
and already built ModelProtos pass without pickling.
"""
from __future__ import annotations

import os
import pickle
import select
import signal
import time


class Aborted(Exception):
    """the child process died (signal / abnormal exit) or stalled while running the native code"""


class Stalled(Exception):
    """the child did not answer within the time limit (killed): NO verdict (a loaded machine), counted"""


class RemoteError(Exception):
    """an ordinary exception raised inside the child; str() = 'ClassName: message'"""


STATS = {"calls": 0, "aborted": 0, "stalled": 0}


def call(fn, *args, timeout=300, **kwargs):
    """fn(*args, **kwargs) in a forked child. Returns its result; raises RemoteError for an exception raised by fn,
    Aborted when the child died, Stalled when it did not answer in time."""
    STATS["calls"] += 1
    r, w = os.pipe()
    pid = os.fork()
    if pid == 0:  # child
        code = 0
        try:
            os.close(r)
            try:
                res = ("ok", fn(*args, **kwargs))
            except BaseException as e:  # noqa: BLE001
                res = ("exc", type(e).__name__, str(e)[:4000])
            try:
                data = pickle.dumps(res, protocol=pickle.HIGHEST_PROTOCOL)
            except Exception as e:  # noqa: BLE001
                data = pickle.dumps(("exc", "PicklingError", str(e)[:500]))
            with os.fdopen(w, "wb") as f:
                f.write(data)
        except BaseException:  # noqa: BLE001
            code = 3
        finally:
            os._exit(code)
    os.close(w)
    chunks = []
    deadline = time.time() + timeout
    stalled = False
    with os.fdopen(r, "rb", buffering=0) as f:
        while True:
            left = deadline - time.time()
            if left <= 0:
                stalled = True
                break
            ready, _, _ = select.select([f], [], [], min(left, 5.0))
            if not ready:
                continue
            b = f.read(1 << 20)
            if not b:
                break
            chunks.append(b)
    if stalled:
        try:
            os.kill(pid, signal.SIGKILL)
        except OSError:
            pass
    try:
        _, status = os.waitpid(pid, 0)
    except ChildProcessError:
        status = 0
    data = b"".join(chunks)
    if data and not stalled:
        try:
            res = pickle.loads(data)
        except Exception:  # noqa: BLE001 - a truncated answer: the child died while writing
            res = None
        if res is not None:
            if res[0] == "ok":
                return res[1]
            raise RemoteError(f"{res[1]}: {res[2]}")
    if stalled:
        STATS["stalled"] += 1
        raise Stalled(f"no answer within {timeout} s (killed)")
    STATS["aborted"] += 1
    sig = os.WTERMSIG(status) if os.WIFSIGNALED(status) else None
    raise Aborted(f"process died with signal {sig}" if sig else f"process exited abnormally (status {status})")
