"""C02 - build HISTORIES: several builds in one process over the SAME Python objects (Vars produced by
`inline(model)(x)`, by operators of the v17..v21 modules whose signature changed between versions, by
`to_function` calls) with different opset surroundings (companion operators of v17..v21 in varying order).

A *history case* is plain JSON (its own replay file):

  {"kind": "hist",
   "items":  [item, ...],          every item is applied ONCE to the one argument x: float32[2,3]; its result
                                   Var is shared by all builds of the history
   "builds": [{"use": [[item_index, companion | null], ...], "drop": bool, "route": "build" | "graph"}, ...]}

  item      := {"k": "inline", "model": <catalogue name>, "opset": n}       an onnx.helper-made model, inlined
             | {"k": "native", "op": <native name>, "ver": 17..21}          a spox constructor of that module
             | {"k": "func", "op": <native name>, "ver": ..., "name": s}    the same inside a to_function body
  companion := [ver, "identity" | "neg" | "add" | "abs"]                    applied to the item's result

Judges (model-free; public API + the returned ModelProto only), for EVERY build of the history:
  full checker, strict inference, whole-model walker, onnxruntime session with ORT_DISABLE_ALL, and the
  values onnxruntime computes on a probe input against (i) the ONNX reference evaluator run on the ORIGINAL
  catalogue model / numpy for native operators and (ii) a fresh-object build of the same single request.
A raised exception is an accepted outcome.
"""
from __future__ import annotations

import warnings

import numpy as np

F32 = np.float32
X_SHAPE = (2, 3)
PROBE = np.array([[-1.5, 2.0, 0.25], [3.0, -0.5, 1.0]], F32)
VERS = [17, 18, 19, 20, 21]


# ----------------------------------------------------------------------------- catalogue of inlined models
def _cat():
    """name -> (valid source opsets, builder(opset) -> (nodes, initializers, out_shape))"""
    from onnx import TensorProto as TP
    from onnx import helper as h
    from onnx import numpy_helper as nh

    def i64(name, vals):
        return nh.from_array(np.array(vals, np.int64), name)

    def f32(name, vals):
        return nh.from_array(np.array(vals, F32), name)

    def split(ops):
        if ops < 13:
            return [h.make_node("Split", ["x"], ["a", "b"], axis=0, split=[1, 1], name="sp"),
                    h.make_node("Add", ["a", "b"], ["r"], name="ad")], [], [1, 3]
        return [h.make_node("Split", ["x"], ["a", "b"], axis=0, name="sp"),
                h.make_node("Add", ["a", "b"], ["r"], name="ad")], [], [1, 3]

    def split_in(ops):  # 13..17: sizes as an input
        return [h.make_node("Split", ["x", "sizes"], ["a", "b"], axis=1, name="sp"),
                h.make_node("Neg", ["b"], ["r"], name="ng")], [i64("sizes", [1, 2])], [2, 2]

    def reduce_(opn, keep):
        def mk(ops):
            attr_until = 12 if opn == "ReduceSum" else 17
            if ops <= attr_until:
                return [h.make_node(opn, ["x"], ["r"], axes=[1], keepdims=keep, name="rd")], [], \
                    [2, 1] if keep else [2]
            return [h.make_node(opn, ["x", "axes"], ["r"], keepdims=keep, name="rd")], [i64("axes", [1])], \
                [2, 1] if keep else [2]
        return mk

    def reduce_all(ops):  # a SCALAR produced by a reduction without axes
        return [h.make_node("ReduceMax", ["x"], ["r"], keepdims=0, name="rd")], [], []

    def unsq(ops):
        if ops < 13:
            return [h.make_node("Unsqueeze", ["x"], ["u"], axes=[0], name="us"),
                    h.make_node("Squeeze", ["u"], ["r"], axes=[0], name="sq")], [], [2, 3]
        return [h.make_node("Unsqueeze", ["x", "ax"], ["u"], name="us"),
                h.make_node("Squeeze", ["u", "ax"], ["r"], name="sq")], [i64("ax", [0])], [2, 3]

    def pad(ops):
        return [h.make_node("Pad", ["x", "pads"], ["r"], mode="constant", name="pd")], \
            [i64("pads", [0, 1, 0, 0])], [2, 4]

    def resize(ops):
        nodes = [h.make_node("Reshape", ["x", "s4"], ["x4"], name="rs0")]
        if ops < 13:
            nodes.append(h.make_node("Resize", ["x4", "roi", "scales"], ["y4"], mode="nearest", name="rz"))
            inits = [i64("s4", [1, 1, 2, 3]), f32("roi", [0, 0, 0, 0, 1, 1, 1, 1]), f32("scales", [1, 1, 2, 1])]
        else:
            nodes.append(h.make_node("Resize", ["x4", "", "scales"], ["y4"], mode="nearest", name="rz"))
            inits = [i64("s4", [1, 1, 2, 3]), f32("scales", [1, 1, 2, 1])]
        nodes.append(h.make_node("Reshape", ["y4", "s2"], ["r"], name="rs1"))
        inits.append(i64("s2", [4, 3]))
        return nodes, inits, [4, 3]

    def softmax(ops):
        return [h.make_node("Softmax", ["x"], ["r"], axis=1, name="sm")], [], [2, 3]

    def softmax0(ops):  # axis=0: before 13 the input is flattened to 2-D at `axis` (here: one row of 6)
        return [h.make_node("Softmax", ["x"], ["r"], axis=0, name="sm")], [], [2, 3]

    def cast(ops):
        return [h.make_node("Cast", ["x"], ["i"], to=TP.INT32, name="c0"),
                h.make_node("Cast", ["i"], ["r"], to=TP.FLOAT, name="c1")], [], [2, 3]

    def reshape(ops):
        kw = {"allowzero": 0} if ops >= 14 else {}
        return [h.make_node("Reshape", ["x", "shp"], ["r"], name="rs", **kw)], [i64("shp", [0, 3])], [2, 3]

    def reshape6(ops):
        return [h.make_node("Reshape", ["x", "shp"], ["r"], name="rs")], [i64("shp", [6])], [6]

    def clip(ops):
        return [h.make_node("Clip", ["x", "lo", "hi"], ["r"], name="cl")], \
            [nh.from_array(np.array(-1, F32), "lo"), nh.from_array(np.array(1, F32), "hi")], [2, 3]

    def plain(ops):
        return [h.make_node("Relu", ["x"], ["t"], name="n0"), h.make_node("Add", ["t", "x"], ["r"], name="n1")], \
            [], [2, 3]

    def if_reduce(ops):  # control flow INSIDE the inlined model; a changed operator only in a branch
        from onnx import helper as hh

        def br(opn, nm):
            n = hh.make_node(opn, ["x"], [nm + "_o"], axes=[1], keepdims=0, name=nm)
            return hh.make_graph([n], nm + "_g", [], [hh.make_tensor_value_info(nm + "_o", TP.FLOAT, [2])])
        return [h.make_node("ReduceMax", ["x"], ["m"], keepdims=0, name="mx"),
                h.make_node("Greater", ["m", "zero"], ["c"], name="gt"),
                h.make_node("If", ["c"], ["r"], then_branch=br("ReduceMax", "tb"), else_branch=br("ReduceMin", "eb"),
                            name="if0")], [nh.from_array(np.array(0, F32), "zero")], [2]

    def seq_identity(ops):  # Identity on a SEQUENCE value (accepted from opset 14 on)
        return [h.make_node("SplitToSequence", ["x"], ["s"], axis=0, keepdims=1, name="sts"),
                h.make_node("Identity", ["s"], ["s2"], name="ids"),
                h.make_node("ConcatFromSequence", ["s2"], ["r"], axis=0, name="cfs")], [], [2, 3]

    return {
        "split": ((11, 12, 13, 14, 15, 16, 17), split),
        "split_in": ((13, 14, 15, 16, 17), split_in),
        "reduce_sum": ((11, 12, 13, 14, 15, 16, 17), reduce_("ReduceSum", 0)),
        "reduce_max": ((11, 12, 13, 14, 15, 16, 17), reduce_("ReduceMax", 1)),
        "reduce_mean0": ((11, 13, 15, 17), reduce_("ReduceMean", 0)),
        "reduce_all": ((11, 13, 17), reduce_all),
        "unsqueeze": ((11, 12, 13, 14, 17), unsq),
        "pad": ((11, 13, 14, 17), pad),
        "resize": ((11, 13, 15, 17), resize),
        "softmax": ((11, 12, 13, 17), softmax),
        "softmax0": ((11, 12), softmax0),
        "cast": ((11, 13, 17), cast),
        "reshape": ((11, 13, 14, 17), reshape),
        "reshape6": ((11, 13, 14, 17), reshape6),
        "clip": ((11, 12, 13, 17), clip),
        "plain": ((11, 13, 14, 16, 17), plain),
        "if_reduce": ((11, 13, 16, 17), if_reduce),
        "seq_identity": ((14, 15, 16, 17), seq_identity),
    }


_CAT = None


def catalogue():
    global _CAT
    if _CAT is None:
        _CAT = _cat()
    return _CAT


# (the installed onnx checker refuses a model that imports the default domain ONLY as "ai.onnx", and nodes whose
#  domain field is "ai.onnx": those are not valid inlined models; the valid mixed spellings are exercised)
SPELLINGS = ["both", "both-rev", "dup", "aionnx-lower", "empty-lower", "aionnx-much-lower", "ml-and-both"]


def spelled_imports(spelling, opset):
    """opset_import entries for the DEFAULT domain under its two spellings ("" and "ai.onnx")."""
    return {
        None: [("", opset)],
        "aionnx": [("ai.onnx", opset)],
        "both": [("", opset), ("ai.onnx", opset)],
        "both-rev": [("ai.onnx", opset), ("", opset)],
        "dup": [("", opset), ("", opset)],
        "dup-aionnx": [("ai.onnx", opset), ("ai.onnx", opset)],
        "aionnx-lower": [("", opset), ("ai.onnx", max(opset - 2, 7))],
        "empty-lower": [("ai.onnx", opset), ("", max(opset - 2, 7))],
        "aionnx-much-lower": [("", opset), ("ai.onnx", 7)],
        "ml-and-both": [("ai.onnx.ml", 2), ("ai.onnx", opset), ("", opset)],
    }[spelling]


def make_inline_model(name, opset, spelling=None):
    import onnx
    from onnx import TensorProto as TP
    from onnx import helper as h

    _, builder = catalogue()[name]
    nodes, inits, oshape = builder(opset)
    if spelling == "aionnx-nodes":
        def respell(ns):
            for nd in ns:
                nd.domain = "ai.onnx"
                for a in nd.attribute:
                    if a.HasField("g"):
                        respell(a.g.node)
        respell(nodes)
    g = h.make_graph(nodes, "inl_" + name, [h.make_tensor_value_info("x", TP.FLOAT, list(X_SHAPE))],
                     [h.make_tensor_value_info("r", TP.FLOAT, oshape)], inits)
    m = h.make_model(g, opset_imports=[h.make_operatorsetid(d, v) for d, v in spelled_imports(spelling, opset)],
                     ir_version=7)
    onnx.checker.check_model(m, full_check=True)  # "for any VALID inlined model"
    return m


def reference_value(name, opset, x):
    from onnx.reference import ReferenceEvaluator

    if name == "softmax0":
        # Softmax before opset 13 coerces the input to 2-D at `axis`: axis=0 = one row holding all elements
        # (onnx.reference applies the opset-13 reading to old models; onnxruntime implements the old one)
        e = np.exp(x - x.max())
        return (e / e.sum()).astype(F32)

    return np.asarray(ReferenceEvaluator(make_inline_model(name, opset)).run(None, {"x": x})[0])


# ----------------------------------------------------------------------------- native operators (spox modules)
NATIVE = ["split", "reduce_max", "reduce_sum", "reduce_min0", "pad", "resize", "cast", "softmax", "reshape",
          "squeeze", "identity", "reduce_all"]


def _opmod(ver):
    import importlib

    return importlib.import_module(f"spox.opset.ai.onnx.v{ver}")


def apply_native(name, ver, x):
    """The operator `name` written against module v<ver> (signatures as of that version)."""
    op = _opmod(ver)
    c = op.constant
    if name == "split":
        a, b = op.split(x, outputs_count=2, axis=0) if ver == 17 else op.split(x, num_outputs=2, axis=0)
        return op.add(a, b)
    if name == "reduce_max":
        return op.reduce_max(x, axes=[1], keepdims=1) if ver == 17 else op.reduce_max(x, c(value_ints=[1]), keepdims=1)
    if name == "reduce_min0":
        return op.reduce_min(x, axes=[1], keepdims=0) if ver == 17 else op.reduce_min(x, c(value_ints=[1]), keepdims=0)
    if name == "reduce_all":
        return op.reduce_max(x, keepdims=0)
    if name == "reduce_sum":
        return op.reduce_sum(x, c(value_ints=[1]), keepdims=0)
    if name == "pad":
        return op.pad(x, c(value_ints=[0, 1, 0, 0]), mode="constant")
    if name == "resize":
        x4 = op.reshape(x, c(value_ints=[1, 1, 2, 3]))
        y4 = op.resize(x4, None, c(value_floats=[1.0, 1.0, 2.0, 1.0]), mode="nearest")
        return op.reshape(y4, c(value_ints=[4, 3]))
    if name == "cast":
        return op.cast(op.cast(x, to=np.int32), to=np.float32)
    if name == "softmax":
        return op.softmax(x, axis=1)
    if name == "reshape":
        return op.reshape(x, c(value_ints=[0, 3]), allowzero=0)
    if name == "squeeze":
        return op.squeeze(op.unsqueeze(x, c(value_ints=[0])), c(value_ints=[0]))
    if name == "identity":
        return op.identity(x)
    raise ValueError(name)


def np_native(name, x):
    if name == "split":
        return x[0:1] + x[1:2]
    if name == "reduce_max":
        return x.max(axis=1, keepdims=True)
    if name == "reduce_min0":
        return x.min(axis=1)
    if name == "reduce_all":
        return x.max()
    if name == "reduce_sum":
        return x.sum(axis=1)
    if name == "pad":
        return np.pad(x, ((0, 0), (1, 0)))
    if name == "resize":
        return np.repeat(x, 2, axis=0).reshape(4, 3)
    if name == "cast":
        return x.astype(np.int32).astype(F32)
    if name == "softmax":
        e = np.exp(x - x.max(axis=1, keepdims=True))
        return e / e.sum(axis=1, keepdims=True)
    if name == "reshape":
        return x  # (0, 3) with allowzero=0: dimension 0 is copied from the input
    if name in ("squeeze", "identity"):
        return x
    raise ValueError(name)


def np_companion(comp, v):
    if comp is None:
        return v
    k = comp[1]
    return {"identity": v, "neg": -v, "add": v + v, "abs": np.abs(v)}[k]


# ----------------------------------------------------------------------------- realisation
def _make_func(it):
    from spox._function import to_function

    def body(a):  # (exactly one parameter: to_function takes the arity from the signature)
        return [apply_native(it["op"], it["ver"], a)]

    return to_function(it["name"], it.get("domain", "hist.dom"))(body)


class History:
    """The Python objects of one history: the argument and the item result Vars are created once."""

    def __init__(self, case):
        import spox
        from spox import Tensor, argument
        from spox._function import to_function

        self.case = case
        self.x = argument(Tensor(F32, X_SHAPE))
        self.results = []
        self.item_err = []
        for it in case["items"]:
            try:
                if it["k"] == "inline":
                    m = make_inline_model(it["model"], it["opset"], it.get("spelling"))
                    (r,) = spox.inline(m)(self.x).values()
                elif it["k"] == "native":
                    r = apply_native(it["op"], it["ver"], self.x)
                else:
                    (r,) = _make_func(it)(self.x)
                self.results.append(r)
                self.item_err.append(None)
            except Exception as e:  # noqa: BLE001 - constructing the item is refused: the item is unusable
                self.results.append(None)
                self.item_err.append(f"{type(e).__name__}: {str(e)[:200]}")

    def build(self, bi):
        """-> ('ok', ModelProto, output names) | ('err', text)"""
        import spox
        from spox import _graph
        from spox._public import _temporary_renames  # noqa: F401 (only for route "graph")

        b = self.case["builds"][bi]
        try:
            outs = {}
            for j, (ii, comp) in enumerate(b["use"]):
                r = self.results[ii]
                if r is None:
                    return "err", f"item {ii} unusable: {self.item_err[ii]}", None
                if comp is not None:
                    op = _opmod(comp[0])
                    r = {"identity": op.identity, "neg": op.neg, "abs": op.abs, "add": lambda v: op.add(v, v),
                         # a SEQUENCE / OPTIONAL requested output: forwarded by spox's own (never adapted) Identity
                         "seq": lambda v: op.sequence_construct([v, v]), "opt": op.optional}[comp[1]](r)
                outs[f"y{j}"] = r
            if b.get("route") == "graph":
                self.x._rename("x")
                try:
                    m = _graph.results(**outs).with_arguments(self.x).to_onnx_model()
                finally:
                    self.x._rename(None)
            else:
                m = spox.build({"x": self.x}, outs, drop_unused_inputs=bool(b.get("drop")))
            return "ok", m, list(outs)
        except Exception as e:  # noqa: BLE001 - raising is an accepted outcome
            return "err", f"{type(e).__name__}: {str(e)[:300]}", None


def expected_values(case, bi, x=PROBE):
    """Independent of spox: reference evaluator on the original catalogue models / numpy."""
    out = {}
    for j, (ii, comp) in enumerate(case["builds"][bi]["use"]):
        it = case["items"][ii]
        if comp is not None and comp[1] in ("seq", "opt"):
            continue  # (no tensor value to compare)
        v = reference_value(it["model"], it["opset"], x) if it["k"] == "inline" else np_native(it["op"], x)
        out[f"y{j}"] = np.asarray(np_companion(comp, np.asarray(v, F32)), F32)
    return out


def run_ort_noopt(m, feeds):
    """in a forked child (lib_isolate): a native crash raises Aborted"""
    from harness import lib_isolate as ISO

    return ISO.call(_run_ort_noopt_raw, m, feeds)


def _run_ort_noopt_raw(m, feeds):
    import onnxruntime as ort

    so = ort.SessionOptions()
    so.log_severity_level = 4
    so.graph_optimization_level = ort.GraphOptimizationLevel.ORT_DISABLE_ALL
    s = ort.InferenceSession(m.SerializeToString(), so, providers=["CPUExecutionProvider"])
    names = [i.name for i in s.get_inputs()]
    outs = s.run(None, {n: feeds[n] for n in names})
    return {o.name: np.asarray(v) for o, v in zip(s.get_outputs(), outs)}


def judge_built(m, want, fresh=None):
    """-> list of (kind, detail) for one returned model of a history."""
    from harness import lib_c02c14 as L

    bad = list(L.judge_model(m))
    if any(k in ("full-checker", "strict-inference", "ort-load", "checker-aborted", "runtime-aborted") for k, _ in bad):
        return bad
    from harness import lib_isolate as ISO

    try:
        got = run_ort_noopt(m, {"x": PROBE})
    except ISO.Aborted as e:
        bad.append(("runtime-aborted", "ORT_DISABLE_ALL: " + str(e)))
        return bad
    except Exception as e:  # noqa: BLE001
        bad.append(("ort-load", "ORT_DISABLE_ALL: " + str(e)[:300]))
        return bad
    for name, w in want.items():
        g = got.get(name)
        if g is None or g.shape != w.shape or not np.allclose(g, w, rtol=1e-5, atol=1e-6):
            bad.append(("values", f"output {name}: runtime {None if g is None else g.tolist()} expected {w.tolist()}"))
            break
    if fresh is not None and not any(k == "values" for k, _ in bad):
        for name, w in fresh.items():
            g = got.get(name)
            if not (isinstance(w, np.ndarray) and w.dtype.kind == "f"):
                continue  # sequence / optional outputs
            if g is None or g.shape != w.shape or not np.allclose(g, w, rtol=1e-5, atol=1e-6, equal_nan=True):
                bad.append(("values-vs-fresh", f"output {name}: history build {None if g is None else g.tolist()} "
                                               f"fresh-object build {w.tolist()}"))
                break
    return bad


def single(case, bi):
    """The one-build history consisting of build `bi` only (for the fresh-object comparison)."""
    return {"kind": "hist", "items": case["items"], "builds": [case["builds"][bi]]}


def judge_history(case, fresh_compare=True):
    """Run the whole history on fresh objects; judge EVERY build. -> list of per-build records
    {"bi", "status", "err"?, "bad": [(kind, detail)], "fresh_status"?}"""
    recs = []
    with warnings.catch_warnings():
        warnings.simplefilter("ignore")
        hist = History(case)
        for bi in range(len(case["builds"])):
            st, m, _names = hist.build(bi)
            rec = {"bi": bi, "status": st, "bad": []}
            if st == "err":
                rec["err"] = m
                recs.append(rec)
                continue
            fresh_vals = None
            if fresh_compare and bi > 0:
                fst, fm, _ = History(single(case, bi)).build(0)
                rec["fresh_status"] = fst
                if fst == "ok":
                    try:
                        fresh_vals = run_ort_noopt(fm, {"x": PROBE})
                    except Exception:  # noqa: BLE001 - judged on its own when it is the history's own build
                        fresh_vals = None
            try:
                want = expected_values(case, bi)
            except Exception as e:  # noqa: BLE001 - the reference evaluator cannot run the original model
                want = {}
                rec["no_reference"] = f"{type(e).__name__}: {str(e)[:100]}"
            rec["bad"] = judge_built(m, want, fresh_vals)
            recs.append(rec)
    return recs


def classify(bad):
    kinds = [k for k, _ in bad]
    for k in ("checker-aborted", "runtime-aborted", "full-checker", "strict-inference", "ort-load", "walker",
              "missing-function", "values", "values-vs-fresh"):
        if k in kinds:
            return "history:" + k
    return "history:invalid"


# ----------------------------------------------------------------------------- generator
def gen_case(rng):
    cat = catalogue()
    n_items = rng.choice([1, 1, 2, 2, 3])
    items = []
    for k in range(n_items):
        r = rng.random()
        if r < 0.6:
            name = rng.choice(sorted(cat))
            it = {"k": "inline", "model": name, "opset": rng.choice(cat[name][0])}
            if rng.random() < 0.4:
                it["spelling"] = rng.choice(SPELLINGS)
            items.append(it)
        elif r < 0.85:
            items.append({"k": "native", "op": rng.choice(NATIVE), "ver": rng.choice([17, 17, 18, 19])})
        else:
            items.append({"k": "func", "op": rng.choice(NATIVE), "ver": rng.choice([17, 17, 18]), "name": f"hf{k}"})
    nb = rng.choice([2, 3, 3, 4])
    # opset surroundings in varying order: rising, falling, up-and-down
    order = rng.choice(["up", "down", "mixed", "same-then-up"])
    tops = sorted(rng.choice(VERS) for _ in range(nb))
    if order == "down":
        tops.reverse()
    elif order == "mixed":
        rng.shuffle(tops)
    elif order == "same-then-up":
        tops = [17] * (nb - 1) + [rng.choice([18, 19, 20, 21])]
    builds = []
    for top in tops:
        use = []
        idxs = [i for i in range(n_items) if rng.random() < 0.8] or [rng.randrange(n_items)]
        for n, ii in enumerate(idxs):
            comp = None
            if n == 0 and top != 17 or rng.random() < 0.4:
                comp = [top if n == 0 else rng.choice([v for v in VERS if v <= top]),
                        rng.choice(["identity", "neg", "add", "abs", "identity", "neg", "seq", "opt"])]
            use.append([ii, comp])
        builds.append({"use": use, "drop": rng.random() < 0.3, "route": "graph" if rng.random() < 0.2 else "build"})
    return {"kind": "hist", "items": items, "builds": builds}


HAND_CASES = [
    # the default domain under BOTH spellings, "ai.onnx" at a lower version than the rest of the program, and a
    # sequence / optional output (forwarded by spox's own Identity, which needs opset 14 / 16)
    {"kind": "hist", "items": [{"k": "inline", "model": "plain", "opset": 14, "spelling": "aionnx-lower"}],
     "builds": [{"use": [[0, [17, "seq"]]], "drop": False, "route": "build"},
                {"use": [[0, [17, "opt"]]], "drop": False, "route": "build"}]},
    {"kind": "hist", "items": [{"k": "inline", "model": "clip", "opset": 13, "spelling": "aionnx-lower"},
                               {"k": "native", "op": "identity", "ver": 17}],
     "builds": [{"use": [[0, None], [1, [17, "seq"]]], "drop": True, "route": "build"},
                {"use": [[0, [19, "opt"]]], "drop": False, "route": "graph"}]},
    # the held-out witness family: an opset-13 Split (no sizes) inlined once; built with a v17 companion, then
    # together with a v19 operator (Split 18 needs num_outputs), then with v21
    {"kind": "hist", "items": [{"k": "inline", "model": "split", "opset": 13}],
     "builds": [{"use": [[0, [17, "identity"]]], "drop": False, "route": "build"},
                {"use": [[0, [19, "identity"]]], "drop": False, "route": "build"},
                {"use": [[0, [21, "neg"]]], "drop": False, "route": "build"}]},
    # newest first, then older surroundings
    {"kind": "hist", "items": [{"k": "inline", "model": "reduce_max", "opset": 13},
                               {"k": "native", "op": "split", "ver": 17}],
     "builds": [{"use": [[0, [21, "identity"]], [1, None]], "drop": False, "route": "build"},
                {"use": [[0, None], [1, None]], "drop": False, "route": "build"},
                {"use": [[0, [18, "abs"]], [1, [19, "neg"]]], "drop": True, "route": "graph"}]},
    # a function whose body holds a v17 Split, called once; surroundings 17 -> 19
    {"kind": "hist", "items": [{"k": "func", "op": "split", "ver": 17, "name": "hf0"}],
     "builds": [{"use": [[0, None]], "drop": False, "route": "build"},
                {"use": [[0, [19, "identity"]]], "drop": False, "route": "build"}]},
]


def shrink(case, still_fails, budget=40):
    """Drop builds from the front/back, drop uses, drop companions, as long as the failure stays."""
    import copy

    best = copy.deepcopy(case)
    tries = 0

    def attempt(c):
        nonlocal best, tries
        tries += 1
        try:
            if still_fails(c):
                best = c
                return True
        except Exception:  # noqa: BLE001
            pass
        return False

    changed = True
    while changed and tries < budget:
        changed = False
        for bi in range(len(best["builds"]) - 1, -1, -1):
            if len(best["builds"]) > 1 and tries < budget:
                c = copy.deepcopy(best)
                del c["builds"][bi]
                changed |= attempt(c)
        for bi in range(len(best["builds"])):
            for ui in range(len(best["builds"][bi]["use"]) - 1, -1, -1):
                if len(best["builds"][bi]["use"]) > 1 and tries < budget:
                    c = copy.deepcopy(best)
                    del c["builds"][bi]["use"][ui]
                    changed |= attempt(c)
    return best


# ----------------------------------------------------------------------------- histories over generated programs
def spec_history(spec, tops, custom_keys=()):
    """A program of the C02 spec language (functions, If/Loop bodies, inlined models, mixed versions ...) realised
    ONCE and built len(tops) times over the same Vars; build k has an Identity of module v<tops[k]> on its first
    output (None = the outputs as they are). -> per-build records like judge_history (values are compared with the
    first returned build of the same history: the programs differ only by an Identity)."""
    import spox
    from harness import lib_c02c14 as L

    recs = []
    with warnings.catch_warnings():
        warnings.simplefilter("ignore")
        try:
            inputs, outputs = L.realise(spec)
        except Exception as e:  # noqa: BLE001
            return [{"bi": 0, "status": "err", "err": f"realise: {type(e).__name__}: {str(e)[:200]}", "bad": []}]
        feeds = L.rand_feeds(spec, __import__("random").Random(0))
        base = None
        for bi, top in enumerate(tops):
            rec = {"bi": bi, "status": "ok", "bad": []}
            try:
                outs = dict(outputs)
                if top is not None:
                    first = next(iter(outs))
                    outs[first] = _opmod(top).identity(outs[first])
                m = spox.build(inputs, outs, drop_unused_inputs=bool(spec.get("drop")))
            except Exception as e:  # noqa: BLE001 - raising is an accepted outcome
                rec.update(status="err", err=f"{type(e).__name__}: {str(e)[:300]}")
                recs.append(rec)
                continue
            rec["bad"] = list(L.judge_model(m, custom_keys=custom_keys))
            used = set(L.used_function_keys(m))
            if not rec["bad"] and not (used & set(custom_keys)):
                try:
                    got = run_ort_noopt(m, feeds)
                except Exception:  # noqa: BLE001 - (ORT refuses some valid nested-function models: judged by judge_model)
                    got = None
                if got is not None and base is None:
                    base = got
                elif got is not None:
                    for name, w in base.items():
                        g = got.get(name)
                        if g is None or g.shape != w.shape or not np.allclose(g, w, rtol=1e-5, atol=1e-6, equal_nan=True):
                            rec["bad"].append(("values-vs-fresh", f"output {name}: build #{bi} gives "
                                               f"{None if g is None else g.tolist()}, the first build {w.tolist()}"))
                            break
            recs.append(rec)
    return recs
