"""Fresh-process side of the C03/C12 oracles: realise abstract programs with the real spox, run
build requests (optionally after a history of other operations) and print what was observed.

Run through `core.run_isolated("from harness import front_worker as w; w.main('<cases.json>')")`
with an explicit PYTHONHASHSEED. Output: one line `RESULT <json>`.
"""
from __future__ import annotations

import hashlib
import json
import sys


def sha(model) -> str:
    return hashlib.sha1(model.SerializeToString(deterministic=True)).hexdigest()


def main(path: str) -> None:
    from harness import lib_front as lf

    cases = json.loads(open(path).read())
    out = []
    keep = []
    for c in cases:
        # perturb object addresses: sets of Vars iterate in address order
        keep.append([object() for _ in range(int(c.get("salt", 0)))])
        try:
            if "hist" in c:
                from harness import lib_history as lh

                # (no never-built-twin comparison here: this process has no past at all)
                out.append(lh.run_case(c["prog"], c["hist"], c.get("ref"), twin=bool(c.get("twin", False))))
                continue
            env = lf.realize(c["prog"])
        except Exception as e:  # noqa: BLE001 - reported per case, judged by the parent
            out.append({"worker_error": type(e).__name__ + ": " + str(e)[:200]})
            continue
        res = []
        for req in c["reqs"]:
            got = lf.run_build(env, req)
            if got[0] == "ok":
                ins, outs = lf.observed(got[1])
                res.append({"inputs": ins, "outputs": outs, "sha": sha(got[1])})
            else:
                res.append({"err": got[1]})
        out.append(res)
    sys.stdout.write("RESULT " + json.dumps(out) + "\n")
