"""C19 — the space of callable FORMS a subgraph callback can have.

`make_form(form, impl, n)` wraps `impl` (which takes exactly the `n` prescribed arguments) into a callable of the
given form; `sig_of(form, n)` is the signature the Lean model (`Model/CallForm.lean`: `accepts`) is told;
`python_accepts(form, n)` asks Python itself (model-free): the same form around a dummy, called with n objects.
Expected of spox: whatever `fun(*args)` with exactly the prescribed arguments accepts is accepted and invoked
exactly once with those arguments; what Python's call rejects raises TypeError with the body never entered.
"""
from __future__ import annotations

import functools

# forms Python's call accepts for every n (some need n >= 1)
ACCEPTED = [
    "exact_lambda", "exact_def", "posonly", "extra_default", "extra_default2", "loopvar_default", "kwonly_default",
    "starargs", "starargs_kwargs", "prefix_star", "partial_pos", "partial_kw", "partial_kwonly", "bound_method",
    "callable_instance", "staticmethod", "staticmethod_via_instance", "classmethod", "wraps", "wraps_lying",
    "lru_cache", "genfunc", "nested_partial", "defaults_all", "class_new", "method_of_class_partial",
]
NEED_ARG = {"posonly", "prefix_star"}
# forms Python's call rejects (TypeError before the body is entered)
REJECTED = ["too_few", "too_many", "kwonly_required", "partial_too_many", "instance_too_many", "method_too_few"]
REJ_NEED_ARG = {"too_few", "method_too_few"}


def applicable(form, n):
    return n >= 1 or form not in (NEED_ARG | REJ_NEED_ARG)


def make_form(form, impl, n):
    names = [f"a{i}" for i in range(n)]
    ps = ", ".join(names)
    pc = ps + ", " if ps else ""
    ns = {"impl": impl, "functools": functools}

    def ex(src):
        exec(src, ns)  # noqa: S102 - harness-generated source
        return ns["f"]

    if form == "exact_lambda":
        return ex(f"f = lambda {ps}: impl({ps})")
    if form == "exact_def":
        return ex(f"def f({ps}):\n    return impl({ps})")
    if form == "posonly":
        return ex(f"def f({ps}, /):\n    return impl({ps})")
    if form == "extra_default":
        return ex(f"def f({pc}k=7):\n    return impl({ps})")
    if form == "extra_default2":
        return ex(f"def f({pc}k=7, j=None):\n    return impl({ps})")
    if form == "loopvar_default":  # `lambda i, c, acc, k=k: ...` — the usual way to bind a Python loop variable
        fs = []
        for k in range(2):
            ns["k"] = k
            fs.append(ex(f"f = lambda {pc}k=k: impl({ps})"))
        return fs[1]
    if form == "defaults_all":  # every parameter has a default (`def then_branch(v=x)`-like)
        return ex(f"def f({', '.join(a + '=None' for a in names)}{', ' if names else ''}extra=1):\n    return impl({ps})")
    if form == "kwonly_default":
        return ex(f"def f({pc}*, scale=3):\n    return impl({ps})")
    if form == "starargs":
        return ex("def f(*args):\n    return impl(*args)")
    if form == "starargs_kwargs":
        return ex("def f(*args, **kwargs):\n    return impl(*args)")
    if form == "prefix_star":
        return ex("def f(a0, *rest):\n    return impl(a0, *rest)")
    if form == "partial_pos":
        return functools.partial(ex(f"def f(bound, {ps}):\n    return impl({ps})"), "bound")
    if form == "partial_kw":
        return functools.partial(ex(f"def f({pc}scale=None):\n    return impl({ps})"), scale=3)
    if form == "partial_kwonly":
        return functools.partial(ex(f"def f({pc}*, scale):\n    return impl({ps})"), scale=3)
    if form == "nested_partial":
        return functools.partial(functools.partial(ex(f"def f(b1, b2, {ps}):\n    return impl({ps})"), 1), 2)
    if form in ("bound_method", "method_too_few"):
        q = ps if form == "bound_method" else ", ".join(names[:-1])
        ex(f"class C:\n    def m(self{', ' if q else ''}{q}):\n        return impl({q})\nf = C().m")
        return ns["f"]
    if form in ("callable_instance", "instance_too_many"):
        q = ps if form == "callable_instance" else pc + "extra"
        ex(f"class C:\n    def __call__(self{', ' if q else ''}{q}):\n        return impl({ps})\nf = C()")
        return ns["f"]
    if form in ("staticmethod", "staticmethod_via_instance"):
        ex(f"class C:\n    @staticmethod\n    def sm({ps}):\n        return impl({ps})\nf = C.sm\ng = C().sm")
        return ns["f"] if form == "staticmethod" else ns["g"]
    if form == "classmethod":
        ex(f"class C:\n    @classmethod\n    def cm(cls{', ' if ps else ''}{ps}):\n        return impl({ps})\nf = C.cm")
        return ns["f"]
    if form == "class_new":  # a class used as the callable: `__new__` returns the results
        ex(f"class C:\n    def __new__(cls{', ' if ps else ''}{ps}):\n        return impl({ps})\nf = C")
        return ns["f"]
    if form == "method_of_class_partial":  # an unbound method with `self` supplied through partial
        ex(f"class C:\n    def m(self{', ' if ps else ''}{ps}):\n        return impl({ps})\nf = functools.partial(C.m, C())")
        return ns["f"]
    if form == "wraps":
        return ex(f"def g({ps}):\n    return impl({ps})\n@functools.wraps(g)\ndef f(*a, **k):\n    return g(*a, **k)")
    if form == "wraps_lying":  # __wrapped__ advertises one more required parameter than the wrapper needs
        return ex(f"def g({pc}extra):\n    raise AssertionError\n@functools.wraps(g)\ndef f(*a):\n    return impl(*a)")
    if form == "lru_cache":
        return functools.lru_cache(maxsize=None)(ex(f"def f({ps}):\n    return impl({ps})"))
    if form == "genfunc":  # a generator function: its result is an iterable (of Vars); the body runs when walked
        return ex(f"def f({ps}):\n    yield from impl({ps})")
    if form == "too_few":
        q = ", ".join(names[:-1])
        return ex(f"def f({q}):\n    return impl({q})")
    if form == "too_many":
        return ex(f"def f({pc}extra):\n    return impl({ps})")
    if form == "kwonly_required":
        return ex(f"def f({pc}*, scale):\n    return impl({ps})")
    if form == "partial_too_many":
        return functools.partial(ex(f"def f({ps}):\n    return impl({ps})"), "bound")
    raise ValueError(form)


def sig_of(form, n):
    """{npos, ndef, varargs, kwreq, kwbound, bound} — the callable's signature as constructed above."""
    s = {"npos": n, "ndef": 0, "varargs": False, "kwreq": 0, "kwbound": 0, "bound": 0}
    upd = {
        "extra_default": {"npos": n + 1, "ndef": 1}, "extra_default2": {"npos": n + 2, "ndef": 2},
        "loopvar_default": {"npos": n + 1, "ndef": 1}, "defaults_all": {"npos": n + 1, "ndef": n + 1},
        "starargs": {"npos": 0, "varargs": True}, "starargs_kwargs": {"npos": 0, "varargs": True},
        "prefix_star": {"npos": 1, "varargs": True}, "partial_pos": {"npos": n + 1, "bound": 1},
        "partial_kw": {"npos": n + 1, "ndef": 1}, "partial_kwonly": {"kwreq": 1, "kwbound": 1},
        "nested_partial": {"npos": n + 2, "bound": 2}, "bound_method": {"npos": n + 1, "bound": 1},
        "callable_instance": {"npos": n + 1, "bound": 1}, "classmethod": {"npos": n + 1, "bound": 1},
        "class_new": {"npos": n + 1, "bound": 1}, "method_of_class_partial": {"npos": n + 1, "bound": 1},
        "wraps": {"npos": 0, "varargs": True}, "wraps_lying": {"npos": 0, "varargs": True},
        "too_few": {"npos": max(n - 1, 0)}, "too_many": {"npos": n + 1}, "kwonly_required": {"kwreq": 1},
        "partial_too_many": {"bound": 1}, "instance_too_many": {"npos": n + 2, "bound": 1},
        "method_too_few": {"npos": n, "bound": 1},
    }
    s.update(upd.get(form, {}))
    return s


def python_accepts(form, n):
    """Model-free: does Python's call `fun(*args)` with n positional arguments enter the callable?"""
    entered = []
    f = make_form(form, lambda *a: entered.append(1) or (), n)
    try:
        r = f(*[object() for _ in range(n)])
        if form == "genfunc":
            tuple(r)
        return True
    except TypeError:
        return bool(entered)
