"""C11 — every *spelling* of an attribute argument, by attribute kind and requiredness.

The property's "attribute kinds, requiredness and default values ... each attribute under its schema
name with the value given" is also a statement about the arguments a caller can write that are NOT a
plain well-formed value:

  absent     : left out, `None`
  valid      : every way of writing a value of the kind (Python / numpy scalars, lists / tuples /
               arrays / generators, for dtype-valued attributes: scalar class, `np.dtype`, string,
               Python type, byte-order variants)
  malformed  : values that are not of the kind (for dtypes: `(int, -1)`, `"nonsense"`, an enum number,
               `object`, `np.void`, structured specs, …)

Expected, from the ONNX schema alone (requiredness r, default d of the attribute):

  left out   : r           -> TypeError (Python's own: required keyword-only argument)
               not r       -> accepted; attribute absent, or emitted with the value d
  None       : not r, no d -> accepted, attribute absent (that is what `Optional[...] = None` says)
               r or d      -> refused with an exception of the TypeError family; if accepted at all, then
                              only as "absent" (not r) / "= d" — never a silently invented value
  valid      : accepted, emitted under the schema name with exactly the value written
  malformed  : refused with an exception of the TypeError family (`Attr._validate`,
               `dtype_to_tensor_type`: "Raises TypeError")

Two users: the exhaustive call oracle (every attribute parameter of every distinct constructor /
schema, inference switched off, observed through `Node.to_onnx`) and the public-API oracle
(constructor -> `spox.build` -> ModelProto). Model side: `Conform.callAttrsE` (driver kind "spell").
"""
from __future__ import annotations

import inspect


def f32_bits(x) -> int:
    import numpy as np

    return int(np.array(x, dtype=np.float32).view(np.uint32))


def is_dtype_param(fn, a: str) -> bool:
    """the constructor takes this INT attribute as a numpy dtype (`npt.DTypeLike` annotation)"""
    try:
        ann = inspect.signature(fn).parameters[a].annotation
    except Exception:  # noqa: BLE001
        return False
    return "DTypeLike" in str(ann)


def kind_of(fn, sa) -> str:
    T = sa.type.name
    if T == "INT" and is_dtype_param(fn, sa.name):
        return "DTYPE"
    return T


def req_class(sa) -> str:
    if sa.required:
        return "req"
    d = sa.default_value
    return "def" if d is not None and d.type != 0 else "opt"


def _gen(xs):
    return (x for x in xs)


def spellings(env):
    """kind -> [(name, class, factory, expected)] ; `expected` is what must be emitted, written down
    here by hand (INT: int, FLOAT: binary32 bits, STRING: bytes, lists thereof, DTYPE: enum name)."""
    np = env.np
    T = env.spox.Tensor
    S = {
        "INT": [
            ("int", "valid", lambda: 3, 3), ("bool", "valid", lambda: True, 1),
            ("npint64", "valid", lambda: np.int64(3), 3), ("npint32neg", "valid", lambda: np.int32(-2), -2),
            ("str", "bad", lambda: "3", None), ("float", "bad", lambda: 1.5, None), ("list", "bad", lambda: [1], None),
            ("bytes", "bad", lambda: b"3", None), ("tuple", "bad", lambda: (1,), None),
            ("npfloat", "bad", lambda: np.float32(1.0), None), ("toobig", "bad", lambda: 2**70, None),
            ("arr0d", "bad", lambda: np.array(3), None),
        ],
        "FLOAT": [
            ("float", "valid", lambda: 0.625, f32_bits(0.625)), ("int", "valid", lambda: 2, f32_bits(2.0)),
            ("npf32", "valid", lambda: np.float32(0.5), f32_bits(0.5)), ("npf64", "valid", lambda: np.float64(-0.0), f32_bits(-0.0)),
            ("str", "bad", lambda: "1.0", None), ("list", "bad", lambda: [1.0], None), ("bytes", "bad", lambda: b"x", None),
            ("complex", "bad", lambda: 1j, None),
        ],
        "STRING": [
            ("str", "valid", lambda: "s", b"s"), ("empty", "valid", lambda: "", b""), ("bytes", "valid", lambda: b"by", b"by"),
            ("nonascii", "valid", lambda: "ü", "ü".encode()), ("npstr", "valid", lambda: np.str_("q"), b"q"),
            ("int", "bad", lambda: 3, None), ("float", "bad", lambda: 1.5, None), ("list", "bad", lambda: ["a"], None),
            ("tuple", "bad", lambda: ("a",), None),
        ],
        "INTS": [
            ("list", "valid", lambda: [1, 2], [1, 2]), ("tuple", "valid", lambda: (1, 2), [1, 2]),
            ("nparr", "valid", lambda: np.array([1, 2]), [1, 2]), ("gen", "valid", lambda: _gen([1, 2]), [1, 2]),
            ("range", "valid", lambda: range(2), [0, 1]), ("empty", "valid", lambda: [], []),
            ("int", "bad", lambda: 3, None), ("strs", "bad", lambda: ["a"], None), ("floats", "bad", lambda: [1.5], None),
            ("nested", "bad", lambda: [[1]], None), ("str", "bad", lambda: "ab", None), ("nones", "bad", lambda: [None], None),
            ("npfloats", "bad", lambda: np.array([1.5]), None),
        ],
        "FLOATS": [
            ("list", "valid", lambda: [0.5, 1.5], [f32_bits(0.5), f32_bits(1.5)]), ("ints", "valid", lambda: [1, 2], [f32_bits(1.0), f32_bits(2.0)]),
            ("nparr32", "valid", lambda: np.array([0.5], dtype=np.float32), [f32_bits(0.5)]), ("gen", "valid", lambda: _gen([0.25]), [f32_bits(0.25)]),
            ("float", "bad", lambda: 1.0, None), ("strs", "bad", lambda: ["a"], None), ("nested", "bad", lambda: [[1.0]], None),
            ("nones", "bad", lambda: [None], None), ("str", "bad", lambda: "ab", None),
        ],
        "STRINGS": [
            ("list", "valid", lambda: ["a", "b"], [b"a", b"b"]), ("tuple", "valid", lambda: ("a",), [b"a"]),
            ("bytes", "valid", lambda: [b"a"], [b"a"]), ("gen", "valid", lambda: _gen(["x"]), [b"x"]),
            ("int", "bad", lambda: 3, None), ("ints", "bad", lambda: [1], None), ("floats", "bad", lambda: [1.5], None),
            ("nones", "bad", lambda: [None], None), ("nested", "bad", lambda: [["a"]], None),
        ],
        "TENSOR": [
            ("nd", "valid", lambda: np.array([1.0, 2.0], dtype=np.float32), ("FLOAT", [2], [1.0, 2.0])),
            ("generic", "valid", lambda: np.float32(1), ("FLOAT", [], [1.0])),
            ("int64nd", "valid", lambda: np.array([[3]], dtype=np.int64), ("INT64", [1, 1], [3])),
            ("list", "bad", lambda: [1, 2], None), ("int", "bad", lambda: 3, None), ("str", "bad", lambda: "x", None),
            ("tuple", "bad", lambda: (1, 2), None), ("objarr", "bad", lambda: np.array([None], dtype=object), None),
        ],
        "TYPE_PROTO": [
            ("tensor", "valid", lambda: T(np.float32, (2,)), "TYPE_PROTO"),
            ("nptype", "bad", lambda: np.float32, None), ("str", "bad", lambda: "x", None), ("int", "bad", lambda: 3, None),
        ],
        "GRAPH": [
            ("int", "bad", lambda: 3, None), ("str", "bad", lambda: "body", None),
        ],
        "DTYPE": [
            ("npclass", "valid", lambda: np.float32, "FLOAT"), ("npdtype", "valid", lambda: np.dtype("int64"), "INT64"),
            ("name", "valid", lambda: "float32", "FLOAT"), ("name64", "valid", lambda: "float64", "DOUBLE"),
            ("pyfloat", "valid", lambda: float, "DOUBLE"), ("pyint", "valid", lambda: int, "INT64"),
            ("pybool", "valid", lambda: bool, "BOOL"), ("pystr", "valid", lambda: str, "STRING"),
            ("bigendian", "valid", lambda: np.dtype(">i4"), "INT32"), ("code", "valid", lambda: "<f4", "FLOAT"),
            ("f2", "valid", lambda: "f2", "FLOAT16"), ("u1", "valid", lambda: np.uint8, "UINT8"),
            ("unicode", "valid", lambda: "U3", "STRING"), ("npstr", "valid", lambda: np.str_, "STRING"),
            ("f8class", "valid", lambda: np.float64, "DOUBLE"), ("i2dtype", "valid", lambda: np.dtype(np.int16), "INT16"),
            ("tuple", "bad", lambda: (int, -1), None), ("nonsense", "bad", lambda: "nonsense", None),
            ("enum", "bad", lambda: 3, None), ("float", "bad", lambda: 1.5, None), ("object", "bad", lambda: object, None),
            ("void", "bad", lambda: np.void, None), ("list", "bad", lambda: [np.float32], None),
            ("datetime", "bad", lambda: np.datetime64, None), ("struct", "bad", lambda: "f4,i4", None),
            ("subarray", "bad", lambda: (np.int32, 2), None), ("longdouble", "bad", lambda: np.longdouble, None),
            ("nonetype", "bad", lambda: type(None), None), ("bytestr", "bad", lambda: "S", None),
            ("dict", "bad", lambda: {"names": ["a"], "formats": ["f4"]}, None),
            ("array", "bad", lambda: np.array([1.0], dtype=np.float32), None),
        ],
    }
    return S


def find_spelling(env, kind, name):
    for s in spellings(env).get(kind, []):
        if s[0] == name:
            return s
    return None


def cases_for(env, fn, schema, skip=()):
    """every attribute parameter x {left out, None, every valid spelling, every malformed one}"""
    out = []
    try:
        params = inspect.signature(fn).parameters
    except Exception:  # noqa: BLE001
        return out
    table = spellings(env)
    for a in sorted(schema.attributes):
        sa = schema.attributes[a]
        if a not in params or a in skip:
            continue
        kind = kind_of(fn, sa)
        if kind not in table:
            continue
        rc = req_class(sa)
        base = {"attr": a, "akind": kind, "req": rc}
        out.append({**base, "cls": "omitted", "sp": "omitted"})
        out.append({**base, "cls": "none", "sp": "None"})
        for name, cls, _, _ in table[kind]:
            out.append({**base, "cls": cls, "sp": name})
    return out


def value_of(env, case):
    if case["cls"] == "none":
        return None
    s = find_spelling(env, case["akind"], case["sp"])
    return s[2]()


def emitted_ok(env, case, ap) -> bool:
    """the AttributeProto holds exactly what the (valid) spelling says"""
    onnx, np = env.onnx, env.np
    AP = onnx.AttributeProto
    s = find_spelling(env, case["akind"], case["sp"])
    exp = s[3]
    k = case["akind"]
    try:
        if k == "INT":
            return ap.type == AP.INT and ap.i == exp
        if k == "FLOAT":
            return ap.type == AP.FLOAT and f32_bits(ap.f) == exp
        if k == "STRING":
            return ap.type == AP.STRING and ap.s == exp
        if k == "INTS":
            return ap.type == AP.INTS and list(ap.ints) == exp
        if k == "FLOATS":
            return ap.type == AP.FLOATS and [f32_bits(x) for x in ap.floats] == exp
        if k == "STRINGS":
            return ap.type == AP.STRINGS and list(ap.strings) == exp
        if k == "DTYPE":
            return ap.type == AP.INT and ap.i == onnx.TensorProto.DataType.Value(exp)
        if k == "TENSOR":
            et, dims, vals = exp
            t = ap.t
            got = list(t.float_data) or list(t.int64_data) or list(t.int32_data) or list(t.double_data)
            if t.raw_data:
                got = np.frombuffer(t.raw_data, dtype=onnx.helper.tensor_dtype_to_np_dtype(t.data_type)).tolist()
            return (ap.type == AP.TENSOR and t.data_type == onnx.TensorProto.DataType.Value(et)
                    and list(t.dims) == dims and [float(x) for x in got] == [float(x) for x in vals])
        if k == "TYPE_PROTO":
            return ap.type == AP.TYPE_PROTO
    except Exception:  # noqa: BLE001
        return False
    return False


def is_schema_default(env, sa, ap) -> bool:
    d = sa.default_value
    if d is None or d.type == 0:
        return False
    try:
        return ap.type == d.type and env.onnx.helper.get_attribute_value(ap) == env.onnx.helper.get_attribute_value(d)
    except Exception:  # noqa: BLE001
        return False


def judge(env, mid, op, schema, case, status, mro, err, proto):
    """-> [(key, what)]. `status` in {"ok", "raised"}; `mro` = class names of the exception;
    `proto` = the emitted NodeProto when ok."""
    a = case["attr"]
    sa = schema.attributes[a]
    rc, cls = case["req"], case["cls"]
    out = []
    ap = None
    if proto is not None:
        ap = next((x for x in proto.attribute if x.name == a), None)
    shown = f"{a}={case['sp']}" if cls != "omitted" else f"{a} left out"
    what_attr = f"{sa.type.name} attribute {a} ({'required' if rc == 'req' else 'optional, schema default' if rc == 'def' else 'optional, no default'})"
    typeerr = "TypeError" in (mro or [])
    if status == "raised":
        if cls == "valid":
            out.append((f"{mid}:{op}:{a}:spelling-rejected", f"{what_attr}: the valid spelling {shown} is refused: {err}"))
        elif (cls == "none" and rc == "opt") or (cls == "omitted" and rc != "req"):
            out.append((f"{mid}:{op}:{a}:none-rejected", f"{what_attr}: {shown} must mean 'absent', but the constructor raises {err}"))
        elif not typeerr:
            out.append((f"{mid}:{op}:{a}:error-class",
                        f"{what_attr}: {shown} is refused with {err} - not of the documented TypeError family"))
        return out
    # accepted
    emitted = None if ap is None else str(ap).replace("\n", " ")[:100]
    if cls == "bad":
        out.append((f"{mid}:{op}:{a}:malformed-accepted", f"{what_attr}: the malformed value {shown} is accepted and emitted as {emitted!r}"))
    elif cls == "valid":
        if ap is None or not emitted_ok(env, case, ap):
            out.append((f"{mid}:{op}:{a}:spelling-value", f"{what_attr}: {shown} is emitted as {emitted!r}"))
    elif cls in ("none", "omitted"):
        if rc == "req":
            out.append((f"{mid}:{op}:{a}:none-invented" if ap is not None else f"{mid}:{op}:{a}:none-accepted",
                        f"{what_attr}: {shown} is accepted" + (f" and emitted as the invented value {emitted!r}" if ap is not None else " and the node lacks the required attribute")))
        elif ap is not None and not (rc == "def" and is_schema_default(env, sa, ap)):
            out.append((f"{mid}:{op}:{a}:none-invented",
                        f"{what_attr}: {shown} is emitted as {emitted!r} - neither absent nor the schema default"))
    return out


def canonical_dtype_name(env, v):
    """numpy's reading of a valid dtype spelling, as the scalar class name the Lean table knows"""
    np = env.np
    n = np.dtype(v).type.__name__
    return {"bool": "bool_", "str": "str_"}.get(n, n)
