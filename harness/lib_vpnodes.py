"""Node-level cases for the value-propagation correspondence (C15, C07): one operator construction
under a scripted backend, described by a JSON spec so that a case is replayable.

spec = {"sel": "reference"|"onnxruntime"|"none", "at": "init"|"run",
        "node": {...}, "backend": {"raise": {isExc, id}} | {"names": [...], "vals": [...]} |
                                   {"names": [...], "noniterable": true}}
"""
from __future__ import annotations

import warnings
from typing import Any, Optional

import numpy as np

from harness import lib_valueprop as L


# ------------------------------------------------------------------------------ building nodes

def _mk_input(kind: str):
    """Input Vars for scripted nodes: (Var, InVar description without the name)."""
    import spox.opset.ai.onnx.v17 as op
    from spox import Tensor, argument

    if kind == "const":
        v = L.const_var("i64", (2,), 7)
        return v
    if kind == "constf":
        return L.const_var("f32", (2, 3), 4)
    if kind == "k":
        return op.constant(value=np.array([1], dtype=np.int64))
    if kind == "arg":
        return argument(Tensor(np.int64, (2,)))
    if kind == "untyped":
        return L.untyped_var()
    if kind == "init":
        from spox._public import initializer  # noqa: PLC0415

        return initializer(np.array([7, 7], dtype=np.int64))
    raise ValueError(kind)


def _inline_model():
    """A two-output model to inline: y = x + x, z = cast(x, float32); outputs named 'y', 'z'."""
    import spox.opset.ai.onnx.v17 as op
    from spox import Tensor, argument, build

    with L.backend_setting("none"):
        x = argument(Tensor(np.int64, (2,)))
        return build({"x": x}, {"y": op.add(x, x), "z": op.cast(x, to=np.float32)})


_INLINE_MODEL = None


def build_node(nspec: dict):
    """Construct the node described by `nspec` under the current backend; returns the Node."""
    import spox.opset.ai.onnx.v17 as op

    kind = nspec["kind"]
    if kind == "identity":
        return L.identity_node(_mk_input(nspec.get("input", "const")), nspec["out_type"])
    if kind == "topk":
        return L.topk_node(_mk_input(nspec.get("input", "constf")), _mk_input("k"), nspec["types"])
    if kind == "split":
        return L.split_node(_mk_input(nspec.get("input", "const")), nspec["types"])
    if kind == "inline":
        global _INLINE_MODEL
        from spox import inline

        if _INLINE_MODEL is None:
            _INLINE_MODEL = _inline_model()
        x = _mk_input(nspec.get("input", "const"))
        outs = inline(_INLINE_MODEL)(x=x)
        return next(iter(outs.values()))._op
    if kind == "inline0":  # node-less pass-through model: its outputs are its inputs
        from harness import lib_vpprog as P
        from spox import inline

        x = _mk_input(nspec.get("input", "const"))
        outs = inline(P._passthrough_model("i64", (2,)))(x=x)
        return next(iter(outs.values()))._op
    if kind == "inline_noinput":  # a model without graph inputs, inlined with no arguments
        from harness import lib_vpprog as P
        from spox import inline

        outs = inline(P._constant_model((1, 2)))()
        return next(iter(outs.values()))._op
    if kind == "real":
        name = nspec["op"]
        a = L.const_var("i64", (2,), 7)
        if name == "add":
            return op.add(a, _mk_input(nspec.get("input", "const")))._op
        if name == "add_same":  # one Var in two slots
            return op.add(a, a)._op
        if name == "identity":
            return op.identity(a)._op
        if name == "topk":
            v, _ = op.top_k(L.const_var("f32", (2, 3), 4), _mk_input("k"))
            return v._op
        if name == "split":
            outs = op.split(L.const_var("i64", (4,), 7), outputs_count=2)
            return outs[0]._op
        if name == "unique":
            return op.unique(a)[0]._op
        if name == "sequence_construct":
            return op.sequence_construct([a, a])._op
        if name == "optional":
            return op.optional(a)._op
        if name == "split_to_sequence":
            return op.split_to_sequence(L.const_var("i64", (4,), 7))._op
        if name == "shape":
            return op.shape(a)._op
        if name == "non_zero":
            return op.non_zero(a)._op
        if name == "if":
            cond = op.constant(value=np.array(True))
            a2 = L.const_var("i64", (2,), 8)
            (r,) = op.if_(cond, then_branch=lambda: [a2], else_branch=lambda: [a])
            return r._op
        if name == "string":
            return op.identity(L.const_var("str", (2,), 3))._op
    raise ValueError(nspec)


def _is_inline(node) -> bool:
    return type(node).__name__ == "_Inline"


def kind_json(node) -> Any:
    if _is_inline(node):
        return {"inline": [o.name for o in node.graph.output]}
    return None


def describe(spec: dict) -> Optional[dict]:
    """NodeCtx + Kind for the spec, from a construction with propagation off (types do not depend on
    the backend), falling back to the real backend."""
    for sel in ("none", "reference"):
        try:
            with warnings.catch_warnings():
                warnings.simplefilter("ignore")
                with L.backend_setting(sel):
                    node = build_node(spec["node"])
            return {"ctx": L.describe_ctx(node), "kind": kind_json(node),
                    "types": [v.type for v in node.outputs.get_vars().values()]}
        except Exception:  # noqa: BLE001
            continue
    return None


def run_case(spec: dict) -> dict:
    """Construct the node under the scripted backend; canonical outcome (see L.observe)."""
    script = spec["backend"]
    sb = L.ScriptedBackend(lambda _m: script, at=spec.get("at", "run"))
    with L.backend_setting(spec["sel"]):
        # inputs must get their values from the real machinery, not from the script: build them
        # first?  They are Constants (no backend call), so the script only ever sees this node.
        with sb.installed():
            out = L.observe(lambda: build_node(spec["node"]))
    out["backend_calls"] = sb.calls
    return out


VARIANT = "fixed"


def model_request(spec: dict, desc: dict) -> dict:
    b = spec["backend"]
    if b.get("noniterable"):
        b = {"raise": {"isExc": True, "id": 3}}  # zip(names, None) raises TypeError inside the try
    return {"fn": "node", "variant": VARIANT, "sel": spec["sel"], "ctx": desc["ctx"], "kind": desc["kind"], "backend": b}


def expected_raise_name(model: dict, spec: dict) -> dict:
    """`noniterable` is sent to the model as a TypeError raised by the backend (id 3)."""
    return model


# ----------------------------------------------------------------------------- classification

def result_kind(spec: dict, desc: Optional[dict]) -> str:
    b = spec["backend"]
    if "raise" in b:
        return "raise" if b["raise"]["isExc"] else "base-exception"
    if b.get("noniterable"):
        return "noniterable"
    names, vals = b["names"], b["vals"]
    outs = [o["key"] for o in desc["ctx"]["outputs"]] if desc else []
    known = outs if not (desc and desc["kind"]) else desc["kind"]["inline"]
    ins = [i["name"] for i in desc["ctx"]["inputs"]] if desc else []
    if len(vals) < len(names):
        return "truncated"
    if any(n in ins for n in names):
        return "input-name"
    if any(n not in known for n in names) and not (desc and desc["kind"]):
        return "unknown-name"
    if not names:
        return "empty"

    def k(v):
        if v["r"] == "list":
            return "list" + str(len(v["xs"])) if len(v["xs"]) < 2 else "list"
        return v["r"]

    return "+".join(sorted({k(v) for v in vals}))


def declared_ctor(desc: Optional[dict]) -> str:
    if not desc:
        return "?"
    cs = sorted({(o["type"] or {"t": "untyped"})["t"] for o in desc["ctx"]["outputs"]})
    return "+".join(cs)


# ------------------------------------------------------------------------------ case universe

def gen_cases(rng, thorough: bool) -> list:
    R = L.result_universe()
    D = L.declared_universe()
    cases = []

    def add(sel, node, backend, at="run"):
        cases.append({"sel": sel, "at": at, "node": node, "backend": backend})

    sels = ["reference", "onnxruntime"]
    # (1) exhaustive: declared type x result shape x pipeline, right output name
    for sel in sels:
        for ty in D + [None]:
            for val in R:
                add(sel, {"kind": "identity", "out_type": ty}, {"names": ["output"], "vals": [val]})
    # (1b) zero-length dimensions: fault-free types with an exact 0 dimension (and their neighbours), the ill-typed-array
    # fault enumerated PER DIMENSION (one extent changed: 0 -> k, k -> 0, k -> k+-1; rank +-1), right element type
    for sel in sels:
        for decl in L.ZERO_DECLS:
            for dt in (("i64", "str") if len(decl) <= 2 else ("i64",)):
                for val in L.dim_faults(decl, dt):
                    add(sel, {"kind": "identity", "out_type": L.T(dt, decl)}, {"names": ["output"], "vals": [val]})
    # (2) naming faults on a single-output node
    for sel in sels:
        for ty in [D[0], D[4], D[5], None]:
            for val in [R[0], R[4], R[18], R[28], R[25]]:
                for names in (["zzz"], ["input"], ["output", "zzz"], ["zzz", "output"],
                              ["output", "output"], ["input", "output"], ["output", "input"]):
                    vals = [val, R[0]][: len(names)] if len(names) == 2 else [val]
                    add(sel, {"kind": "identity", "out_type": ty}, {"names": names, "vals": vals})
                    if len(names) == 2:
                        add(sel, {"kind": "identity", "out_type": ty},
                            {"names": names, "vals": [R[0], val]})
            add(sel, {"kind": "identity", "out_type": ty}, {"names": [], "vals": []})
            add(sel, {"kind": "identity", "out_type": ty}, {"names": ["output"], "vals": []})
            add(sel, {"kind": "identity", "out_type": ty}, {"names": [], "vals": [R[0]]})
            add(sel, {"kind": "identity", "out_type": ty}, {"names": ["output"], "noniterable": True})
    # (3) exceptions of every class, at session construction and at run
    for sel in sels:
        for at in ("init", "run"):
            for i in range(len(L.EXC_CLASSES)):
                add(sel, {"kind": "identity", "out_type": D[0]}, {"raise": {"isExc": True, "id": i}}, at)
            for i in range(len(L.BASE_EXC_CLASSES)):
                add(sel, {"kind": "identity", "out_type": D[0]}, {"raise": {"isExc": False, "id": i}}, at)
    # (3b) exception VALUES, not only classes: no-argument instances, empty / whitespace / multi-line / very long / non-ASCII
    # messages, format directives, non-string args, subclasses with required constructor args, __str__ that raises or
    # returns "" - at session construction and at run, both backends, scripted Identity, a real multi-output operator and
    # an inlined model
    for sel in sels:
        for at in ("init", "run"):
            for v in range(len(L.EXC_VALUES)):
                for c in L.EXC_VALUE_CLASSES:
                    add(sel, {"kind": "identity", "out_type": D[0]}, {"raise": {"isExc": True, "id": L.EXC_CLASSES.index(c), "val": v}}, at)
                for node in ({"kind": "real", "op": "topk"}, {"kind": "inline0", "input": "const"}, {"kind": "inline", "input": "const"}):
                    add(sel, node, {"raise": {"isExc": True, "id": v % 4, "val": v}}, at)
    # (4) skip conditions: valueless / untyped input, propagation off
    good = {"names": ["output"], "vals": [R[0]]}
    for sel in sels + ["none"]:
        for inp in ("const", "arg", "untyped", "init"):
            add(sel, {"kind": "identity", "input": inp, "out_type": D[0]}, good)
            add(sel, {"kind": "identity", "input": inp, "out_type": D[0]}, {"raise": {"isExc": True, "id": 0}})
        add(sel, {"kind": "real", "op": "if"}, {"names": ["outputs_0"], "vals": [R[0]]})
    # (5) multi-output nodes: the mapping output name -> field, truncation, duplicates
    A = lambda dt, shape, pid: {"r": "arr", "dt": dt, "shape": shape, "pid": pid}  # noqa: E731
    v_ok, i_ok = A("f32", [2, 1], 11), A("i64", [2, 1], 12)
    tk_types = {"Values": L.T("f32", [2, 1]), "Indices": L.T("i64", [2, 1])}
    tk_backends = [
        {"names": ["Values", "Indices"], "vals": [v_ok, i_ok]},
        {"names": ["Indices", "Values"], "vals": [i_ok, v_ok]},
        {"names": ["Values", "Indices"], "vals": [i_ok, v_ok]},
        {"names": ["Values", "Indices"], "vals": [v_ok]},
        {"names": ["Indices"], "vals": [i_ok]},
        {"names": ["Values"], "vals": [v_ok, i_ok]},
        {"names": ["Values", "Values"], "vals": [i_ok, v_ok]},
        {"names": ["Values", "Indices", "X"], "vals": [v_ok, i_ok, v_ok]},
        {"names": ["Values", "zzz"], "vals": [v_ok, i_ok]},
        {"names": ["zzz", "Values"], "vals": [{"r": "list", "xs": [v_ok, v_ok]}, v_ok]},
        {"names": ["Values", "Indices"], "vals": [{"r": "list", "xs": [v_ok, v_ok]}, i_ok]},
        {"names": ["Values", "Indices"], "vals": [v_ok, {"r": "scalar", "dt": "i64", "pid": 1}]},
        {"names": ["Values", "Indices"], "vals": [{"r": "none"}, i_ok]},
        {"names": ["K", "Indices"], "vals": [i_ok, i_ok]},
    ]
    for sel in sels:
        for b in tk_backends:
            add(sel, {"kind": "topk", "types": tk_types}, b)
            add(sel, {"kind": "topk", "types": {"Values": tk_types["Values"], "Indices": None}}, b)
            add(sel, {"kind": "real", "op": "topk"}, b)
        s3 = [L.T("i64", [1]), L.T("i64", [2]), L.T("i64", [3])]
        for perm in ([0, 1, 2], [2, 0, 1], [1, 0], [2]):
            add(sel, {"kind": "split", "types": s3},
                {"names": [f"outputs_{i}" for i in perm], "vals": [A("i64", [i + 1], 20 + i) for i in perm]})
        add(sel, {"kind": "split", "types": s3},
            {"names": ["outputs_0", "outputs_1", "outputs_2"], "vals": [A("i64", [i + 1], 20 + i) for i in (2, 1, 0)]})
        add(sel, {"kind": "real", "op": "split"},
            {"names": ["outputs_1", "outputs_0"], "vals": [A("i64", [2], 21), A("i64", [2], 20)]})
    # (6) real constructors with container-typed outputs and ill-typed container results
    seq_bad = {"r": "list", "xs": [A("f64", [3], 3), A("str", [1], 5)]}
    seq_ok = {"r": "list", "xs": [A("i64", [2], 3), A("i64", [2], 5)]}
    for sel in sels:
        for opn, outname in (("sequence_construct", "output_sequence"), ("optional", "output"),
                             ("split_to_sequence", "output_sequence"), ("add", "C"), ("add_same", "C"),
                             ("identity", "output"), ("shape", "shape"), ("non_zero", "Y"),
                             ("string", "output"), ("unique", "Y")):
            for val in (seq_bad, seq_ok, A("f64", [1], 3), A("i64", [2], 3), {"r": "none"},
                        {"r": "scalar", "dt": "f64", "pid": 3}, {"r": "ragged"}, A("i64", [1, 2], 3),
                        A("str", [2], 3), A("object", [2], 3), A("object", [3], 3), A("object", [2, 1], 3),
                        A("object", [], 3), A("str", [3], 3),
                        {"r": "list", "xs": [A("object", [3], 3)]}):
                add(sel, {"kind": "real", "op": opn}, {"names": [outname], "vals": [val]})
            add(sel, {"kind": "real", "op": opn}, {"names": ["nope"], "vals": [seq_ok]})
            add(sel, {"kind": "real", "op": opn}, {"raise": {"isExc": True, "id": rng.randrange(len(L.EXC_CLASSES))}},
                rng.choice(["init", "run"]))
    # (7) inline: results mapped by the inlined graph's output names; NONE switch
    y_ok, z_ok = A("i64", [2], 14), A("f32", [2], 15)
    for sel in sels + ["none"]:
        for b in ({"names": ["y", "z"], "vals": [y_ok, z_ok]}, {"names": ["z", "y"], "vals": [z_ok, y_ok]},
                  {"names": ["y", "z"], "vals": [z_ok, y_ok]}, {"names": ["y"], "vals": [y_ok]},
                  {"names": ["q", "z"], "vals": [y_ok, z_ok]}, {"names": ["y", "z"], "vals": [y_ok]},
                  {"names": ["y", "z"], "vals": [{"r": "list", "xs": [y_ok, y_ok]}, z_ok]},
                  {"names": ["y", "z"], "vals": [{"r": "scalar", "dt": "i64", "pid": 1}, z_ok]},
                  {"names": ["y", "z"], "vals": [{"r": "ragged"}, z_ok]},
                  {"raise": {"isExc": True, "id": 4}}, {"raise": {"isExc": False, "id": 0}}):
            for inp in ("const", "arg"):
                add(sel, {"kind": "inline", "input": inp}, b)
    # (7a) every exception class also at a real multi-output operator and at an inlined model WITH inputs (fixed part)
    for sel in sels:
        for i in range(len(L.EXC_CLASSES)):
            at = ("init", "run")[i % 2]
            add(sel, {"kind": "real", "op": ("unique", "identity", "shape")[i % 3]}, {"raise": {"isExc": True, "id": i}}, at)
            add(sel, {"kind": "inline", "input": "const"}, {"raise": {"isExc": True, "id": i}}, ("run", "init")[i % 2])
    # (7b) inlined node-less pass-through model fed with a constant: every fault at session creation / run
    x_ok = A("i64", [2], 14)
    for sel in sels + ["none"]:
        for at in ("init", "run"):
            for i in range(len(L.EXC_CLASSES)):
                add(sel, {"kind": "inline0"}, {"raise": {"isExc": True, "id": i}}, at)
            add(sel, {"kind": "inline0"}, {"raise": {"isExc": False, "id": 0}}, at)
        for b in ({"names": ["x"], "vals": [x_ok]}, {"names": ["x"], "vals": [A("f64", [2], 3)]},
                  {"names": ["x"], "vals": [{"r": "list", "xs": [x_ok, x_ok]}]}, {"names": ["q"], "vals": [x_ok]},
                  {"names": ["x"], "vals": []}, {"names": ["x"], "noniterable": True},
                  {"names": ["x"], "vals": [{"r": "ragged"}]}, {"names": ["x"], "vals": [{"r": "scalar", "dt": "i64", "pid": 1}]}):
            for inp in ("const", "arg", "init"):
                add(sel, {"kind": "inline0", "input": inp}, b)
    # (7c) inlined model WITHOUT graph inputs (no skip condition can apply): every backend setting incl. NONE
    y2 = A("i64", [2], 14)
    for sel in sels + ["none"]:
        for b in ({"names": ["y"], "vals": [y2]}, {"names": ["y"], "vals": [A("f64", [2], 3)]}, {"names": ["q"], "vals": [y2]},
                  {"names": ["y"], "vals": []}, {"names": ["y"], "vals": [{"r": "list", "xs": [y2, y2]}]},
                  {"raise": {"isExc": True, "id": 1}}, {"raise": {"isExc": True, "id": 4}}, {"names": ["y"], "noniterable": True}):
            for at in ("init", "run"):
                add(sel, {"kind": "inline_noinput"}, b, at)
    # (8) seeded random: random declared types x random (possibly nested) results x names
    n_rand = 1500 if thorough else 250
    for _ in range(n_rand):
        sel = rng.choice(sels)
        shape = rng.choice(["identity", "topk", "split"])
        if shape == "identity":
            ty = rng.choice(D + [None])
            names = rng.choice([["output"], ["output"], ["output"], ["zzz"], ["input"], ["output", "zzz"]])
            node = {"kind": "identity", "out_type": ty, "input": rng.choice(["const", "const", "const", "arg"])}
        elif shape == "topk":
            node = {"kind": "topk", "types": {"Values": rng.choice(D + [None]), "Indices": rng.choice(D + [None])}}
            names = rng.choice([["Values", "Indices"], ["Indices", "Values"], ["Values"], ["Indices", "X"],
                                ["Values", "Indices", "zzz"]])
        else:
            n = rng.randrange(1, 4)
            node = {"kind": "split", "types": [rng.choice(D + [None]) for _ in range(n)]}
            names = [f"outputs_{i}" for i in range(n)]
            rng.shuffle(names)
            names = names[: rng.randrange(1, n + 1)]
        vals = [_rand_val(rng, R, 2) for _ in names]
        if rng.random() < 0.1:
            vals = vals[:-1]
        add(sel, node, {"names": names, "vals": vals}, rng.choice(["init", "run"]))
    return cases


def _rand_val(rng, R, depth):
    if depth > 0 and rng.random() < 0.25:
        return {"r": "list", "xs": [_rand_val(rng, R, depth - 1) for _ in range(rng.randrange(0, 3))]}
    v = dict(rng.choice(R))
    if "pid" in v and v.get("dt") != "bool" and 0 not in v.get("shape", []):  # empty arrays carry no content id
        v["pid"] = rng.randrange(1, 9)
    return v
