"""C11 round 10 — which ONNX schema a node class is bound to (`src/spox/_schemas.py`).

Tie H for `Model/SchemaSel.lean` (`currentSchema`, `schemasGet`; theorems `current_schema_exact`,
`schema_at_own_version`, `schema_in_force_stable`, `schemas_table_lookup` in `Props/C11.lean`):
  * driver kind `schemasel`  — the real `_current_schema` on generated lists of stand-in schemas (unsorted,
    repeated since-versions, empty; version `None` / below all / equal to one / between / above all);
  * driver kind `schemasget` — the real `SCHEMAS[domain]` table, every (version, name) of every domain, one
    version outside the range on each side included.
Model-free oracle (needs neither the model nor spox's table): for every shipped operator/module pair the schema
the node class is bound to (`cls.get_schema()`, what `min_input` and type inference use) must be the one
`onnx.defs.get_schema(name, max_inclusive_version=<module version>, domain)` — ONNX's own lookup — returns.
"""
from __future__ import annotations

import importlib
import types


def gen_lists(rng, n):
    """(sinces, version, category) — deterministic per seed."""
    out = [([], None, "empty/none"), ([], 3, "empty/version"), ([5], 5, "singleton/equal"),
           ([5], 4, "singleton/below"), ([5], None, "singleton/none"), ([3, 3], 5, "dup/above"),
           ([7, 3, 3, 7], 7, "dup/equal"), ([7, 3, 3, 7], None, "dup/none"), ([13, 1, 11], 0, "unsorted/below-all")]
    for _ in range(n):
        k = rng.randint(1, 6)
        shape = rng.choice(["sorted", "unsorted", "dup"])
        if shape == "dup":
            sinces = [rng.randint(1, 6) for _ in range(k)]
        else:
            sinces = rng.sample(range(1, 25), k)
            if shape == "sorted":
                sinces.sort()
        how = rng.choice(["none", "below-all", "equal", "between", "above-all"])
        if how == "none":
            v = None
        elif how == "below-all":
            v = min(sinces) - 1
        elif how == "equal":
            v = rng.choice(sinces)
        elif how == "above-all":
            v = max(sinces) + rng.randint(1, 3)
        else:
            v = rng.randint(min(sinces), max(sinces))
        out.append((sinces, v, f"{shape}/{how}"))
    return out


def reference(env, domain, version, op):
    try:
        return env.onnx.defs.get_schema(op, max_inclusive_version=version, domain=domain)
    except Exception:  # noqa: BLE001 - ONNX knows no such operator at that version
        return None


def lookup_verdicts(env, mid, domain, version, op, cls):
    """model-free: the class's schema vs ONNX's own lookup at the module's version"""
    ref = reference(env, domain, version, op)
    if ref is None:
        return []
    try:
        got = cls.get_schema()
    except (KeyError, LookupError) as e:
        return [(f"{mid}:{op}:schema:in-force",
                 f"{cls.__name__}.get_schema() finds no schema ({type(e).__name__}: {e}); ONNX's schema in force at "
                 f"{domain or 'ai.onnx'} {version} is {op}-{ref.since_version}")]
    if (got.name, got.domain, got.since_version) != (ref.name, ref.domain, ref.since_version):
        return [(f"{mid}:{op}:schema:in-force",
                 f"{cls.__name__} is bound to {got.name}-{got.since_version} ({got.domain!r}); ONNX's schema in force at "
                 f"{domain or 'ai.onnx'} {version} is {op}-{ref.since_version} (min_input {got.min_input} vs {ref.min_input})")]
    return []


def run(ck, env, stats):
    from translator.constructors import MODULES

    dist = {"generated_lists": {}, "table_queries": {}, "table_present": 0, "table_absent": 0,
            "oracle_pairs": 0, "mismatches": 0}
    S = None
    try:
        S = importlib.import_module("spox._schemas")
        cur, ver_lists, table = S._current_schema, S.SCHEMAS_VER_LISTS, S.SCHEMAS
    except Exception as e:  # noqa: BLE001
        ck.broken("correspondence", "spox._schemas internals not observable", f"{type(e).__name__}: {e}")
        S = None
    reqs, metas = [], []
    if S is not None:
        for sinces, v, cat in gen_lists(ck.rng, ck.pick(150, 1500)):
            objs = [types.SimpleNamespace(since_version=s, idx=i) for i, s in enumerate(sinces)]
            try:
                r = cur(objs, v) if v is not None or ck.rng.random() < 0.5 else cur(objs)
                real = -1 if r is None else r.idx
            except Exception as e:  # noqa: BLE001
                ck.broken("correspondence", "_current_schema not observable", f"{sinces}, {v}: {type(e).__name__}: {e}")
                break
            reqs.append({"kind": "schemasel", "sinces": sinces, "version": v})
            metas.append(("sel", (sinces, v), real))
            dist["generated_lists"][cat] = dist["generated_lists"].get(cat, 0) + 1
        try:
            for domain in sorted(ver_lists):
                lists = [[name, [s.since_version for s in ss]] for name, ss in sorted(ver_lists[domain].items())]
                every = [s for _, ss in lists for s in ss]
                queries, real = [], []
                for version in range(max(min(every) - 1, 0), max(every) + 2):
                    at = table.get(domain, {}).get(version, {})
                    for name, _ in lists:
                        sch = at.get(name)
                        queries.append([version, name])
                        real.append(-1 if sch is None else sch.since_version)
                        dist["table_present" if sch is not None else "table_absent"] += 1
                # a name the domain does not know
                queries.append([min(every), "NoSuchOperator"])
                real.append(-1)
                reqs.append({"kind": "schemasget", "lists": lists, "queries": queries})
                metas.append(("get", (domain, queries), real))
                dist["table_queries"][domain or "ai.onnx"] = len(queries)
        except Exception as e:  # noqa: BLE001
            ck.broken("correspondence", "SCHEMAS / SCHEMAS_VER_LISTS not observable", f"{type(e).__name__}: {e}")
    outs = []
    try:
        outs = ck.driver().ask_many("C11", reqs) if reqs else []
    except Exception as e:  # noqa: BLE001
        ck.broken("correspondence", "C11 driver (schema selection)", str(e))
    shown = 0
    for (kind, what, real), m in zip(metas, outs):
        if kind == "sel":
            if m.get("idx") != real and sorted(set(what[0])) != what[0]:
                # outside the contract of the only caller (`_get_schemas_versioned` hands over lists sorted by
                # since_version, one schema per version): recorded, not a verdict - `available[-1]` is a harmless rewrite
                dist["out_of_contract_mismatches"] = dist.get("out_of_contract_mismatches", 0) + 1
            elif m.get("idx") != real:
                dist["mismatches"] += 1
                if shown < 3:
                    shown += 1
                    ck.broken("correspondence", "SchemaSel.currentSchema vs _current_schema",
                              f"since_versions={what[0]} version={what[1]}: model picks #{m.get('idx')}, real #{real}")
        else:
            got = m.get("since")
            if got != real:
                domain, queries = what
                bad = [(q, a, b) for q, a, b in zip(queries, got or [None] * len(real), real) if a != b]
                dist["mismatches"] += len(bad)
                if shown < 3:
                    shown += 1
                    ck.broken("correspondence", f"SchemaSel.schemasGet vs SCHEMAS[{domain!r}]",
                              f"{len(bad)} of {len(real)} entries differ, e.g. [version, name]={bad[0][0]}: model since "
                              f"{bad[0][1]}, real {bad[0][2]}" if bad else f"answer {str(m)[:200]}")
    if len(outs) != len(reqs):
        ck.broken("correspondence", "C11 driver (schema selection)", f"{len(outs)} answers for {len(reqs)} requests")

    # ---- model-free oracle over the shipped pairs
    for mid, _rel, domain, version, pymod in MODULES:
        try:
            mod = env.module(pymod)
            ops = dict(mod._OPERATORS)
        except Exception:  # noqa: BLE001 - reported by the other oracles
            continue
        for op, cls in sorted(ops.items()):
            try:
                verdicts = lookup_verdicts(env, mid, domain, version, op, cls)
            except Exception as e:  # noqa: BLE001
                ck.broken("correspondence", f"schema lookup of {mid}:{op} not observable", f"{type(e).__name__}: {e}")
                continue
            dist["oracle_pairs"] += 1
            ck.count(("schema-lookup", mid, op))
            for k, whatmsg in verdicts:
                ck.failure(k, whatmsg, {"module": mid, "op": op, "kind": "schema-lookup", "case": {}})
    stats["schema_lookup"] = dist
