"""C10 round 10: graphs with MANY initializers / argument defaults.

`run_case(H, case)`  - model-free oracle: builds the program through the public API (`spox.build`), decodes the
                      serialized ModelProto with the own wire decoder and judges the property statement: every array
                      handed to `initializer` / `_future.initializer` / `arguments(x=arr)` that the results reach is in
                      `graph.initializer` exactly once, under the name its consumers refer to, with its element type,
                      shape and bit patterns; no name twice; nothing else there.
`model_request(...)` - the same program for the Lean model `InitTable.emit` (driver op `inits`), compared field by field.

`H` is the `harness.props.c10` module (array helpers), passed in to avoid a circular import.
"""
from __future__ import annotations

from harness import lib_c10wire as W

ORDER_NOTES: list = []
FIELDS = ("data_type", "dims", "name", "int32_data", "int64_data", "uint64_data", "float_data", "double_data", "string_data")


def gen_case(H, rng, big=False):
    n_args = rng.choice([0, 0, 1, 2, 3])
    n_inits = rng.choice([12, 40]) if big else rng.choice([1, 2, 2, 3, 4, 6])   # >= 11: names no longer sort like they were made
    dts = H.DT_ALL

    def spec():
        return H.rand_spec(rng, rng.choice(dts), shape=rng.choice(H.SHAPES + [[3], [2, 1, 2]]))

    args = []
    for i in range(n_args):
        s = spec()
        args.append({"name": f"a{i}", "arr": s, "default": rng.random() < 0.7})
    inits = []
    for k in range(n_inits):
        same = rng.randrange(k) if k and rng.random() < 0.25 else None     # the very same ndarray object handed over twice
        equal = rng.randrange(k) if k and same is None and rng.random() < 0.2 else None  # an equal but distinct array
        inits.append({"arr": None if same is not None else (inits[equal]["arr"] if equal is not None and inits[equal]["arr"] else spec()),
                      "same_as": same, "route": rng.choice(["graph", "future"])})
    for it in inits:     # resolve same_as chains to a spec for the expected value
        j = it["same_as"]
        while j is not None and inits[j]["arr"] is None:
            j = inits[j]["same_as"]
        it["exp"] = inits[j]["arr"] if j is not None else it["arr"]
    uses = [["i", k] for k in range(n_inits) if rng.random() < 0.9]
    uses += [["i", rng.randrange(n_inits)] for _ in range(rng.choice([0, 1, 2]))]      # one Var consumed more than once
    uses += [["a", i] for i in range(n_args) if rng.random() < 0.8]
    if not uses:
        uses = [["i", 0]]
    rng.shuffle(uses)
    return {"kind": "inits", "args": args, "inits": inits, "uses": uses}


def build_bytes(H, case):
    import numpy as np  # noqa: F401

    import spox
    import spox._future as fut
    import spox.opset.ai.onnx.v17 as op
    from spox import Tensor, argument
    from spox._graph import arguments, initializer

    arg_vars = []
    for a in case["args"]:
        arr = H.make_array(a["arr"])
        if a["default"]:
            (v,) = arguments(**{a["name"]: arr})
        else:
            v = argument(Tensor(arr.dtype, arr.shape))
        arg_vars.append(v)
    objs = []
    init_vars = []
    for it in case["inits"]:
        arr = objs[it["same_as"]] if it["same_as"] is not None else H.make_array(it["arr"])
        objs.append(arr)
        init_vars.append(initializer(arr) if it["route"] == "graph" else fut.initializer(arr))
    outs = {}
    for j, (k, i) in enumerate(case["uses"]):
        outs[f"r{j}"] = op.identity(init_vars[i] if k == "i" else arg_vars[i])
    ins = {a["name"]: v for a, v in zip(case["args"], arg_vars)}
    return spox.build(ins, outs).SerializeToString()


def decode(model_bytes):
    g = W.graph_of_model(model_bytes)
    parts = W.graph_parts(g)
    raw = [v for f, _, v in W.fields(g) if f == W.GRAPH_INITIALIZER]
    return parts, raw


def _match(H, t, spec):
    """None if the decoded tensor `t` is exactly the array of `spec`."""
    spec = H.materialise(spec)
    d = spec["dtype"]
    if t.get("dtype") != d:
        return f"element type {t.get('dtype')} instead of {d}"
    if list(t.get("dims", [])) != list(spec["shape"]):
        return f"dims {t.get('dims')} instead of {spec['shape']}"
    exp = H.words_of(H.make_array(spec))
    got = t.get("words")
    if d == "str":
        try:
            got = [[ord(c) for c in bytes(s).decode("utf-8")] for s in t.get("strs", [])]
        except UnicodeDecodeError:
            return "string_data is not UTF-8"
    if not H.same_words(d, got, exp):
        i = next((i for i, (x, y) in enumerate(zip(got or [], exp)) if x != y), None)
        return f"values differ (first index {i}; {len(got or [])} of {len(exp)} elements)"
    return None


def resolve_names(case, parts):
    """Model-free: the name a consumer uses for initializer k / argument i (None if no result reaches it)."""
    by_out = {o: n for n in parts["nodes"] for o in n["outputs"]}
    names = {}
    clash = []
    for j, (k, i) in enumerate(case["uses"]):
        n = by_out.get(f"r{j}")
        if n is None or not n["inputs"]:
            clash.append(f"result r{j} has no producing node")
            continue
        nm = n["inputs"][0]
        hops = 0
        while nm in by_out and by_out[nm]["op_type"] == "Identity" and by_out[nm]["inputs"] and hops < 8:
            nm = by_out[nm]["inputs"][0]          # `spox.build` may put a renaming Identity in front of a result
            hops += 1
        if names.setdefault((k, i), nm) != nm:
            clash.append(f"{k}{i} is referred to as {names[(k, i)]!r} and as {nm!r}")
    return names, clash


def run_case(H, case):
    """-> (problems [(key, what)], parts, raw, names)."""
    probs = []
    try:
        mb = build_bytes(H, case)
    except Exception as e:  # noqa: BLE001
        return [(f"raises:{type(e).__name__}", f"build raised {type(e).__name__}: {e}"[:200])], None, None, None
    parts, raw = decode(mb)
    names, clash = resolve_names(case, parts)
    for c in clash:
        probs.append(("name", c))
    tensors = parts["initializers"]
    tnames = [t.get("name", "") for t in tensors]
    if len(set(tnames)) != len(tnames):
        probs.append(("duplicate-name", f"graph.initializer names {tnames}"))
    expected = {}
    for (k, i), nm in names.items():
        if k == "i":
            expected.setdefault(nm, []).append((f"initializer #{i}", case["inits"][i]["exp"]))
    for i, a in enumerate(case["args"]):
        if a["default"]:
            expected.setdefault(a["name"], []).append((f"default of argument {a['name']}", a["arr"]))
    for nm, lst in expected.items():
        if len(lst) > 1:
            probs.append(("name-shared", f"{[x for x, _ in lst]} share the name {nm!r}"))
        hits = [t for t in tensors if t.get("name") == nm]
        for what, spec in lst:
            if len(hits) != 1:
                probs.append(("missing" if not hits else "twice", f"{what}: {len(hits)} tensors named {nm!r} in graph.initializer {tnames}"))
                continue
            bad = _match(H, hits[0], spec)
            if bad:
                probs.append(("value", f"{what} ({spec['dtype']}{spec['shape']}) under {nm!r}: {bad}"))
    extra = [n for n in tnames if n not in expected]
    if extra:
        probs.append(("extra", f"tensors nobody handed over: {extra}"))
    return probs, parts, raw, names


def model_request(H, case, parts, raw, names, q):
    """The program as the model sees it; own-node order of the initializers = the order of the real output (the
    build's topological order is not C10's business); arguments first, in the order of the build's inputs."""
    def arr_json(spec):
        spec = H.materialise(spec)
        a = H.make_array(spec)
        ws = H.words_of(a)
        return {"dtype": spec["dtype"], "shape": list(spec["shape"]), "words": ws if spec["dtype"] != "str" else [],
                "strs": ws if spec["dtype"] == "str" else []}

    na = len(case["args"])
    args = [{"k": "arg", "var": i, "arr": arr_json(a["arr"]) if a["default"] else None} for i, a in enumerate(case["args"])]
    var_names = [a["name"] for a in case["args"]] + [names.get(("i", k), f"<unused {k}>") for k in range(len(case["inits"]))]
    order = [t.get("name", "") for t in parts["initializers"]]
    used = [k for k in range(len(case["inits"])) if ("i", k) in names]
    used.sort(key=lambda k: order.index(names[("i", k)]) if names[("i", k)] in order else len(order) + k)
    own = list(args)
    for k in used:
        own.append({"k": "init", "var": na + k, "arr": arr_json(case["inits"][k]["exp"])})
        own.append({"k": "other"})
    return {"op": "inits", "q": q, "args": args, "own": own, "names": var_names}


def compare(model_out, raw):
    """None if the model's emitted list is the real `graph.initializer`, tensor by tensor, field by field."""
    em = model_out.get("emitted")
    if em is None:
        return f"model: {str(model_out)[:120]}"
    real = [W.tensor_typed(b) for b in raw]
    if len(em) != len(real):
        return f"model emits {len(em)} tensors {[t['name'] for t in em]}, real {len(real)} {[t['name'] for t in real]}"
    if [t["name"] for t in em] != [t["name"] for t in real] and sorted(t["name"] for t in em) == sorted(t["name"] for t in real) \
            and len({t["name"] for t in real}) == len(real):
        # the ORDER of graph.initializer is not part of the property: compare by name, report the order as a note
        by = {t["name"]: t for t in real}
        real = [by[t["name"]] for t in em]
        ORDER_NOTES.append(f"model order {[t['name'] for t in em][:6]}, real order differs")
    for i, (m, r) in enumerate(zip(em, real)):
        fs = ("data_type", "dims", "name") if r["raw_data"] else FIELDS
        for k in fs:
            if m[k] != r[k]:
                return f"tensor {i} field {k}: model {str(m[k])[:60]} real {str(r[k])[:60]}"
    return None
