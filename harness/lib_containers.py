"""Direct probes (C01, round 7): constructors that take a SEQUENCE of Vars and are not in the abstract
vocabulary of lib_prog — `sequence_construct`, `sequence_map(additional_inputs=…)`, `ml.feature_vectorizer` — called
with a caller-owned mutable `list` that the caller mutates afterwards (append, item assignment, clear, reverse,
deletion, append of the constructor's own result) before `spox.build`.  The program's dataflow is what was
constructed; the built model must compute it.  Model-free: public constructors, `spox.build`, onnxruntime
(onnx.reference as second runtime), numpy expectation.
"""

import importlib
import random
import warnings

import numpy as np

MUTATIONS = ["append", "append-own-result", "setitem", "clear", "reverse", "del", "insert", "none"]
PROBES = ["sequence_construct/at", "sequence_construct/concat", "sequence_map/extras", "feature_vectorizer"]


def mutate(lst, kind, other, own):
    if kind == "append":
        lst.append(other)
    elif kind == "append-own-result":
        lst.append(own)
    elif kind == "setitem" and lst:
        lst[0] = other
    elif kind == "clear":
        lst.clear()
    elif kind == "reverse":
        lst.reverse()
    elif kind == "del" and lst:
        del lst[-1]
    elif kind == "insert":
        lst.insert(0, other)


def run_probe(name: str, kind: str, opset: int, seed: int):
    """Returns (key, what) | None | ("skip", reason)."""
    import spox
    from spox import Tensor, argument

    rng = np.random.default_rng(seed)
    try:
        op = importlib.import_module(f"spox.opset.ai.onnx.v{opset}")
    except Exception as e:  # noqa: BLE001
        return ("skip", f"opset module: {e}")
    a_, b_, c_ = (rng.integers(-4, 5, size=3).astype(np.float32) for _ in range(3))
    feeds = {"a": a_, "b": b_, "c": c_}
    try:
        with warnings.catch_warnings():
            warnings.simplefilter("ignore")
            a, b, c = (argument(Tensor(np.float32, (3,))) for _ in range(3))
            if name.startswith("sequence_construct"):
                if not hasattr(op, "sequence_construct"):
                    return ("skip", "no sequence_construct")
                xs = [a, b]
                s = op.sequence_construct(xs)
                mutate(xs, kind, c, s)
                if name.endswith("/at"):
                    r = op.sequence_at(s, op.constant(value=np.array(1, dtype=np.int64)))
                    want = b_
                else:
                    r = op.concat_from_sequence(s, axis=0)
                    want = np.concatenate([a_, b_])
            elif name == "sequence_map/extras":
                if not hasattr(op, "sequence_map"):
                    return ("skip", "no sequence_map")
                s = op.sequence_construct([a, b])
                extras = [c]
                (mapped,) = op.sequence_map(s, extras, body=lambda elem, extra: [op.add(elem, extra)])
                mutate(extras, kind, a, mapped)
                r = op.concat_from_sequence(mapped, axis=0)
                want = np.concatenate([a_ + c_, b_ + c_])
            else:
                try:
                    ml = importlib.import_module("spox.opset.ai.onnx.ml.v3")
                except Exception as e:  # noqa: BLE001
                    return ("skip", f"ml module: {e}")
                a2, b2, c2 = (op.reshape(v, op.constant(value=np.array([1, 3], dtype=np.int64))) for v in (a, b, c))
                xs = [a2, b2]
                fv = ml.feature_vectorizer(xs, inputdimensions=[3, 3])
                mutate(xs, kind, c2, fv)
                # (spox gives FeatureVectorizer's output no rank: bring the requested output inside the premise)
                r = op.reshape(fv, op.constant(value=np.array([1, 6], dtype=np.int64)))
                want = np.concatenate([a_, b_]).reshape(1, 6)
    except (AttributeError, ImportError) as e:  # the probe's vocabulary is not there: nothing to judge
        return ("skip", f"{type(e).__name__}: {e}")
    except Exception as e:  # noqa: BLE001
        return (f"construct-raises:{type(e).__name__}", f"{name} (list {kind} afterwards): constructor raised {type(e).__name__}: {str(e)[:160]}")
    try:
        with warnings.catch_warnings():
            warnings.simplefilter("ignore")
            model = spox.build({"a": a, "b": b, "c": c}, {"r": r})
    except Exception as e:  # noqa: BLE001
        return (f"build-raises:{type(e).__name__}", f"{name}: the caller's list was mutated ({kind}) after construction: spox.build raised {type(e).__name__}: {str(e)[:160]}")
    got, err = None, None
    from harness import lib_prog as L  # onnxruntime lives in a child process there (native crashes = per-case results)

    st, sess = L.ort_session(model)
    if st == "ok":
        st, outs = L.ort_run(sess, feeds)
        if st == "ok":
            got = outs[0]
        else:
            err = str(outs)[:200]
    else:
        err = str(sess)[:200]
    if got is None:
        try:
            import onnx.reference

            got = onnx.reference.ReferenceEvaluator(model).run(None, feeds)[0]
        except Exception as e2:  # noqa: BLE001
            return ("runtime-fails", f"{name} (list {kind} afterwards): onnxruntime: {err}; reference: {type(e2).__name__}: {str(e2)[:100]}")
    got = np.asarray(got)
    if got.shape != want.shape or not np.allclose(got, want, atol=1e-6):
        return ("wrong-value", f"{name}: the caller's list was mutated ({kind}) after construction: model gives {got.tolist()}, the dataflow as constructed {want.tolist()}")
    return None


def all_probes(rng: random.Random):
    for name in PROBES:
        for kind in MUTATIONS:
            yield {"probe": name, "kind": kind, "opset": rng.choice([17, 18, 19, 20, 21]), "seed": rng.getrandbits(30)}
