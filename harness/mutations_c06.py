"""C06: the round-6 / 6b / 8 mutation table as re-runnable text substitutions.

    SPOX_REPO=/work/repo-c06 /venv/bin/python -m harness.mutations_c06 [name ...]

applies each mutant to $SPOX_REPO (never committed, always undone with `git checkout -- .`), runs
`./check C06 quick`, and prints one line per mutant: exit code, number of VIOLATION lines with a replay
(= concrete failing inputs), the first failure keys, which obligations / correspondences broke.
Outcome classes: caught-with-input | obligation-only | not-caught (exit 0).
"""
from __future__ import annotations

import json
import os
import re
import subprocess
import sys
from pathlib import Path

ROOT = Path(__file__).resolve().parent.parent
REPO = Path(os.environ.get("SPOX_REPO", "/repo"))
V17 = "src/spox/opset/ai/onnx/v17.py"
V21 = "src/spox/opset/ai/onnx/v21.py"
STD = "src/spox/_standard.py"

_LOOP_TAIL = "    ).outputs.v_final_and_scan_outputs\n"
_SCAN_TAIL = "    ).outputs.final_state_and_scan_outputs\n"
_IF_TAIL = "    ).outputs.outputs\n"
V19 = "src/spox/opset/ai/onnx/v19.py"


def _ctor_post(src: str, fn: str, cls: str, tail: str, post: str) -> str:
    i = src.index(f"def {fn}(")
    j = src.index(tail, i)
    seg = src[i:j + len(tail)]
    k = seg.rindex(f"    return {cls}(")
    seg = seg[:k] + f"    _outs = {cls}(" + seg[k + len(f"    return {cls}("):] + post
    return src[:i] + seg + src[j + len(tail):]


MUTANTS: dict = {
    "loop_scan_rows_v17": (V17, lambda s: s.replace(
        "                output_types[name] = common(res, arg)  # type: ignore\n\n        return output_types\n",
        "                output_types[name] = common(res, arg)  # type: ignore\n\n"
        "        M = self.inputs.M\n"
        "        if M is not None and M._value is not None and self.inputs.cond is None:\n"
        "            m = int(M._value.value)\n"
        "            for name in list(self.outputs.get_vars())[n:]:\n"
        "                t = output_types.get(name)\n"
        "                if isinstance(t, Tensor) and t.shape is not None and len(t.shape) >= 1:\n"
        "                    output_types[name] = Tensor(t.dtype, (m,) + tuple(t.shape[1:]))\n"
        "        return output_types\n", 1)),
    "loop_scan_rows_v21_ctor": (V21, lambda s: _ctor_post(s, "loop", "_Loop", _LOOP_TAIL,
        "    if M is not None and M._value is not None and cond is None:\n"
        "        for _o in list(_outs)[len(v_initial):]:\n"
        "            if isinstance(_o.type, Tensor) and _o.type.shape is not None and len(_o.type.shape) >= 1:\n"
        "                _o.type = Tensor(_o.type.dtype, (int(M._value.value),) + tuple(_o.type.shape[1:]))\n"
        "    return _outs\n")),
    "loop_carried_runs_for_sure": (V17, lambda s: s.replace(
        "        if all(refines(r, a) for r, a in zip(carried_types, argument_types)):\n",
        "        M = self.inputs.M\n"
        "        if M is not None and M._value is not None and int(M._value.value) >= 1 and self.inputs.cond is None:\n"
        "            for name, res in zip(carried_names, carried_types):\n"
        "                output_types[name] = res  # type: ignore\n"
        "        elif all(refines(r, a) for r, a in zip(carried_types, argument_types)):\n", 1)),
    "shape_value_from_static_type": (STD, lambda s: s.replace(
        "        if _value_prop._VALUE_PROP_BACKEND != _value_prop.ValuePropBackend.NONE:\n            return self.propagate_values_onnx()\n",
        "        if _value_prop._VALUE_PROP_BACKEND != _value_prop.ValuePropBackend.NONE:\n"
        "            if self.op_type.identifier == \"Shape\":\n"
        "                (x,) = self.inputs.get_vars().values()\n"
        "                if x._value is None and x.type is not None and getattr(x.type, \"shape\", None) is not None:\n"
        "                    dims = [d if isinstance(d, int) else 1 for d in x.type.shape]\n"
        "                    (key,) = self.outputs.get_vars().keys()\n"
        "                    return {key: np.array(dims, dtype=np.int64)}\n"
        "            return self.propagate_values_onnx()\n", 1)),
    "argument_default_propagated": ("src/spox/_internal_op.py", lambda s: (lambda i: s[:s.index("    def update_metadata", i)]
        + "    def propagate_values(self):\n        if self.attrs.default is not None:\n            return {\"arg\": self.attrs.default.value}\n        return {}\n\n"
        + s[s.index("    def update_metadata", i):])(s.index("class Argument("))),
    "sampling_guard_off": (STD, lambda s: s.replace(
        "        return self.op_type.domain in (\"\", \"ai.onnx\") and (", "        return False and (", 1)),
    "unary_fast_path": (STD, lambda s: s.replace(
        "        model, _ = self.to_singleton_onnx_model()\n\n        # Attempt to do shape inference",
        "        sch = self.schema\n"
        "        if (\n"
        "            len(sch.inputs) == 1 and len(sch.outputs) == 1 and not sch.attributes\n"
        "            and sch.inputs[0].type_str == sch.outputs[0].type_str\n"
        "            and sch.inputs[0].option == sch.inputs[0].option.Single\n"
        "        ):\n"
        "            (key,) = self.outputs.get_vars().keys()\n"
        "            (var,) = self.inputs.get_vars().values()\n"
        "            return {key: var.type}\n\n"
        "        model, _ = self.to_singleton_onnx_model()\n\n        # Attempt to do shape inference", 1)),
    "if_const_wrong_branch": (STD, lambda s: s.replace(
        "        if next(iter(self.subgraphs), None) is not None:\n            # Cannot do propagation with subgraphs implicitly",
        "        if self.op_type.identifier == \"If\":\n"
        "            cond = self.inputs.get_vars()[\"cond\"]\n"
        "            if cond._value is not None:\n"
        "                then_g, else_g = self.subgraphs\n"
        "                g = then_g if bool(cond._value.value) else else_g\n"
        "                res = list(g.requested_results.values())\n"
        "                if all(r._value is not None for r in res):\n"
        "                    return {k: r._value.value for k, r in zip(self.outputs.get_vars(), res)}\n"
        "        if next(iter(self.subgraphs), None) is not None:\n            # Cannot do propagation with subgraphs implicitly", 1)),
    "scan_len_on_axis0": (V17, lambda s: _ctor_post(s, "scan", "_Scan", _SCAN_TAIL,
        "    _n_state = len(initial_state_and_scan_inputs) - num_scan_inputs\n"
        "    _len = initial_state_and_scan_inputs[_n_state].unwrap_tensor().shape\n"
        "    _res = list(_body_subgraph.requested_results.values())\n"
        "    if _len is not None and isinstance(_len[0], int):\n"
        "        for _o, _r in zip(list(_outs)[_n_state:], _res[_n_state:]):\n"
        "            if isinstance(_r.type, Tensor) and _r.type.shape is not None:\n"
        "                _o.type = Tensor(_r.type.dtype, (_len[0],) + tuple(_r.type.shape))\n"
        "    return _outs\n")),
    "infer_memo_ignores_attributes": (STD, lambda s: s.replace(
        "    def infer_output_types(self) -> Dict[str, Type]:\n        return self.infer_output_types_onnx()\n",
        "    _INFER_CACHE: Dict[tuple, Dict[str, Type]] = {}\n\n"
        "    def infer_output_types(self) -> Dict[str, Type]:\n"
        "        ins = self.inputs.get_vars()\n"
        "        if len(ins) == 1 and not any(True for _ in self.subgraphs) and all(v._value is None for v in ins.values()):\n"
        "            key = (self.op_type, tuple(str(v.type) for v in ins.values()), len(self.outputs.get_vars()))\n"
        "            if key not in StandardNode._INFER_CACHE:\n"
        "                StandardNode._INFER_CACHE[key] = self.infer_output_types_onnx()\n"
        "            return dict(StandardNode._INFER_CACHE[key])\n"
        "        return self.infer_output_types_onnx()\n", 1)),
    "inline_propagates_through_control_flow": ("src/spox/_inline.py", lambda s: s.replace(
        "            for node in self.graph.node\n            for attr in node.attribute\n        ):",
        "            for node in self.graph.node\n            for attr in node.attribute\n        ) and False:", 1)),
    # ---- round 10 (If result types = join of the branches; Scan final states)
    "if_then_dims_v21_ctor": (V21, lambda s: _ctor_post(s, "if_", "_If", _IF_TAIL,
        "    for _o, _t in zip(_outs, _then_branch_subgraph.requested_results.values()):\n"
        "        if (isinstance(_o.type, Tensor) and isinstance(_t.type, Tensor) and _o.type.shape is not None\n"
        "                and _t.type.shape is not None and len(_o.type.shape) == len(_t.type.shape)):\n"
        "            _o.type = Tensor(_o.type.dtype, tuple(a if a is not None else b for a, b in zip(_o.type.shape, _t.type.shape)))\n"
        "    return _outs\n")),
    "if_unknown_rank_from_else_v17_override": (V17, lambda s: s.replace(
        '    op_type = OpType("If", "", 16)\n',
        "    def infer_output_types(self) -> Dict[str, Type]:\n"
        "        output_types = super().infer_output_types()\n"
        "        res = list(self.attrs.else_branch.value.requested_results.values())\n"
        "        for name, r in zip(self.outputs.get_vars(), res):\n"
        "            t = output_types.get(name)\n"
        "            if isinstance(t, Tensor) and isinstance(r.type, Tensor) and t.shape is None:\n"
        "                output_types[name] = r.type\n"
        "        return output_types\n\n"
        '    op_type = OpType("If", "", 16)\n', 1)),
    "scan_states_swapped_slots_v17_ctor": (V17, lambda s: _ctor_post(s, "scan", "_Scan", _SCAN_TAIL,
        "    _ns = len(initial_state_and_scan_inputs) - num_scan_inputs\n"
        "    if _ns >= 2:\n"
        "        _outs[0].type, _outs[1].type = _outs[1].type, _outs[0].type\n"
        "    return _outs\n")),
    # ---- outside round 7 (classes A, B)
    "sampling_guard_relaxed_when_seeded": (STD, lambda s: s.replace(
        "            self.op_type.identifier in _NON_DETERMINISTIC_OPS\n        )\n",
        "            self.op_type.identifier in _NON_DETERMINISTIC_OPS\n"
        "        ) and getattr(self.attrs, \"seed\", None) is None\n", 1)),
    "shape_le_rank0_like_unknown": ("src/spox/_shape.py", lambda s: s.replace(
        "        elif self.dims is None or other.dims is None:\n            return True\n        elif self.rank != other.rank:",
        "        elif not self.dims or not other.dims:\n            return True\n        elif self.rank != other.rank:", 1)),
    "compress_fix_reverted": (V17, lambda s: s.replace(
        "        if inp.shape is None and self.attrs.axis is not None:", "        if not inp.shape:", 1)),
}


def run_one(name: str) -> dict:
    rel, fn = MUTANTS[name]
    path = REPO / rel
    src = path.read_text()
    new = fn(src)
    if new == src:
        return {"name": name, "outcome": "PATCH-DOES-NOT-APPLY"}
    path.write_text(new)
    try:
        p = subprocess.run(["./check", "C06", "quick"], cwd=ROOT, capture_output=True, text=True, env=dict(os.environ, SPOX_REPO=str(REPO)))
        out = p.stdout + p.stderr
        viol = re.findall(r"VIOLATION property=C06 replay=(\S+)", out)
        with_input = [v for v in viol if v.endswith(".json")]
        keys = re.findall(r"FAILURE (\S+?): ", out)
        broken = sorted(set(re.findall(r"BROKEN (\w+: [^\n]{0,60})", out)))
        replay_ok = None
        if with_input:
            r1 = subprocess.run(["./check", "C06", "--replay", with_input[0]], cwd=ROOT, capture_output=True, text=True, env=dict(os.environ, SPOX_REPO=str(REPO)))
            replay_ok = "still fails" in r1.stdout
    finally:
        subprocess.run(["git", "-C", str(REPO), "checkout", "--", "."], check=True)
    replay_clean = None
    if with_input:
        r2 = subprocess.run(["./check", "C06", "--replay", with_input[0]], cwd=ROOT, capture_output=True, text=True, env=dict(os.environ, SPOX_REPO=str(REPO)))
        replay_clean = "input passes" in r2.stdout
    outcome = "caught-with-input" if with_input else ("obligation-only" if p.returncode == 1 else ("not-caught" if p.returncode == 0 else f"exit-{p.returncode}"))
    return {"name": name, "exit": p.returncode, "outcome": outcome, "violations_with_replay": len(with_input), "keys": keys[:4],
            "broken": broken[:3], "replay_fails_on_mutant": replay_ok, "replay_passes_on_clean": replay_clean}


if __name__ == "__main__":
    names = sys.argv[1:] or list(MUTANTS)
    for n in names:
        print(json.dumps(run_one(n)), flush=True)
