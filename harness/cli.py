"""CLI: ./check <Cxx> <quick|thorough>   |   ./check <Cxx> --replay <file>

Exit codes: 0 property held on everything explored (KNOWN-FINDING lines possible),
            1 violation (a `VIOLATION property=<id> replay=<path>` line is printed),
            2 infrastructure trouble (never a verdict).
"""
import importlib
import json
import os
import sys
import traceback

from harness import core


def main(argv):
    if len(argv) < 2:
        print(__doc__)
        return 2
    pid = argv[0].upper()
    seed = int(os.environ.get("VERIF_SEED", "0") or 0)
    try:
        mod = importlib.import_module(f"harness.props.{pid.lower()}")
    except ModuleNotFoundError:
        print(f"no check for {pid}")
        return 2
    core.use_repo_on_path()
    if argv[1] == "--replay":
        doc = json.loads(open(argv[2]).read())
        ck = core.Check(pid, "quick", doc.get("seed", seed))
        try:
            still = mod.replay(ck, doc)
        except Exception:
            traceback.print_exc()
            return 2
        print("REPLAY: " + ("property still fails on this input" if still else "input passes"))
        return 1 if still else 0
    tier = os.environ.get("VERIF_TIER") or argv[1]
    if tier not in ("quick", "thorough"):
        print(__doc__)
        return 2
    ck = core.Check(pid, tier, seed)
    try:
        mod.run(ck)
        return ck.finish()
    except Exception:
        traceback.print_exc()
        print(f"[{pid}] infrastructure error (exit 2; not a verdict)")
        return 2


if __name__ == "__main__":
    sys.exit(main(sys.argv[1:]))
