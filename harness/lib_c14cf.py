"""C14 - functions whose BODY holds control flow (If / Loop / Scan / SequenceMap), applied several times in
ONE model to arguments of different element type, different static shape, symbolic vs constant shape.

The bodies are written without typed constants, so the text of the body is the same at every call site; only
the static types of the nested graphs (branch results, Loop/Scan/SequenceMap formals) depend on the argument.

A *cf case* is plain JSON (its own replay file):

  {"kind": "cf", "form": "to_function" | "class", "body": "if" | "loop" | "scan" | "seqmap", "ver": 17..21,
   "name": str, "domain": str,
   "sites": [{"dtype": "f32"|"f64"|"i64", "shape": [...], "wrap": "none" | "if" | "neg", "share": k | null}, ...]}

The property demands, per case: either build refuses ("two different definitions": only acceptable when the
call sites really are typed differently) or the model passes the full checker, defines every used key once
and EVERY call site computes what the Python body computes on its argument (numpy evaluation of the body).
"""
from __future__ import annotations

import warnings

import numpy as np

DT = {"f32": np.float32, "f64": np.float64, "i64": np.int64}
BODIES = ["if", "loop", "scan", "seqmap"]
SITE_TYPES = [("f32", [2]), ("f32", [3]), ("f64", [2]), ("i64", [2]), ("f32", ["N"]), ("f32", [2, 2]), ("f32", []),
              ("f64", [3]), ("f32", [None]), ("i64", [3]), ("f32", [1]), ("f64", [])]


def _opmod(ver):
    import importlib

    return importlib.import_module(f"spox.opset.ai.onnx.v{ver}")


def body_fn(kind, ver):
    """The Python body (Var -> Var); no constant in it has the argument's dtype."""
    op = _opmod(ver)

    def i64(v):
        return op.constant(value=np.array(v, np.int64))

    def body(a):
        if kind == "if":
            c = op.greater(op.reduce_max(a, keepdims=0), op.reduce_min(a, keepdims=0))
            (r,) = op.if_(c, then_branch=lambda: [op.neg(a)], else_branch=lambda: [op.add(a, a)])
            return r
        if kind == "loop":
            (r,) = op.loop(i64(3), v_initial=[a], body=lambda i, c, s: [c, op.add(s, a)])
            return r
        if kind == "scan":
            g = op.gather(a, i64(0), axis=0)
            zero = op.sub(g, g)
            _fin, out = op.scan([zero, a], body=lambda s, x: [op.add(s, x), op.add(s, x)], num_scan_inputs=1)
            return out
        if kind == "seqmap":
            seq = op.split_to_sequence(a, axis=0, keepdims=1)
            (mapped,) = op.sequence_map(seq, [], body=lambda x: [op.add(x, x)])
            return op.concat_from_sequence(mapped, axis=0)
        raise ValueError(kind)

    return body


def np_body(kind, a):
    a = np.asarray(a)
    if kind == "if":
        return -a if a.max() > a.min() else a + a
    if kind == "loop":
        return (4 * a).astype(a.dtype)
    if kind == "scan":
        return np.cumsum(a, axis=0).astype(a.dtype)
    if kind == "seqmap":
        return a + a
    raise ValueError(kind)


def needs_rank1(kind):
    return kind in ("scan", "seqmap")


def make_callable(case):
    body = body_fn(case["body"], case.get("ver", 17))
    if case.get("form") == "class":
        from harness.lib_c14cf_classes import make_function_class

        return make_function_class(case["name"], case.get("domain", "cf.dom"), body)
    from spox._function import to_function

    def pyfun(a):  # exactly one parameter
        return [body(a)]

    f = to_function(case["name"], case.get("domain", "cf.dom"))(pyfun)
    return lambda v: list(f(v))[0]


def realise(case):
    """-> (inputs dict, outputs dict)"""
    from spox import Tensor, argument

    op = _opmod(17)
    f = make_callable(case)
    inputs, outputs = {}, {}
    site_args = []
    for k, s in enumerate(case["sites"]):
        if s.get("share") is not None and s["share"] < len(site_args):
            x = site_args[s["share"]]
        else:
            x = argument(Tensor(DT[s["dtype"]], tuple(s["shape"])))
            inputs[f"x{k}"] = x
        site_args.append(x)
        w = s.get("wrap", "none")
        if w == "if":
            c = op.greater(op.reduce_max(op.cast(x, to=np.float32), keepdims=0), op.constant(value=np.array(-1e30, np.float32)))
            (y,) = op.if_(c, then_branch=lambda x=x: [f(x)], else_branch=lambda x=x: [op.identity(x)])
        elif w == "neg":
            y = op.neg(f(op.neg(x)))
        else:
            y = f(x)
        outputs[f"y{k}"] = y
    return inputs, outputs


def build_case(case):
    import spox

    with warnings.catch_warnings():
        warnings.simplefilter("ignore")
        try:
            inputs, outputs = realise(case)
            return "ok", spox.build(inputs, outputs)
        except Exception as e:  # noqa: BLE001
            return "err", f"{type(e).__name__}: {str(e)[:260]}"


def feeds_for(case, rng):
    feeds, site_vals = {}, []
    for k, s in enumerate(case["sites"]):
        if s.get("share") is not None and s["share"] < len(site_vals):
            site_vals.append(site_vals[s["share"]])
            continue
        shape = [d if isinstance(d, int) else rng.choice([1, 2, 4]) for d in s["shape"]]
        n = int(np.prod(shape)) if shape else 1
        vals = [rng.choice([-3, -1, 1, 2, 5]) for _ in range(n)]
        if rng.random() < 0.2:
            vals = [vals[0]] * n  # all equal: the If of body "if" takes its else branch
        v = np.array(vals, DT[s["dtype"]]).reshape(shape)
        feeds[f"x{k}"] = v
        site_vals.append(v)
    return feeds, site_vals


def expected(case, site_vals):
    out = {}
    for k, (s, v) in enumerate(zip(case["sites"], site_vals)):
        w = s.get("wrap", "none")
        out[f"y{k}"] = -np_body(case["body"], -v) if w == "neg" else np_body(case["body"], v)
    return out


def types_differ(case):
    return len({(s["dtype"], tuple(map(str, s["shape"]))) for s in case["sites"]}) > 1


def single_site(case, k):
    s = dict(case["sites"][k])
    s["share"] = None
    return {**case, "sites": [s]}


def judge(case, rng, feeds_first=None):
    """-> {"status", "fails": [(key, what)], "err"?, "runtime"?, "feeds"?}"""
    from harness import lib_c02c14 as L
    from harness.props import c14 as C14

    out = {"fails": [], "runtime": None}
    st, m = build_case(case)
    out["status"] = st
    if st == "err":
        out["err"] = m
        if "two different definitions" in m and types_differ(case):
            return out  # rejected at build: the accepted alternative
        # any other refusal: is it about this body at this type on its own (unsupported), or about the combination?
        singles = [build_case(single_site(case, k)) for k in range(len(case["sites"]))]
        if all(s == "ok" for s, _ in singles):
            out["fails"].append(("valid-program-rejected",
                                 f"build raised {m[:200]} although every call site builds on its own and "
                                 f"{'the call sites are typed alike' if not types_differ(case) else 'the refusal is not the documented one'}"))
        else:
            out["unsupported_single_site"] = [e[:80] for s, e in singles if s == "err"][:1]
        return out
    from harness import lib_isolate as ISO

    try:
        L.check_full(m)
    except ISO.Aborted as e:
        out["fails"].append(("runtime-aborted", f"onnx.checker kills the process on the returned model: {e}"))
    except Exception as e:  # noqa: BLE001
        out["fails"].append(("model-not-runnable", f"full checker: {str(e)[:260]}"))
    for b in C14.definitions_per_key(m):
        out["fails"].append(("definitions-per-key", b))
    for b in C14.imports_cover(m):
        out["fails"].append(("imports-do-not-cover-body", b))
    for i in range(2):
        feeds, site_vals = feeds_for(case, rng)
        if i == 0 and feeds_first is not None:
            feeds = {k: np.asarray(v, dtype=feeds[k].dtype) for k, v in feeds_first.items()}
            site_vals, seen = [], {}
            for k, s in enumerate(case["sites"]):
                if s.get("share") is not None and s["share"] < len(site_vals):
                    site_vals.append(site_vals[s["share"]])
                else:
                    site_vals.append(feeds[f"x{k}"])
        want = expected(case, site_vals)
        got, rt = C14.run_model(m, feeds)
        out["runtime"] = rt
        if got is None:
            if rt.startswith("aborted"):
                out["fails"].append(("runtime-aborted", rt))
            elif rt.startswith("invalid"):
                out["fails"].append(("model-not-runnable", rt))
            break
        name = C14._differs(got, want)
        if name is None:
            continue
        verdict = True
        if rt == "ort":
            try:
                ref = L.run_reference(m, feeds)
            except Exception:  # noqa: BLE001
                ref = None
            if ref is not None and C14._differs(ref, want) is None:
                out["runtime"] = "ort-wrong(reference agrees with body)"
                verdict = False
            elif ref is not None and C14._differs(ref, got) is not None:
                out["runtime"] = "runtimes-disagree(no verdict)"
                verdict = False
        else:
            out["runtime"] = "reference-only-disagrees(no verdict)"
            verdict = False
        if verdict:
            k = int(name[1:])
            out["fails"].append(("call-differs-from-body",
                                 f"call site {k} ({case['sites'][k]['dtype']}{case['sites'][k]['shape']}) of "
                                 f"{case.get('domain', 'cf.dom')}:{case['name']}: runtime({rt})={np.asarray(got[name]).tolist()} "
                                 f"body={np.asarray(want[name]).tolist()}"))
            out["feeds"] = {k_: np.asarray(v).tolist() for k_, v in feeds.items()}
        break
    return out


# ----------------------------------------------------------------------------- generator
def gen_case(rng):
    kind = rng.choice(BODIES)
    types = [t for t in SITE_TYPES if not (needs_rank1(kind) and len(t[1]) == 0)]
    n = rng.choice([2, 2, 3, 4])
    mode = rng.random()
    if mode < 0.25:
        base = rng.choice(types)
        chosen = [base] * n  # typed alike: one definition, must build and be right at every site
    elif mode < 0.5:
        base = rng.choice(types)  # same dtype, shapes differ (constant vs constant / symbolic / rank)
        pool = [t for t in types if t[0] == base[0]]
        chosen = [base] + [rng.choice(pool) for _ in range(n - 1)]
    else:
        chosen = [rng.choice(types) for _ in range(n)]
    sites = []
    for k, (dt, shape) in enumerate(chosen):
        wrap = rng.choice(["none", "none", "none", "if", "neg"])
        if wrap == "neg" and kind == "if":
            wrap = "none"
        share = None
        if k > 0 and rng.random() < 0.2:
            same = [j for j in range(k) if (chosen[j] == (dt, shape)) and sites[j]["share"] is None]
            share = rng.choice(same) if same else None
        sites.append({"dtype": dt, "shape": shape, "wrap": wrap, "share": share})
    return {"kind": "cf", "form": rng.choice(["to_function", "to_function", "class"]), "body": kind,
            "ver": rng.choice([17, 17, 18, 19, 21]), "name": rng.choice(["cf", "Cf_0", "body"]),
            "domain": rng.choice(["cf.dom", "spox.function"]), "sites": sites}


def _site(dt, shape, wrap="none", share=None):
    return {"dtype": dt, "shape": shape, "wrap": wrap, "share": share}


HAND_CASES = [
    {"kind": "cf", "form": f, "body": b, "ver": 17, "name": "cf", "domain": "cf.dom", "sites": sites}
    for f in ("to_function", "class") for b in BODIES
    for sites in (
        [_site("f32", [2]), _site("f64", [2])],            # element type differs
        [_site("f32", [2]), _site("f32", [3])],            # constant shape differs
        [_site("f32", [2]), _site("f32", ["N"])],          # constant vs symbolic
        [_site("f32", [2]), _site("f32", [2])],            # typed alike, two inputs
        [_site("i64", [3]), _site("f32", [3], "if")],      # second site inside an If body of the main graph
    )
]


def shrink(case, still_fails):
    import copy

    best = copy.deepcopy(case)
    changed = True
    n = 0
    while changed and n < 12:
        changed = False
        for k in range(len(best["sites"]) - 1, -1, -1):
            if len(best["sites"]) <= 2:
                break
            c = copy.deepcopy(best)
            del c["sites"][k]
            for s in c["sites"]:
                s["share"] = None
            n += 1
            try:
                if still_fails(c):
                    best, changed = c, True
            except Exception:  # noqa: BLE001
                pass
    return best
