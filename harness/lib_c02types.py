"""C02 - ill-typed calls must raise, never come back as an invalid model: SHAPE BOUNDARIES.

For every place where spox compares the type of an argument with a declared type (inputs of an inlined
model - positional, keyword, second input, overridable initializer default -; the same inside a
`to_function` body; If branch results; Loop state vs body result; operator inputs judged by ONNX
inference) an argument of the SAME dtype is supplied whose shape differs from the declared one in exactly
one way: rank 0 vs rank >= 1 (both directions), rank r vs r+1 / r-1, one constant vs another constant,
constant vs symbolic / anonymous dimension, unknown rank. Scalars produced by reductions (keepdims=0) count.

A *typed case* is plain JSON (its own replay file):

  {"kind": "typed", "site": <site>, "decl": shape, "arg": [how, shape], "dtype": "f32"|"i64"|"f64",
   "ver": 17..21, "consume": "identity"|"shape"|"none"}

  how := "argument"      a model input of that type
       | "reduce"        a reduction (keepdims=0) of a [2,3] input: shape () or (2,) or (3,)
       | "const"         a constant of that (fully constant) shape
       | "dyn"           unknown RANK: Reshape by a shape tensor of unknown length
       | "unsqueeze"     an argument of the declared shape with a leading axis added at run time

Accepted outcomes: an exception, or a returned model that passes the full checker, strict inference, the
whole-model walker and loads in onnxruntime (default and ORT_DISABLE_ALL). Never a returned invalid model.
"""
from __future__ import annotations

import warnings

import numpy as np

DT = {"f32": np.float32, "f64": np.float64, "i64": np.int64}
SITES = ["inline_pos", "inline_kw", "inline_second", "inline_default", "func_inline", "if_branches", "loop_state",
         "concat", "inline_after_reduce"]


def _tp(dt):
    from onnx import TensorProto as TP

    return {"f32": TP.FLOAT, "f64": TP.DOUBLE, "i64": TP.INT64}[dt]


def make_model(decl, dt, second=False, default=False):
    """`r = a + a` (or a + b / a + dflt): the input under test is declared with shape `decl`."""
    import onnx
    from onnx import helper as h
    from onnx import numpy_helper as nh

    tp = _tp(dt)
    ins = [h.make_tensor_value_info("a", tp, decl)]
    inits = []
    if second:
        ins = [h.make_tensor_value_info("a0", tp, [2, 3]), h.make_tensor_value_info("a", tp, decl)]
        nodes = [h.make_node("Neg", ["a0"], ["t"], name="n0"), h.make_node("Abs", ["a"], ["r"], name="n1")]
        outs = [h.make_tensor_value_info("t", tp, [2, 3]), h.make_tensor_value_info("r", tp, decl)]
    elif default:
        cshape = [d if isinstance(d, int) else 2 for d in decl]
        ins = [h.make_tensor_value_info("a0", tp, cshape), h.make_tensor_value_info("a", tp, cshape)]
        inits = [nh.from_array(np.ones(cshape, DT[dt]), "a")]
        nodes = [h.make_node("Add", ["a0", "a"], ["r"], name="n0")]
        outs = [h.make_tensor_value_info("r", tp, cshape)]
    else:
        nodes = [h.make_node("Add", ["a", "a"], ["r"], name="n0")]
        outs = [h.make_tensor_value_info("r", tp, decl)]
    g = h.make_graph(nodes, "typed_inner", ins, outs, inits)
    m = h.make_model(g, opset_imports=[h.make_operatorsetid("", 17)], ir_version=8)
    onnx.checker.check_model(m, full_check=True)
    return m


def make_arg(how, shape, dt, op, args):
    """-> Var of dtype dt whose static shape is `shape` (None = unknown rank); new model inputs go to `args`."""
    from spox import Tensor, argument

    def new_arg(t):
        v = argument(t)
        args[f"in{len(args)}"] = v
        return v

    if how == "argument":
        return new_arg(Tensor(DT[dt], tuple(shape)))
    if how == "const":
        return op.constant(value=np.ones(tuple(shape), DT[dt]))
    if how == "reduce":
        x = new_arg(Tensor(DT[dt], (2, 3)))
        if len(shape) == 0:
            return op.reduce_sum(x, keepdims=0)
        axis = 1 if list(shape) == [2] else 0
        return op.reduce_sum(x, op.constant(value_ints=[axis]), keepdims=0)
    if how == "dyn":
        x = new_arg(Tensor(DT[dt], (2, 3)))
        s = new_arg(Tensor(np.int64, (None,)))
        return op.reshape(x, s)
    if how == "unsqueeze":
        x = new_arg(Tensor(DT[dt], tuple(shape[1:])))
        return op.unsqueeze(x, op.constant(value_ints=[0]))
    raise ValueError(how)


def realise(case):
    """-> ModelProto (build returned) ; raises whatever spox raises."""
    import importlib

    import spox
    from spox import Tensor, argument
    from spox._function import to_function

    op = importlib.import_module(f"spox.opset.ai.onnx.v{case.get('ver', 17)}")
    dt = case.get("dtype", "f32")
    decl = list(case["decl"])
    how, ashape = case["arg"]
    site = case["site"]
    args: dict = {}
    a = make_arg(how, ashape, dt, op, args)

    def decl_var():
        cshape = tuple(d if isinstance(d, int) else 2 for d in decl)
        v = argument(Tensor(DT[dt], cshape))
        args[f"in{len(args)}"] = v
        return v

    if site in ("inline_pos", "inline_after_reduce"):
        (r,) = spox.inline(make_model(decl, dt))(a).values()
    elif site == "inline_kw":
        (r,) = spox.inline(make_model(decl, dt))(a=a).values()
    elif site == "inline_second":
        x0 = argument(Tensor(DT[dt], (2, 3)))
        args[f"in{len(args)}"] = x0
        t, r = spox.inline(make_model(decl, dt, second=True))(x0, a).values()
        r = op.add(op.reduce_sum(t, keepdims=0), op.reduce_sum(r, keepdims=0)) if dt != "i64" else r
    elif site == "inline_default":
        x0 = decl_var()
        (r,) = spox.inline(make_model(decl, dt, default=True))(x0, a=a).values()
    elif site == "func_inline":
        m = make_model(decl, dt)

        def body(v):
            return list(spox.inline(m)(v).values())

        (r,) = to_function("typed_fn", "typed.dom")(body)(a)
    elif site == "if_branches":
        c = argument(Tensor(np.bool_, ()))
        args[f"in{len(args)}"] = c
        d = decl_var()
        (r,) = op.if_(c, then_branch=lambda: [op.neg(d) if dt != "i64" else op.abs(d)], else_branch=lambda: [a])
    elif site == "loop_state":
        d = decl_var()
        (r,) = op.loop(op.constant(value=np.array(2, np.int64)), v_initial=[d], body=lambda i, c, s: [c, a])
    elif site == "concat":
        d = decl_var()
        r = op.concat([d, a], axis=0)
    else:
        raise ValueError(site)
    consume = case.get("consume", "none")
    if consume == "identity":
        r = op.identity(r)
    elif consume == "shape":
        r = op.shape(r)
    return spox.build(args, {"r": r}, drop_unused_inputs=bool(case.get("drop")))


def build_case(case):
    """('ok', ModelProto) | ('err', 'Class: text')"""
    with warnings.catch_warnings():
        warnings.simplefilter("ignore")
        try:
            return "ok", realise(case)
        except Exception as e:  # noqa: BLE001 - raising is the accepted outcome for an ill-typed call
            return "err", f"{type(e).__name__}: {str(e)[:200]}"


def judge_built(m):
    from harness import lib_c02c14 as L

    bad = list(L.judge_model(m))
    if not any(k in ("ort-load", "runtime-aborted", "checker-aborted") for k, _ in bad):
        from harness import lib_isolate as ISO

        try:
            ISO.call(_load_noopt, m)
        except ISO.Aborted as e:
            bad.append(("runtime-aborted", "ORT_DISABLE_ALL: " + str(e)))
        except Exception as e:  # noqa: BLE001
            bad.append(("ort-load", "ORT_DISABLE_ALL: " + str(e)[:300]))
    return bad


def _load_noopt(m):
    import onnxruntime as ort

    so = ort.SessionOptions()
    so.log_severity_level = 4
    so.graph_optimization_level = ort.GraphOptimizationLevel.ORT_DISABLE_ALL
    ort.InferenceSession(m.SerializeToString(), so, providers=["CPUExecutionProvider"])
    return True


def build_any(case):
    return build_optseq(case) if case.get("kind") == "optseq" else build_case(case)


def classify(case, bad):
    kinds = [k for k, _ in bad]
    if case.get("kind") == "optseq":
        for k in ("full-checker", "strict-inference", "ort-load", "walker", "missing-function"):
            if k in kinds:
                d = [x for kk, x in bad if kk == k][0]
                if "Identity" in d and "optional" in d:
                    # the Identity nodes spox itself emits (output wrapping / intros / inlined pass-through) do not
                    # accept optional types before opset 16
                    return "optional-value-through-internal-identity-below-opset-16"
                return f"optional-or-sequence-value:{k}"
        return "optional-or-sequence-value:invalid"
    for k in ("checker-aborted", "runtime-aborted", "full-checker", "strict-inference", "ort-load", "walker",
              "missing-function"):
        if k in kinds:
            return f"ill-typed-call-returned-invalid-model:{k}"
    return "ill-typed-call-returned-invalid-model"


# ----------------------------------------------------------------------------- generator
DECLS = [[2, 3], [2], [], [1], ["N", 3], [None, 3], ["N"], [2, 3, 4], [1, 3], [0, 3]]


def variations(decl):
    """(how, shape, tag) - same-dtype arguments whose shape differs from decl in exactly one way (+ the
    well-typed ones, which must build)."""
    out = []
    const = all(isinstance(d, int) for d in decl)
    cshape = [d if isinstance(d, int) else 2 for d in decl]
    out.append(("argument", list(decl), "same"))
    if const:
        out.append(("const", cshape, "same-const"))
    if decl:
        out.append(("argument", [], "rank0-for-rank>=1"))
        out.append(("reduce", [], "reduced-scalar-for-rank>=1"))
        out.append(("const", [], "const-scalar-for-rank>=1"))
        out.append(("argument", list(decl[1:]), "rank-1"))
        out.append(("argument", list(decl[:-1]), "rank-1-tail"))
    else:
        out.append(("reduce", [], "same-reduced-scalar"))
        out.append(("argument", [1], "rank1-for-rank0"))
        out.append(("argument", [2], "rank1-for-rank0"))
        out.append(("reduce", [2], "reduced-vector-for-rank0"))
        out.append(("argument", ["N"], "rank1-symbolic-for-rank0"))
    out.append(("argument", [1] + list(decl), "rank+1"))
    out.append(("argument", list(decl) + [1], "rank+1-tail"))
    if cshape and len(cshape) <= 3:
        out.append(("unsqueeze", [1] + cshape, "rank+1-unsqueezed"))
    for i, d in enumerate(decl):
        other = list(decl)
        other[i] = (d + 1) if isinstance(d, int) else 5
        out.append(("argument", other, "dim-differs" if isinstance(d, int) else "const-for-symbolic"))
        if isinstance(d, int):
            sym = list(decl)
            sym[i] = "K"
            out.append(("argument", sym, "symbolic-for-const"))
            anon = list(decl)
            anon[i] = None
            out.append(("argument", anon, "anonymous-for-const"))
    if list(decl) == [2]:
        out.append(("reduce", [2], "same-reduced"))
        out.append(("reduce", [3], "reduced-dim-differs"))
    out.append(("dyn", None, "unknown-rank"))
    return out


def all_cases():
    """The systematic grid (deterministic): every site x declared shape x variation, f32."""
    cases = []
    for site in SITES:
        for decl in DECLS:
            if site == "inline_after_reduce":
                continue
            if site in ("inline_default", "if_branches", "loop_state", "concat") and any(
                    not isinstance(d, int) for d in decl):
                continue
            if site == "concat" and not decl:
                continue
            for how, shape, tag in variations(decl):
                cases.append({"kind": "typed", "site": site, "decl": decl, "arg": [how, shape], "dtype": "f32",
                              "ver": 17, "consume": "none", "tag": tag})
    return cases


def gen_case(rng):
    site = rng.choice(SITES[:-1])
    decls = [d for d in DECLS if not (site in ("inline_default", "if_branches", "loop_state", "concat")
                                      and any(not isinstance(x, int) for x in d)) and not (site == "concat" and not d)]
    decl = rng.choice(decls)
    how, shape, tag = rng.choice(variations(decl))
    return {"kind": "typed", "site": site, "decl": decl, "arg": [how, shape],
            "dtype": rng.choice(["f32", "f32", "f64", "i64"]), "ver": rng.choice([17, 18, 19, 21]),
            "consume": rng.choice(["none", "identity", "shape"]), "drop": rng.random() < 0.3, "tag": tag}


# ----------------------------------------------------------------------------- Optional / Sequence typed values
"""Optional- and Sequence-typed values at the places where spox itself emits nodes for them (the Identity nodes of
`build`'s output wrapping / `intros`, the Identity an inlined model needs for an output that is directly an
input) or hands them through (If results, Loop state, function / inlined-model arguments) - at the LOWEST opset
the program otherwise needs (the operators' own since-versions: Optional-15, SequenceConstruct-11, ...) and
with companions of newer modules.

  {"kind": "optseq", "make": <MAKES>, "route": <ROUTES>, "ver": 17..21, "comp": null | ver}
"""
MAKES = ["optional", "optional_empty", "sequence", "opt_seq", "opt_get", "seq_at", "seq_empty", "arg_optional",
         "arg_sequence"]
ROUTES = ["output", "two_outputs", "tensor_then_output", "intros", "if_result", "loop_state", "func_arg", "inline_arg", "inline_passthrough"]


def _optseq_value(make, op, args):
    import spox
    from spox import Optional, Sequence, Tensor, argument

    def new_arg(t):
        v = argument(t)
        args[f"in{len(args)}"] = v
        return v

    f2 = Tensor(np.float32, (2,))
    if make == "arg_optional":
        return new_arg(Optional(f2))
    if make == "arg_sequence":
        return new_arg(Sequence(f2))
    a = new_arg(f2)
    if make == "optional":
        return op.optional(a)
    if make == "optional_empty":
        return op.optional(type=f2)
    if make == "sequence":
        return op.sequence_construct([a, a])
    if make == "seq_empty":
        return op.sequence_empty(dtype=np.float32)
    if make == "opt_seq":
        return op.optional(op.sequence_construct([a]))
    if make == "opt_get":
        return op.optional_get_element(op.optional(a))
    if make == "seq_at":
        return op.sequence_at(op.sequence_construct([a, a]), op.constant(value=np.array(1, np.int64)))
    raise ValueError(make)


def _type_proto(t):
    """spox type -> onnx.TypeProto through the public constructor arguments only"""
    from onnx import TensorProto as TP
    from onnx import helper as h
    from spox import Optional, Sequence

    if isinstance(t, Optional):
        return h.make_optional_type_proto(_type_proto(t.elem_type))
    if isinstance(t, Sequence):
        return h.make_sequence_type_proto(_type_proto(t.elem_type))
    return h.make_tensor_type_proto(TP.FLOAT, None if t.shape is None else list(t.shape))


def realise_optseq(case):
    import importlib

    import onnx
    import spox
    from onnx import helper as h
    from spox import Optional, Sequence, Tensor, argument
    from spox._function import to_function

    op = importlib.import_module(f"spox.opset.ai.onnx.v{case.get('ver', 17)}")
    args: dict = {}
    v = _optseq_value(case["make"], op, args)
    route = case["route"]
    outs = {}
    if route == "output":
        outs["r"] = v
    elif route == "two_outputs":
        outs["r"] = v
        outs["r2"] = v
    elif route == "tensor_then_output":
        # (one internal operator forwards all requested outputs: the optional one is not the first)
        t0 = argument(Tensor(np.float32, (2,)))
        args["t_in"] = t0
        outs["t0"] = op.abs(t0)
        outs["r"] = v
    elif route == "intros":
        from spox._internal_op import intros

        t0 = argument(Tensor(np.float32, (2,)))
        args["t_in"] = t0
        _t, outs["r"] = intros(t0, v)
    elif route == "if_result":
        c = argument(Tensor(np.bool_, ()))
        args["c"] = c
        (outs["r"],) = op.if_(c, then_branch=lambda: [v], else_branch=lambda: [v])
    elif route == "loop_state":
        (outs["r"],) = op.loop(op.constant(value=np.array(2, np.int64)), v_initial=[v], body=lambda i, c, s: [c, s])
    elif route == "func_arg":
        f = to_function("optseq_fn", "optseq.dom")(lambda s: [op.identity(s)])
        (outs["r"],) = f(v)
    elif route in ("inline_arg", "inline_passthrough"):
        tp = _type_proto(v.unwrap_type())
        vi = h.make_value_info("s", tp)
        mops = case.get("inline_opset", 16)
        if route == "inline_passthrough":
            g = h.make_graph([], "pass", [vi], [h.make_value_info("s", tp)])
        else:
            g = h.make_graph([h.make_node("Identity", ["s"], ["t"], name="idn")], "idg", [vi], [h.make_value_info("t", tp)])
        m = h.make_model(g, opset_imports=[h.make_operatorsetid("", mops)], ir_version=8)
        onnx.checker.check_model(m, full_check=True)
        (outs["r"],) = spox.inline(m)(v).values()
    else:
        raise ValueError(route)
    if case.get("comp"):
        a2 = argument(Tensor(np.float32, (2,)))
        args["z"] = a2
        outs["zz"] = importlib.import_module(f"spox.opset.ai.onnx.v{case['comp']}").identity(a2)
    return spox.build(args, outs)


def build_optseq(case):
    with warnings.catch_warnings():
        warnings.simplefilter("ignore")
        try:
            return "ok", realise_optseq(case)
        except Exception as e:  # noqa: BLE001 - raising is an accepted outcome
            return "err", f"{type(e).__name__}: {str(e)[:200]}"


def all_optseq_cases():
    cases = []
    for make in MAKES:
        for route in ROUTES:
            for ver, comp in ((17, None), (19, None), (17, 19), (17, 21)):
                c = {"kind": "optseq", "make": make, "route": route, "ver": ver, "comp": comp}
                if route.startswith("inline"):
                    for mops in (15, 16, 17):
                        cases.append({**c, "inline_opset": mops})
                else:
                    cases.append(c)
    return cases
