"""C19 — nested control flow: callbacks that themselves call control-flow constructors.

A *program* is a tree: a constructor call whose callbacks (bodies) call further constructors with
recording callbacks of their own, down to depth 3, over every shipped opset module. Operands of an
inner call are taken from anywhere in the enclosing scopes (the enclosing body's arguments, arguments
of grand-parent bodies, top-level model inputs); every body additionally *reads* values of enclosing
scopes (so that values are used only at depth >= 2).

Observed on the real code (public API only): every invocation (callback id, argument Vars), the
number of outputs of every constructor call, and the invocation counters after each later step
(builds incl. `drop_unused_inputs=True`, inference / value propagation of every node at every depth,
copies, inlining).  Judged model-free against ONNX's prescription (`P.prescription`, from
harness/props/c19.py) and compared with the Lean model (`Model/SubgraphNested.lean`: `runForest`).
"""
from __future__ import annotations

import itertools
import warnings

F32, I64, BOOL = 1, 7, 9


def T(dt, shape):
    return {"t": dt, "s": None if shape is None else list(shape)}


# top-level model inputs of every nested program (all shapes static: the programs are built)
TOP = [
    T(F32, (2,)), T(F32, (2, 3)), T(I64, (2,)), T(F32, ()), {"seq": T(F32, (2,))}, {"seq": T(I64, ())},
    T(F32, (2, 2, 3)),
]
CTORS = ["if_", "loop", "scan", "sequence_map"]
ROLES = {"if_": ["else_branch", "then_branch"], "loop": ["body"], "scan": ["body"], "sequence_map": ["body"]}
STEPS = ["build", "build_drop", "infer_all", "valueProp_all", "to_onnx", "copy", "inline", "build"]
MODEL_STEP = {"build": "build", "build_drop": "build", "to_onnx": "build", "infer_all": "infer",
              "valueProp_all": "valueProp", "copy": "copy", "inline": "inline"}


def is_tensor(d):
    return d is not None and "t" in d


def case_like(call):
    """The constructor call in the vocabulary of harness/props/c19.py (for `prescription`)."""
    c = {"ctor": call["ctor"], "mod": call["mod"], "lists": {}, "singles": {}, "ints": {}, "axes": None}
    if call["ctor"] == "loop":
        c["lists"]["v_initial"] = [r["d"] for r in call["list"]]
    elif call["ctor"] == "scan":
        c["lists"]["initial_state_and_scan_inputs"] = [r["d"] for r in call["list"]]
        c["ints"]["num_scan_inputs"] = call["m"]
    elif call["ctor"] == "sequence_map":
        c["singles"]["input_sequence"] = call["single"]["d"]
        c["lists"]["additional_inputs"] = [r["d"] for r in call["list"]]
    return c


def gen_call(rng, P, mod, depth, scope, ids, ctor=None, width=None):
    """scope: list of refs {"ref": ("top", i) | ("arg", body id, j), "d": type, "use": usable as operand}"""
    usable = [r for r in scope if r["use"]]
    tensors = [r for r in usable if is_tensor(r["d"])]
    seqs = [r for r in usable if "seq" in r["d"]]
    scannable = [r for r in tensors if r["d"]["s"] and len(r["d"]["s"]) >= 1]
    ctor = ctor or rng.choice(CTORS)
    if ctor == "sequence_map" and not seqs:
        ctor = "loop"
    if ctor == "scan" and not scannable:
        ctor = "loop"
    call = {"ctor": ctor, "mod": mod, "list": [], "single": None, "m": 0}

    def pick(pool, lo, hi):
        return [rng.choice(pool) for _ in range(rng.randrange(lo, hi + 1))] if pool else []

    if ctor == "loop":
        call["list"] = pick(usable, 0, 3)
        call["M"] = rng.choice(["top", "const3", "const0", "none"])
        if call["M"] == "none" and not call["list"]:
            call["M"] = "const3"  # (a Loop without trip count and without inputs would be evaluated forever by value propagation)
        call["cond"] = rng.choice([None, None, "constTrue", "constFalse"]) if call["M"] != "none" else "constTrue"
    elif ctor == "scan":
        first = rng.choice(scannable)
        same = [r for r in scannable if r["d"]["s"][0] == first["d"]["s"][0]]
        scans = [first] + pick(same, 0, 2)
        call["list"] = pick(tensors, 0, 2) + scans
        call["m"] = len(scans)
    elif ctor == "sequence_map":
        call["single"] = rng.choice(seqs)
        call["list"] = pick(tensors + seqs, 0, 3)
    else:
        call["cond"] = rng.choice(["top"] + [x for x in P.IF_COND[1:]])
        call["n"] = rng.choice([1, 1, 2, 3])
    presc = P.prescription(case_like(call))
    call["bodies"] = {}
    for role in ROLES[ctor]:
        bid = next(ids)
        types = presc[role]
        new_scope = list(scope)
        for j, d in enumerate(types):
            # Loop's iteration number / condition: read, but not passed on as operands (their declared
            # shape is the subject of a known finding)
            new_scope.append({"ref": ("arg", bid, j), "d": d, "use": not (ctor == "loop" and j < 2)})
        n_inner = 0 if depth <= 1 else (width if width is not None else rng.choice([0, 1, 1, 2]))
        inner = [gen_call(rng, P, mod, depth - 1, new_scope, ids, width=width) for _ in range(n_inner)]
        caps = [rng.choice(new_scope)["ref"] for _ in range(rng.randrange(0, 4))]
        # read something of an enclosing scope (for an inner body: a value used only at depth >= 2)
        if scope and rng.random() < 0.7:
            caps.append(rng.choice(scope)["ref"])
        if ctor == "if_":
            n = call["n"]
        elif ctor == "loop":
            n = 1 + len(call["list"]) + 1
        elif ctor == "scan":
            n = len(call["list"]) - call["m"] + 1
        else:
            n = 1
        from harness import lib_c19forms as forms

        fm = rng.choice(forms.ACCEPTED) if rng.random() < 0.5 else None
        if fm and not forms.applicable(fm, len(types)):
            fm = None
        call["bodies"][role] = {"id": bid, "types": types, "inner": inner, "reads": caps, "n": n, "form": fm}
    return call


def gen_programs(rng, P, mods, n_random, depth3):
    progs = []
    ids = None
    top_scope = [{"ref": ("top", i), "d": d, "use": True} for i, d in enumerate(TOP)]
    # every outer x inner constructor pair, in every module (depth 2, one inner call per body)
    for mod in mods:
        for outer in CTORS:
            for inner in CTORS:
                ids = itertools.count()
                call = gen_call(rng, P, mod, 1, top_scope, ids, ctor=outer)
                for b in call["bodies"].values():
                    sc = top_scope + [{"ref": ("arg", b["id"], j), "d": d, "use": not (call["ctor"] == "loop" and j < 2)}
                                      for j, d in enumerate(b["types"])]
                    b["inner"] = [gen_call(rng, P, mod, 1, sc, ids, ctor=inner)]
                progs.append({"kind": "nested", "mod": mod, "call": call})
    for k in range(n_random):
        ids = itertools.count()
        mod = mods[k % len(mods)]
        depth = 3 if k < depth3 else 2
        progs.append({"kind": "nested", "mod": mod, "call": gen_call(rng, P, mod, depth, top_scope, ids, width=1 if depth == 3 else None),
                      "ambient": rng.choice(P.AMBIENTS[1:]) if rng.random() < 0.4 else None})
    return progs


FAIL_BEHS = ["notCallable", "nonIterable", "hasNonVar", "hasNestedVars", "badArity", "raises"]


def add_failing(rng, progs, n):
    """copies of programs in which exactly one body (at any depth) is malformed in one of the six ways"""
    import copy

    out = []
    pool = [p for p in progs if len(list(all_bodies(p["call"]))) >= 2]
    for k in range(n):
        p = copy.deepcopy(pool[(k * 7) % len(pool)])
        bodies = [b for b, *_ in all_bodies(p["call"])]
        b = bodies[rng.randrange(len(bodies))] if k % 3 else bodies[-1]
        b["fail"] = FAIL_BEHS[k % len(FAIL_BEHS)]
        for bb in bodies:
            if bb.get("form") == "lru_cache" or bb is b:
                bb["form"] = None
        p["ambient"] = None
        p["failing"] = True
        out.append(p)
    return out


def all_bodies(call, depth=1, parent=None):
    """pre-order: (body, call, role, depth, parent body id)"""
    for role in ROLES[call["ctor"]]:
        b = call["bodies"][role]
        yield b, call, role, depth, parent
        for c in b["inner"]:
            yield from all_bodies(c, depth + 1, b["id"])


def all_calls(call):
    yield call
    for role in ROLES[call["ctor"]]:
        for c in call["bodies"][role]["inner"]:
            yield from all_calls(c)


def tuplify(x):
    return tuple(tuplify(y) for y in x) if isinstance(x, (list, tuple)) else x


class _NestBoom(Exception):
    pass


def P_ambient(env, name, op):
    """the scoped setting under which the outermost constructor is called (harness.props.c19.ambient_context)"""
    import contextlib

    if name is None:
        return contextlib.nullcontext()
    from harness.props import c19

    return c19.ambient_context(env, name, op)


# ----------------------------------------------------------------------------- running on the real code
def run_program(env, prog, steps=STEPS):
    """-> observation dict. `env` is harness.props.c19.Env (public API + guarded internals)."""
    np = env.np
    op = env.mods[prog["mod"]]
    spox = env.spox
    Tensor = env.ts.Tensor
    obs = {"events": [], "calls": [], "result": None, "steps": [], "step_errors": [], "fresh": True, "unnamed": True,
           "counts_ctor": {}, "counts": {}}
    counters = {}
    rec = []  # (body id, args)
    call_outs = []  # (call, number of outputs) in completion order
    nodes = []
    with warnings.catch_warnings():
        warnings.simplefilter("ignore")
        tops = [spox.argument(env.to_spox(d)) for d in TOP]
        m_arg = spox.argument(Tensor(np.int64, ()))
        b_arg = spox.argument(Tensor(np.bool_, ()))
    values = {("top", i): v for i, v in enumerate(tops)}

    def summ(v):
        t = v.type
        if isinstance(t, env.ts.Tensor):
            return op.cast(op.size(v), to=np.float32)
        if isinstance(t, env.ts.Sequence):
            return op.cast(op.sequence_length(v), to=np.float32)
        return op.const(np.float32(0))

    def do_call(call):
        ctor = call["ctor"]
        f = getattr(op, ctor)
        cbs = {}
        for role in ROLES[ctor]:
            cbs[role] = make_body(call, role)
        lst = [values[tuplify(r["ref"])] for r in call["list"]]
        if ctor == "loop":
            M = {"top": m_arg, "const3": op.const(np.array(3, np.int64)), "const0": op.const(np.array(0, np.int64)),
                 "none": None}[call["M"]]
            cond = None if call["cond"] is None else op.const(np.array([call["cond"] == "constTrue"]))
            outs = f(M, cond, v_initial=lst, body=cbs["body"])
        elif ctor == "scan":
            outs = f(lst, body=cbs["body"], num_scan_inputs=call["m"])
        elif ctor == "sequence_map":
            outs = f(values[tuplify(call["single"]["ref"])], lst, body=cbs["body"])
        else:
            from harness.props import c19 as P_

            c = b_arg if call["cond"] == "top" else P_.known_value(env, op, *P_.split_known(call["cond"]))
            outs = f(c, then_branch=cbs["then_branch"], else_branch=cbs["else_branch"])
        outs = list(outs)
        call_outs.append((call, len(outs)))
        if outs:
            nodes.append(getattr(outs[0], "_op", None))
        return outs

    def make_body(call, role):
        b = call["bodies"][role]
        bid = b["id"]

        def fun(*args):
            counters[bid] = counters.get(bid, 0) + 1
            rec.append((bid, args))
            for j, a in enumerate(args):
                values[("arg", bid, j)] = a
            acc = op.const(np.float32(0))
            for c in b["inner"]:
                for o in do_call(c):
                    acc = op.add(acc, summ(o))
            for ref in b["reads"]:
                v = values.get(tuplify(ref))
                if v is not None:
                    acc = op.add(acc, summ(v))
            ctor = call["ctor"]
            fl = b.get("fail")
            if fl == "raises":  # (after its inner calls ran)
                raise _NestBoom("nested callback raised")
            if fl == "nonIterable":
                return 5
            if fl == "hasNonVar":
                return [acc, 3]
            if fl == "hasNestedVars":
                return [[acc, acc]]
            if ctor == "if_":
                return [acc, op.const(np.float32(1)), op.identity(acc)][: b["n"]]
            if ctor == "loop":
                return [args[1]] + list(args[2:]) + [acc]
            if ctor == "scan":
                return list(args[: len(call["list"]) - call["m"]]) + [acc]
            return (x for x in [acc])  # SequenceMap: a one-shot result

        if b.get("fail") == "notCallable":
            return "not a function"
        if b.get("fail") == "badArity":
            from harness import lib_c19forms as forms

            return forms.make_form("too_many", fun, len(b["types"]))
        if b.get("form"):
            from harness import lib_c19forms as forms

            return forms.make_form(b["form"], fun, len(b["types"]))
        return fun

    outs = None
    try:
        with warnings.catch_warnings(), P_ambient(env, prog.get("ambient"), op):
            warnings.simplefilter("ignore")
            outs = do_call(prog["call"])
        obs["result"] = ("ok", len(outs))
    except Exception as e:  # noqa: BLE001
        obs["result"] = ("err", type(e).__name__, str(e)[:200])
    all_outer = list(tops) + [m_arg, b_arg]
    seen = set()
    for bid, args in rec:
        obs["events"].append((bid, [env.from_spox(a.type) if isinstance(a, env.Var) else "non-var" for a in args]))
        for a in args:
            if id(a) in env.seen_ids or id(a) in seen or any(a is o for o in all_outer):
                obs["fresh"] = False
            seen.add(id(a))
            env.seen_ids.add(id(a))
            env.seen_vars.append(a)
            if getattr(a, "_name", None) is not None:
                obs["unnamed"] = False
    obs["calls"] = [(id(c), n) for c, n in call_outs]
    obs["counts_ctor"] = dict(counters)
    if outs is not None and steps:
        ins = {f"a{i}": v for i, v in enumerate(tops)}
        ins["m"], ins["b"] = m_arg, b_arg
        with warnings.catch_warnings():
            warnings.simplefilter("ignore")
            outd = {f"o{i}": summ(v) for i, v in enumerate(outs)} or {"o": op.const(np.float32(0))}
        for st in steps:
            before = dict(counters)
            try:
                with warnings.catch_warnings():
                    warnings.simplefilter("ignore")
                    if st == "build":
                        spox.build(ins, outd)
                    elif st == "build_drop":
                        spox.build(ins, outd, drop_unused_inputs=True)
                    elif st == "to_onnx":
                        env.graph.results(**outd).with_arguments(*ins.values()).to_onnx()
                    elif st == "infer_all":
                        for nd in nodes:
                            nd.infer_output_types()
                    elif st == "valueProp_all":
                        for nd in nodes:
                            nd.propagate_values()
                    elif st == "copy":
                        import copy
                        import pickle

                        for nd in nodes:
                            for fn in (copy.copy, copy.deepcopy, pickle.dumps):
                                try:
                                    fn(nd)
                                except Exception:  # noqa: BLE001 - unsupported copies are fine; re-invoking is not
                                    pass
                    elif st == "inline":
                        mp = spox.build(ins, outd)
                        again = spox.inline(mp)(**ins)
                        spox.build(ins, dict(again))
            except Exception as e:  # noqa: BLE001
                obs["step_errors"].append((st, type(e).__name__, str(e)[:160]))
            obs["steps"].append((st, {b: counters.get(b, 0) - before.get(b, 0) for b in counters}))
    obs["counts"] = dict(counters)
    return obs


# ----------------------------------------------------------------------------- model-free oracle
def judge(P, prog, obs):
    """-> [(key, what)]: the property's own words on a nested program."""
    bad = []
    call0 = prog["call"]
    ok = obs["result"][0] == "ok"
    bodies = list(all_bodies(call0))
    by_id = {b["id"]: (b, call, role, depth, parent) for b, call, role, depth, parent in bodies}
    counts = obs["counts_ctor"]
    # -- exactly once, during the (outermost) constructor call: a body runs once per run of its parent
    for b, call, role, depth, parent in bodies:
        c = counts.get(b["id"], 0)
        expect = 1 if parent is None else counts.get(parent, 0)
        if c > max(expect, 1) or (ok and c != expect):
            bad.append((f"{call['ctor']}:nested:depth{depth}:count={c}",
                        f"{role} of a {call['ctor']} at depth {depth} invoked {c} times during the outermost constructor call (its parent body ran {expect}x)"))
    # -- a malformed callback at any depth: TypeError at the (outermost) call; the callback's own exception as is
    failing = [(b, call, depth) for b, call, _r, depth, _p in bodies if b.get("fail")]
    if failing:
        b, call, depth = failing[0]
        res = obs["result"]
        want = "_NestBoom" if b["fail"] == "raises" else "TypeError"
        got = res[1] if res[0] == "err" else "no exception"
        if got != want and b["fail"] != "raises":
            bad.append((f"{call['ctor']}:nested:bad-callback:{b['fail']}:{got}",
                        f"a {b['fail']} callback of a {call['ctor']} at depth {depth}: expected TypeError at the call, got {got}"))
        if b["fail"] in ("notCallable", "badArity") and counts.get(b["id"], 0) != 0:
            bad.append((f"{call['ctor']}:nested:bad-callback:{b['fail']}:entered", "a callback that cannot be called was entered"))
    # -- prescribed arguments
    for bid, types in obs["events"]:
        b, call, role, depth, parent = by_id[bid]
        want = b["types"]
        cl = case_like(call)
        if len(types) != len(want):
            bad.append((f"{call['ctor']}:{role}:nargs", f"nested {call['ctor']} {role} received {len(types)} arguments, ONNX prescribes {len(want)}"))
            continue
        for i, (w, g) in enumerate(zip(want, types)):
            if w != g:
                bad.append((P.classify_type(cl, i, w, g),
                            f"nested {call['ctor']} (depth {depth}) body argument {i} ({P.arg_role(cl, i)}) typed {g}, ONNX prescribes {w}"))
    # -- order: a body is entered before the bodies of the constructors it calls, siblings in program order
    if ok:
        want_order = [b["id"] for b, *_ in bodies]
        got_order = [bid for bid, _ in obs["events"]]
        if sorted(want_order) == sorted(got_order) and got_order != want_order:
            # If may create its two branches in either order
            swapped_ok = _order_ok(call0, got_order)
            if not swapped_ok:
                bad.append((f"{call0['ctor']}:nested:order", f"callbacks invoked in the order {got_order}, expected depth-first {want_order}"))
    if not obs["fresh"]:
        bad.append((f"{call0['ctor']}:args:not-fresh", "a body argument of a nested call is not a fresh Var"))
    if not obs["unnamed"]:
        bad.append((f"{call0['ctor']}:args:named", "a body argument Var of a nested call carries a name"))
    # -- output counts of every constructor call that returned
    calls = {id(c): c for c in all_calls(call0)}
    for cid, n in obs["calls"]:
        c = calls[cid]
        src = c["bodies"]["else_branch" if c["ctor"] == "if_" else "body"]
        want_n = src["n"] - (1 if c["ctor"] == "loop" else 0)
        if n != want_n:
            bad.append((f"{c['ctor']}:out-count:nested", f"nested {c['ctor']}: callback returned {src['n']} Vars, constructor returned {n} outputs (expected {want_n})"))
    # -- never again
    for st, delta in obs["steps"]:
        for bid, dlt in delta.items():
            if dlt:
                b, call, role, depth, parent = by_id[bid]
                bad.append((f"{call['ctor']}:recalled-after:{st}:depth{depth}", f"{role} of a {call['ctor']} at depth {depth} invoked {dlt} more time(s) by {st}"))
    return bad


def _order_ok(call, got):
    """Is `got` a depth-first order of the tree in which only If branches may be swapped?"""
    def orders(c):
        roles = ROLES[c["ctor"]]
        alts = [roles, roles[::-1]] if c["ctor"] == "if_" else [roles]
        res = []
        for rs in alts:
            seqs = [[]]
            for r in rs:
                b = c["bodies"][r]
                inner = [[]]
                for ic in b["inner"]:
                    inner = [x + y for x in inner for y in orders(ic)]
                seqs = [s + [b["id"]] + x for s in seqs for x in inner]
            res += seqs
        return res[:64]
    return got in orders(call)


# ----------------------------------------------------------------------------- model request / comparison
def model_call(call):
    c = case_like(call)
    cbs = {}
    for role in ROLES[call["ctor"]]:
        b = call["bodies"][role]
        cbs[role] = {"id": b["id"], "n": b["n"], "inner": [model_call(ic) for ic in b["inner"]]}
        fl = b.get("fail")
        if fl in ("notCallable", "nonIterable", "raises"):
            cbs[role]["beh"] = fl
        elif fl in ("hasNonVar", "hasNestedVars"):
            cbs[role]["beh"] = "hasNonVar"
            cbs[role]["elems"] = ["var", "nonVar"] if fl == "hasNonVar" else ["seqOfVars"]
        elif fl == "badArity":
            from harness import lib_c19forms as forms

            cbs[role]["beh"] = "vars"
            cbs[role]["sig"] = forms.sig_of("too_many", len(b["types"]))
    return {"mod": call["mod"], "ctor": call["ctor"], "lists": c["lists"], "singles": c["singles"], "ints": c["ints"], "cbs": cbs}


def model_request(prog, steps):
    return {"nested": model_call(prog["call"]), "steps": [MODEL_STEP[s] for s in steps]}


def compare(prog, obs, m, steps):
    if m is None or "error" in m:
        return f"model error: {m}"
    if prog.get("failing"):
        mr = m.get("result", {})
        want = {"TypeError": "TypeError", "Other": "_NestBoom", "AttributeError": "AttributeError"}.get(mr.get("err"), "no exception")
        got = obs["result"][1] if obs["result"][0] == "err" else "no exception"
        if want != got:
            return f"model: {mr}, real: {obs['result']}"
        real = [[bid, ts] for bid, ts in obs["events"]]
        model = [[e["cb"], e["types"]] for e in m["events"]]
        if real != model and not any(c["ctor"] == "if_" for c in all_calls(prog["call"])):
            return f"events of the failing call differ: real={real} model={model}"
        return None
    if obs["result"][0] != "ok":
        return None  # the constructor rejected the program after (some of) its callbacks ran: not modelled
    real = [[bid, ts] for bid, ts in obs["events"]]
    model = [[e["cb"], e["types"]] for e in m["events"]]
    if real != model:
        if sorted(map(repr, real)) == sorted(map(repr, model)) and _order_ok(prog["call"], [b for b, _ in real]) \
                and any(c["ctor"] == "if_" for c in all_calls(prog["call"])):
            pass  # If branches created in the other order
        else:
            return f"events differ: real={real} model={model}"
    for e in m["events"]:
        if len(set(e["args"])) != len(e["args"]):
            return "model args not distinct"
    want = [n for _, n in obs["calls"]]
    # the model lists out_variadic per constructor call in completion (post-) order, like the real run
    if m.get("outs") != want:
        return f"output counts per constructor call: real={want} model={m.get('outs')}"
    rc = {str(k): v for k, v in sorted(obs["counts"].items())}
    if rc != m["counts"]:
        return f"counters after {steps}: real={rc} model={m['counts']}"
    return None
