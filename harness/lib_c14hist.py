"""C14 - HISTORIES over functions that call functions: several models built in one process over the SAME Python
objects (an already-built call of a function of nesting depth >= 2 is reused).

  {"kind": "fhist", "depth": 2..4, "fan": 1|2, "ops": [...], "domains": [...],
   "steps": ["build" | "build_again" | "graph_twice" | "around_op" | "around_func" | "subset" | "other_call", ...]}

The chain f0 -> f1 -> ... -> f(depth-1): f_i(a) = op_i(f_{i+1}(a)) (with fan 2: op_i(f_{i+1}(a)) + f_{i+1}(a), the callee used
twice); the leaf is op(a). `y = f0(x)` is made ONCE. Steps (each produces one model, all judged):
  build         spox.build({x}, {y})
  build_again   the same call once more (same dicts)
  graph_twice   ONE Graph object, to_onnx_model() called twice (two models)
  around_op     a new model whose output is neg(y)
  around_func   a new model whose output is g(y), g a fresh function that calls f1 (an inner function) itself
  subset        a model of z = f1(x) only (inner function called directly, made once, reused)
  other_call    a model of f0(y) (a second call of the outer function on top of the first)
Every model: every used key (transitively, through function bodies) defined exactly once, imports cover the bodies,
full checker, onnxruntime (onnx.reference fallback) values = numpy evaluation of the Python bodies.
"""
from __future__ import annotations

import warnings

import numpy as np

OPS = ["neg", "abs", "relu", "double", "inc"]
STEPS = ["build", "build_again", "graph_twice", "around_op", "around_func", "subset", "other_call"]


def _np(opn, v):
    return {"neg": lambda a: -a, "abs": np.abs, "relu": lambda a: np.maximum(a, 0), "double": lambda a: a + a,
            "inc": lambda a: a + np.float32(1)}[opn](v)


class FHist:
    def __init__(self, case):
        import importlib

        from spox import Tensor, argument
        from spox._function import to_function

        self.case = case
        self.op = op = importlib.import_module(f"spox.opset.ai.onnx.v{case.get('ver', 17)}")
        depth, fan = case["depth"], case.get("fan", 1)
        ops = case["ops"]
        doms = case.get("domains") or ["fh.dom"]

        def apply(opn, v):
            if opn == "double":
                return op.add(v, v)
            if opn == "inc":
                return op.add(v, op.constant(value=np.array(1, np.float32)))
            return getattr(op, opn)(v)

        self.apply = apply
        self.fns = [None] * depth
        def make(i):
            def pyfun(a):  # exactly one parameter (to_function takes the arity from the signature)
                if i == depth - 1:
                    return [apply(ops[i % len(ops)], a)]
                (inner,) = self.fns[i + 1](a)
                r = apply(ops[i % len(ops)], inner)
                if fan == 2:
                    (inner2,) = self.fns[i + 1](a)
                    r = op.add(r, inner2)
                return [r]

            return to_function(f"f{i}", doms[i % len(doms)])(pyfun)

        for i in range(depth - 1, -1, -1):
            self.fns[i] = make(i)
        self.x = argument(Tensor(np.float32, (2,)))
        (self.y,) = self.fns[0](self.x)
        self.z = None
        self.graph = None

    def np_f(self, i, v):
        depth, fan, ops = self.case["depth"], self.case.get("fan", 1), self.case["ops"]
        if i == depth - 1:
            return _np(ops[i % len(ops)], v)
        inner = self.np_f(i + 1, v)
        r = _np(ops[i % len(ops)], inner)
        return r + inner if fan == 2 else r

    def step(self, what):
        """-> list of (label, 'ok'|'err', model|text, expected fn)"""
        import spox
        from spox import _graph
        from spox._function import to_function

        op = self.op
        out = []

        def attempt(label, thunk, want, io=None):
            try:
                out.append((label, "ok", thunk(), want, io))
            except Exception as e:  # noqa: BLE001
                out.append((label, "err", f"{type(e).__name__}: {str(e)[:260]}", want, io))

        def attempt_build(label, outputs, want):
            attempt(label, lambda: spox.build({"x": self.x}, outputs), want, ({"x": self.x}, outputs))

        f0 = lambda v: self.np_f(0, v)  # noqa: E731
        if what in ("build", "build_again"):
            attempt_build(what, {"y": self.y}, f0)
        elif what == "graph_twice":
            if self.graph is None:
                self.x._rename("x")
                self.graph = _graph.results(y=self.y).with_arguments(self.x)
            attempt("graph#1", lambda: self.graph.to_onnx_model(), f0)
            attempt("graph#2", lambda: self.graph.to_onnx_model(), f0)
            self.x._rename(None)
        elif what == "around_op":
            attempt_build(what, {"y": op.neg(self.y)}, lambda v: -f0(v))
        elif what == "around_func":
            inner_i = min(1, self.case["depth"] - 1)

            def gbody(a):
                (t,) = self.fns[inner_i](a)
                return [op.abs(t)]
            g = to_function(f"g{len(out)}_{id(self) % 7}", "fh.g")(gbody)
            try:
                gy = list(g(self.y))[0]
            except Exception as e:  # noqa: BLE001
                out.append((what, "err", f"{type(e).__name__}: {str(e)[:260]}", None, None))
                return out
            attempt_build(what, {"y": gy}, lambda v: np.abs(self.np_f(inner_i, f0(v))))
        elif what == "subset":
            inner_i = min(1, self.case["depth"] - 1)
            if self.z is None:
                (self.z,) = self.fns[inner_i](self.x)
            attempt_build(what, {"y": self.z}, lambda v: self.np_f(inner_i, v))
        elif what == "other_call":
            try:
                yy = list(self.fns[0](self.y))[0]
            except Exception as e:  # noqa: BLE001
                out.append((what, "err", f"{type(e).__name__}: {str(e)[:260]}", None, None))
                return out
            attempt_build(what, {"y": yy}, lambda v: f0(f0(v)))
        else:
            raise ValueError(what)
        return out


def judge_history(case, collect=True):
    """-> list of {"label","status","fails":[(key, what)], "err"?}"""
    from harness.props import c14 as C14

    recs = []
    probe = np.array([-1.5, 2.0], np.float32)
    with warnings.catch_warnings():
        warnings.simplefilter("ignore")
        try:
            h = FHist(case)
        except Exception as e:  # noqa: BLE001
            return [{"label": "construct", "status": "err", "err": f"{type(e).__name__}: {str(e)[:200]}", "fails": []}]
        for si, what in enumerate(case["steps"]):
            for label, st, m, want, io in h.step(what):
                rec = {"label": f"{si}:{label}", "status": st, "fails": []}
                if st == "ok" and io is not None and si > 0 and collect:
                    # tie H over the SAME objects: the structure of this later model, taken apart with the real Builder
                    try:
                        rec["fg"], rec["real"], rec["imports"] = C14.extract_fgraph({"drop": False}, io=io)
                    except Exception as e:  # noqa: BLE001
                        rec["fg"], rec["real"], rec["imports"] = None, ("unobservable", f"{type(e).__name__}: {e}"), []
                if st == "err":
                    rec["err"] = m
                    # every program of this family is valid and its functions are deterministic: it must build
                    rec["fails"].append(("valid-program-rejected", f"model #{si} ({label}) of the history: build raised {m[:200]}"))
                    recs.append(rec)
                    continue
                for b in C14.definitions_per_key(m):
                    rec["fails"].append(("definitions-per-key", f"model #{si} ({label}) of the history: {b}"))
                for b in C14.imports_cover(m):
                    rec["fails"].append(("imports-do-not-cover-body", f"model #{si} ({label}): {b}"))
                got, rt = C14.run_model(m, {"x": probe})
                rec["runtime"] = rt
                if got is None and rt.startswith("aborted"):
                    rec["fails"].append(("runtime-aborted", f"model #{si} ({label}) of the history: {rt[:260]}"))
                elif got is None:
                    if rt.startswith("invalid") or not rec["fails"]:
                        rec["fails"].append(("model-not-runnable", f"model #{si} ({label}) of the history: {rt[:260]}"))
                else:
                    w = np.asarray(want(probe), np.float32)
                    g = np.asarray(got["y"])
                    if g.shape != w.shape or not np.allclose(g, w, rtol=1e-5, atol=1e-6):
                        rec["fails"].append(("call-differs-from-body", f"model #{si} ({label}): runtime({rt})={g.tolist()} body={w.tolist()}"))
                recs.append(rec)
    return recs


def gen_case(rng):
    depth = rng.choice([2, 2, 3, 3, 4])
    n = rng.choice([2, 3, 3, 4])
    steps = [rng.choice(STEPS) for _ in range(n)]
    return {"kind": "fhist", "depth": depth, "fan": rng.choice([1, 1, 2]),
            "ops": [rng.choice(OPS) for _ in range(depth)],
            "domains": rng.choice([["fh.dom"], ["fh.a", "fh.b"], ["spox.function"]]),
            "ver": rng.choice([17, 17, 19, 21]), "steps": steps}


HAND_CASES = [
    {"kind": "fhist", "depth": 2, "fan": 1, "ops": ["neg", "abs"], "domains": ["fh.dom"], "ver": 17,
     "steps": ["build", "build_again"]},
    {"kind": "fhist", "depth": 3, "fan": 1, "ops": ["neg", "inc", "double"], "domains": ["fh.a", "fh.b"], "ver": 17,
     "steps": ["graph_twice"]},
    {"kind": "fhist", "depth": 2, "fan": 2, "ops": ["relu", "inc"], "domains": ["fh.dom"], "ver": 19,
     "steps": ["build", "around_op", "around_func"]},
    {"kind": "fhist", "depth": 3, "fan": 1, "ops": ["abs", "neg", "inc"], "domains": ["spox.function"], "ver": 17,
     "steps": ["subset", "build", "other_call"]},
]
