"""Tie G (change-triggered escalation) for C02/C14: normalised-AST hashes of every function/method of the
spox modules the two models cover. A changed, added or removed function is NOT a violation; it makes the
quick tier generate 2.5x as many programs for that run (same verdict rules; the full thorough
counts would blow the quick time budget on a loaded machine), and
the list is written to the evidence.

Baseline: harness/c02c14_source_baseline.json (the tree the checks were last validated on). Refresh it
after accepted changes of /repo with  `python -m harness.lib_c02c14_sources --write`.
"""
import ast
import hashlib
import json
import os
import sys
from pathlib import Path

HERE = Path(__file__).resolve().parent
BASELINE = HERE / "c02c14_source_baseline.json"
FILES = ["_scope.py", "_build.py", "_graph.py", "_function.py", "_inline.py", "_public.py", "_adapt.py",
         "_internal_op.py", "_node.py", "_schemas.py", "_standard.py", "_shape.py", "_type_system.py"]


def _strip(node):
    """drop docstrings so that a comment/doc edit does not escalate"""
    for n in ast.walk(node):
        body = getattr(n, "body", None)
        if isinstance(body, list) and body and isinstance(body[0], ast.Expr) and isinstance(
                getattr(body[0], "value", None), ast.Constant) and isinstance(body[0].value.value, str):
            n.body = body[1:] or [ast.Pass()]
    return node


def hashes(repo=None):
    repo = Path(repo or os.environ.get("SPOX_REPO", "/repo"))
    out = {}
    for f in FILES:
        p = repo / "src" / "spox" / f
        try:
            mod = ast.parse(p.read_text())
        except Exception as e:  # noqa: BLE001
            out[f"{f}:<unreadable>"] = f"{type(e).__name__}"
            continue

        def visit(nodes, prefix):
            rest = []
            for n in nodes:
                if isinstance(n, (ast.FunctionDef, ast.AsyncFunctionDef)):
                    out[f"{f}:{prefix}{n.name}"] = hashlib.sha1(ast.dump(_strip(n)).encode()).hexdigest()[:12]
                elif isinstance(n, ast.ClassDef):
                    visit(n.body, f"{prefix}{n.name}.")
                    rest.append(ast.dump(ast.ClassDef(name=n.name, bases=n.bases, keywords=n.keywords, body=[
                        x for x in n.body if not isinstance(x, (ast.FunctionDef, ast.ClassDef))] or [ast.Pass()],
                        decorator_list=n.decorator_list)))
                elif not (isinstance(n, ast.Expr) and isinstance(getattr(n, "value", None), ast.Constant)):
                    rest.append(ast.dump(n))
            # module / class level statements (constants, attributes, imports)
            out[f"{f}:{prefix}<statements>"] = hashlib.sha1("\n".join(rest).encode()).hexdigest()[:12]

        visit(mod.body, "")
    return out


def changed(repo=None):
    """-> (current hashes, sorted list of names that differ from the baseline: changed / added / removed)"""
    cur = hashes(repo)
    try:
        base = json.loads(BASELINE.read_text())
    except Exception:  # noqa: BLE001
        return cur, ["<no baseline>"]
    diff = sorted(k for k in set(cur) | set(base) if cur.get(k) != base.get(k))
    return cur, diff


if __name__ == "__main__":
    if "--write" in sys.argv:
        BASELINE.write_text(json.dumps(hashes(), indent=0, sort_keys=True) + "\n")
        print("baseline written:", len(hashes()), "entries")
    else:
        cur, diff = changed()
        print(len(cur), "entries; differing from the baseline:", diff)
