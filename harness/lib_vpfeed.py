"""Feed side of value propagation (C07 / C15, round 10): `PropValue.to_ref_value` / `to_ort_value`
(`wrap_feed` of `get_backend_calls()`) and the round trip through `from_ref_value` / `from_ort_value`.

tie H for `Model/VPFeed.lean`: every (declared type, payload, backend) of an enumerated universe - well-typed
values of every container shape up to depth 3, alias / wrong / object dtypes, wrong shapes, nested PropValues
declared with a looser or a different type, empty lists, None, and malformed payloads (array where a list is
expected and the like) - is built as a real `PropValue` tree, converted by the real `to_*_value`, converted back
by the real `from_*_value` under the same type, and compared with what the driver computes
(`{"fn": "feed"}` -> `wrapFeed`, `unwrapFeed`, `check`).

A model-free reading of the same runs (`roundtrip_defect`): for a value that passes `check()` and whose type is
an ONNX-expressible one (Optional at most at the top, no Optional inside a Sequence), the value that comes back
must hold the same arrays. That is NOT the property statement by itself (a lossy feed shows as wrong or missing
propagated values downstream, which the program oracle judges), so it is reported as a broken obligation only.
"""
from __future__ import annotations

import warnings

import numpy as np

from harness import lib_valueprop as L

ELEMS = ["i64", "f32", "str", "bool", "u8", "f64"]
ALIAS = {"i64": "longlong", "u64": "ulonglong"}


def _arrays(e):
    out = [(e, [2]), ("f64" if e != "f64" else "i32", [2]), (e, [3]), (e, []), ("objmixed", [2])]
    if e in ALIAS:
        out.append((ALIAS[e], [2]))
    if e == "str":
        out.append(("object", [2]))
    return out


def _loosen(t):
    if t["t"] == "tensor":
        return L.T(t["e"], None)
    return {"t": t["t"], "of": _loosen(t["of"])}


def _other(t):
    """a declared type that is no subtype of `t`"""
    if t["t"] == "tensor":
        return L.T("f64" if t["e"] != "f64" else "i32", t.get("s"))
    return {"t": t["t"], "of": _other(t["of"])}


def payloads(t, pid=[0]):  # noqa: B006 - running counter on purpose: distinct contents per array
    def arr(dt, sh):
        pid[0] = pid[0] % 90 + 1
        return {"p": "arr", "dt": dt, "shape": sh, "pid": pid[0] % 2 if dt == "bool" else pid[0]}

    if t["t"] == "tensor":
        return [arr(dt, sh) for dt, sh in _arrays(t["e"])] + [{"p": "none"}, {"p": "list", "xs": []}]
    inner = pvs(t["of"])
    if t["t"] == "seq":
        out = [{"p": "list", "xs": []}] + [{"p": "list", "xs": [x]} for x in inner]
        out += [{"p": "list", "xs": [x, y]} for x in inner[:3] for y in inner[:4]]
        return out + [arr("i64", [2]), {"p": "none"}]
    out = [{"p": "none"}] + [{"p": "some", "v": x} for x in inner]
    return out + [arr("i64", [2])]


def pvs(t):
    vals = payloads(t)
    out = [{"ty": t, "val": v} for v in vals]
    out += [{"ty": _loosen(t), "val": v} for v in vals[:2]]
    out += [{"ty": _other(t), "val": v} for v in vals[:1]]
    return out


def type_shapes(e):
    t0 = L.T(e, [2])
    return [t0, L.T(e, None), L.Seq(t0), L.Opt(t0), L.Opt(L.Seq(t0)), L.Seq(L.Seq(t0)), L.Seq(L.Opt(t0)),
            L.Opt(L.Opt(t0)), L.Opt(L.Seq(L.Opt(t0)))]


def onnx_like(t) -> bool:
    """Optional at most at the top, tensors / sequences below (the class of `feed_roundtrip` under both backends)."""
    def opt_free(u):
        return u["t"] == "tensor" or (u["t"] == "seq" and opt_free(u["of"]))

    return opt_free(t["of"]) if t["t"] == "opt" else opt_free(t)


def cases(thorough=False):
    out = []
    for e in (ELEMS if thorough else ELEMS[:4]):
        for t in type_shapes(e):
            vals = payloads(t)
            for v in vals:
                for sel in ("reference", "onnxruntime"):
                    out.append({"fn": "feed", "sel": sel, "ty": t, "val": v})
    return out


# ------------------------------------------------------------------------------------------- the real side

def build_payload(v):
    from spox._value_prop import PropValue

    p = v["p"]
    if p == "arr":
        return L.mk_array(v["dt"], v["shape"], v["pid"])
    if p == "none":
        return None
    if p == "list":
        return [PropValue(L.mk_type(x["ty"]), build_payload(x["val"])) for x in v["xs"]]
    if p == "some":
        return PropValue(L.mk_type(v["v"]["ty"]), build_payload(v["v"]["val"]))
    raise ValueError(v)


def _data(v):
    """arrays of a payload, containers erased to nested lists (model-free comparison of contents)"""
    from spox._value_prop import PropValue

    if isinstance(v, PropValue):
        return _data(v.value)
    if isinstance(v, list):
        return [_data(x) for x in v]
    if isinstance(v, np.ndarray):
        return ("arr", v.shape, tuple(str(x) for x in v.reshape(-1)))
    return v


def real(req):
    """what the real conversions do with the case: {"fed", "back": {"ok","check"}|{"raised"}, "check"} + defect note"""
    from spox._value_prop import PropValue

    with warnings.catch_warnings():
        warnings.simplefilter("ignore")
        typ = L.mk_type(req["ty"])
        pv = PropValue(typ, build_payload(req["val"]))
        ref = req["sel"] == "reference"
        try:
            fed = pv.to_ref_value() if ref else pv.to_ort_value()
        except Exception as e:  # noqa: BLE001 - `wrap_feed` runs outside every try block of spox
            return {"fed": {"raised": type(e).__name__}, "check": bool(pv.check()), "back": None}, None
        out = {"fed": L.to_ref_json(fed, L._pid_of), "check": bool(pv.check())}
        try:
            back = (PropValue.from_ref_value if ref else PropValue.from_ort_value)(typ, fed)
            out["back"] = {"ok": L.canon_pv(back), "check": bool(PropValue(typ, back.value).check())}
        except Exception as e:  # noqa: BLE001
            out["back"] = {"raised": type(e).__name__}
            back = None
        defect = None
        if out["check"] and onnx_like(req["ty"]):
            if back is None:
                defect = f"a checked value cannot be read back: {out['back']['raised']}"
            elif _data(back) != _data(pv):
                defect = f"a checked value comes back different: {_data(pv)!r:.120} -> {_data(back)!r:.120}"
            elif not out["back"]["check"]:
                defect = "a checked value no longer checks after the round trip"
        return out, defect


def compare(model, realout):
    if model is None:
        return None
    if "error" in model:
        return f"driver: {model['error']}"
    for k in ("fed", "check", "back"):
        if model.get(k) != realout.get(k):
            return f"{k}: model={str(model.get(k))[:260]} real={str(realout.get(k))[:260]}"
    # the theorem's instance, executed: inside the class a checked value comes back as `retype` says
    if model.get("feedOk") and model.get("check"):
        b = model["back"]
        if "ok" not in b or b["ok"]["val"] != model["retype"]:
            return f"feed_roundtrip instance fails in the model: back={str(b)[:200]} retype={str(model['retype'])[:200]}"
    return None
