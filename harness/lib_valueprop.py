"""Shared helpers for the value-propagation properties (C07, C15).

* JSON <-> real objects: declared types, raw backend results (`RefVal`), attached `PropValue`s
* a *scripted backend* installed below spox (`onnx.reference.ReferenceEvaluator`,
  `onnxruntime.InferenceSession`), so that spox's own `_run_*` wrappers, conversions and merge rule
  all run for real while the third-party evaluator does what the script says
* node runners (scripted-type standard nodes, real constructors, inline) that return the outcome in
  the canonical form the Lean driver produces
* an independent recursive conformance checker (the model-free oracle of C15 / C07)

Import only after `core.use_repo_on_path()`.
"""
from __future__ import annotations

import contextlib
import warnings
from typing import Any, Callable, Optional

import numpy as np

# --------------------------------------------------------------------------------------- dtypes

_DT_TO_NP = {
    "bool": np.bool_, "i8": np.int8, "i16": np.int16, "i32": np.int32, "i64": np.int64,
    "u8": np.uint8, "u16": np.uint16, "u32": np.uint32, "u64": np.uint64,
    "f16": np.float16, "f32": np.float32, "f64": np.float64, "c64": np.complex64,
    "c128": np.complex128, "str": np.str_, "object": np.object_,
    "longlong": np.longlong, "ulonglong": np.ulonglong,
}
_NP_TO_DT = {v: k for k, v in _DT_TO_NP.items()}
TENSOR_DTS = ["bool", "i8", "i16", "i32", "i64", "u8", "u16", "u32", "u64", "f16", "f32", "f64",
              "c64", "c128", "str"]


def dt_code(dtype: np.dtype) -> str:
    """numpy dtype -> model code, keeping the platform alias classes apart (by *class identity*)."""
    return _NP_TO_DT.get(dtype.type, "other")


def arr_code(arr: np.ndarray) -> str:
    """dtype code of an array; object arrays are told apart by their contents."""
    code = dt_code(arr.dtype)
    if code == "object" and not all(isinstance(x, str) for x in arr.reshape(-1)):
        return "objmixed"
    return code


# --------------------------------------------------------------------------------------- types

def mk_type(j):
    from spox import Optional as SOptional, Sequence as SSequence, Tensor

    if j is None:
        return None
    if j["t"] == "tensor":
        s = j.get("s")
        return Tensor(_DT_TO_NP[j["e"]], None if s is None else tuple(s))
    if j["t"] == "seq":
        return SSequence(mk_type(j["of"]))
    if j["t"] == "opt":
        return SOptional(mk_type(j["of"]))
    raise ValueError(j)


def canon_type(t):
    from spox import Optional as SOptional, Sequence as SSequence, Tensor

    if t is None:
        return None
    if isinstance(t, Tensor):
        s = t.shape
        return {"t": "tensor", "e": _NP_TO_DT.get(t._elem_type, "other"),
                "s": None if s is None else [d if isinstance(d, int) else None for d in s]}
    if isinstance(t, SSequence):
        return {"t": "seq", "of": canon_type(t.elem_type)}
    if isinstance(t, SOptional):
        return {"t": "opt", "of": canon_type(t.elem_type)}
    raise ValueError(f"type outside the model: {t!r}")


def T(e, s=None):
    return {"t": "tensor", "e": e, "s": s}


def Seq(t):
    return {"t": "seq", "of": t}


def Opt(t):
    return {"t": "opt", "of": t}


# ------------------------------------------------------------------------- raw backend results

class Opaque:
    """An object no converter knows (np.array(·) makes a 0-d object array of it)."""

    def __init__(self, pid):
        self.pid = pid

    def __str__(self):
        return f"s{self.pid}"

    __repr__ = __str__


def mk_array(dt: str, shape, pid: int, mix: str = "opaque") -> np.ndarray:
    shape = tuple(shape)
    if dt == "str":
        return np.full(shape, f"s{pid}", dtype=f"<U{len(str(pid)) + 1}")
    if dt == "object":
        a = np.empty(shape, dtype=object)
        a[...] = f"s{pid}"
        return a
    if dt == "objmixed":  # an object array that does not hold only str: bytes / str+non-str / arbitrary objects
        a = np.empty(shape, dtype=object)
        if mix == "bytes":
            a[...] = f"s{pid}".encode()
        else:
            a[...] = Opaque(pid)
            if mix == "mixed" and a.size > 1:
                flat = a.reshape(-1)
                flat[1:] = f"s{pid}"
                a = flat.reshape(shape)
        return a
    if dt == "other":
        return np.full(shape, pid, dtype="datetime64[s]")
    if dt == "bool":
        return np.full(shape, bool(pid % 2), dtype=np.bool_)
    return np.full(shape, pid, dtype=_DT_TO_NP[dt])


def mk_ref(j) -> Any:
    r = j["r"]
    if r == "arr":
        return mk_array(j["dt"], j["shape"], j["pid"], j.get("mix", "opaque"))
    if r == "list":
        return [mk_ref(x) for x in j["xs"]]
    if r == "none":
        return None
    if r == "scalar":
        dt, pid = j["dt"], j["pid"]
        if dt == "f64":
            return float(pid)
        if dt == "i64":
            return int(pid)
        if dt == "bool":
            return bool(pid % 2)
        if dt == "str":
            return f"s{pid}"
        return mk_array(dt, (), pid)[()]  # a numpy scalar (np.generic), not an ndarray
    if r == "opaque":
        return Opaque(j["pid"])
    if r == "ragged":
        return (np.array([1, 2]), np.array([1]))
    raise ValueError(j)


def _pid_of(arr: np.ndarray) -> int:
    if arr.size == 0:
        return 0
    x = arr.reshape(-1)[0]
    if isinstance(x, Opaque):
        return x.pid
    if isinstance(x, (str, np.str_, bytes)):
        import re

        m = re.search(r"s(\d+)", x.decode() if isinstance(x, bytes) else str(x))
        return int(m.group(1)) if m else -1
    if arr.dtype.kind == "M":
        return int(arr.reshape(-1)[0].astype("int64"))
    if arr.dtype.kind == "c":
        return int(x.real)
    return int(x)


def canon_payload(v, pid_of=None):
    from spox._value_prop import PropValue

    pid_of = pid_of or _pid_of
    if v is None:
        return {"p": "none"}
    if isinstance(v, np.ndarray):
        return {"p": "arr", "dt": arr_code(v), "shape": list(v.shape), "pid": pid_of(v)}
    if isinstance(v, list):
        return {"p": "list", "xs": [canon_pv(x, pid_of) for x in v]}
    if isinstance(v, PropValue):
        return {"p": "some", "v": canon_pv(v, pid_of)}
    return {"p": "garbage", "repr": repr(v)[:40]}


def canon_pv(pv, pid_of=None):
    from spox._value_prop import PropValue

    if pv is None:
        return None
    if not isinstance(pv, PropValue):
        return {"garbage": repr(pv)[:40]}
    return {"ty": canon_type(pv.type), "val": canon_payload(pv.value, pid_of)}


class PidRegistry:
    """Content -> small id, insensitive to the representation changes spox makes on purpose
    (alias dtype -> sized dtype, object array of str -> str array)."""

    def __init__(self):
        self.ids: dict = {}

    def __call__(self, arr) -> int:
        a = np.asarray(arr)
        key = tuple(str(x) for x in a.reshape(-1))
        return self.ids.setdefault(key, len(self.ids) + 1)


def to_ref_json(obj, pid_of) -> dict:
    """A raw object a session returned -> the model's RefVal."""
    if obj is None:
        return {"r": "none"}
    if isinstance(obj, np.ndarray):
        return {"r": "arr", "dt": arr_code(obj), "shape": list(obj.shape), "pid": pid_of(obj)}
    if isinstance(obj, list):
        return {"r": "list", "xs": [to_ref_json(x, pid_of) for x in obj]}
    if isinstance(obj, (bool, int, float, str, np.generic)):
        return {"r": "scalar", "dt": arr_code(np.array(obj)), "pid": pid_of(np.array(obj))}
    try:
        np.array(obj)
    except ValueError:
        return {"r": "ragged"}
    return {"r": "opaque", "pid": pid_of(np.array(obj))}


# --------------------------------------------------------------- independent conformance oracle

def conforms(value, typ) -> Optional[str]:
    """Does a propagated payload conform to a spox type? Independent of `PropValue.check`.

    Returns None if it does, else a short reason. Declared types stored inside nested PropValues
    are ignored: only containers, array dtypes and array shapes count.
    """
    from spox import Optional as SOptional, Sequence as SSequence, Tensor
    from spox._value_prop import PropValue

    if isinstance(typ, Tensor):
        if not isinstance(value, np.ndarray):
            return f"tensor-type:{type(value).__name__}"
        want = np.dtype(typ._elem_type)
        if want.kind == "U":
            if value.dtype.kind not in ("U", "O"):
                return f"dtype:{value.dtype.kind}-for-str"
            if value.dtype.kind == "O" and not all(isinstance(x, str) for x in value.reshape(-1)):
                return "dtype:object-nonstr-for-str"
        elif value.dtype != want:
            return f"dtype:{value.dtype}-for-{want}"
        shp = typ.shape
        if shp is not None:
            if len(shp) != value.ndim:
                return f"rank:{value.ndim}-for-{len(shp)}"
            for d, n in zip(shp, value.shape):
                if isinstance(d, int) and d != n:
                    return f"dim:{n}-for-{d}"
        return None
    if isinstance(typ, SSequence):
        if not isinstance(value, list):
            return f"seq-type:{type(value).__name__}"
        for x in value:
            if not isinstance(x, PropValue):
                return f"seq-elem:{type(x).__name__}"
            why = conforms(x.value, typ.elem_type)
            if why:
                return "elem-" + why
        return None
    if isinstance(typ, SOptional):
        if value is None:
            return None
        if not isinstance(value, PropValue):
            return f"opt-type:{type(value).__name__}"
        why = conforms(value.value, typ.elem_type)
        return None if why is None else "some-" + why
    return f"unknown-type:{typ!r}"


def has_value(var) -> bool:
    """Does the Var carry a propagated value? Through `Var._get_value()` (the documented accessor;
    raises ValueError when there is none), falling back to the `_value` field."""
    try:
        var._get_value()
        return True
    except ValueError:
        return False
    except AttributeError:
        return getattr(var, "_value") is not None


def conforms_var(var) -> Optional[str]:
    """Conformance of the Var's propagated value to `var.type` (None = conforms)."""
    if var.type is None:
        return "untyped-var"
    pv = getattr(var, "_value", None)
    if pv is not None and hasattr(pv, "value"):
        return conforms(pv.value, var.type)
    return conforms_ort(var._get_value(), var.type)


def conforms_ort(value, typ) -> Optional[str]:
    """Same judgement on the ORT-format value (`Var._get_value()`): arrays, lists, None."""
    from spox import Optional as SOptional, Sequence as SSequence, Tensor

    if isinstance(typ, Tensor):
        return conforms(value, typ)
    if isinstance(typ, SSequence):
        if not isinstance(value, list):
            return f"seq-type:{type(value).__name__}"
        for x in value:
            why = conforms_ort(x, typ.elem_type)
            if why:
                return "elem-" + why
        return None
    if isinstance(typ, SOptional):
        return None if value is None else conforms_ort(value, typ.elem_type)
    return f"unknown-type:{typ!r}"


def more_permissive(faulty, free) -> bool:
    """`faulty` says no more than `free` (equal, or some rank / dimension / the whole type unknown)."""
    from spox import Optional as SOptional, Sequence as SSequence, Tensor

    if faulty is None:
        return True
    if free is None:
        return False
    if isinstance(faulty, Tensor) and isinstance(free, Tensor):
        if faulty._elem_type is not free._elem_type:
            return False
        if faulty.shape is None:
            return True
        if free.shape is None or len(free.shape) != len(faulty.shape):
            return False
        return all(not isinstance(a, int) or a == b for a, b in zip(faulty.shape, free.shape))
    if isinstance(faulty, SSequence) and isinstance(free, SSequence):
        return more_permissive(faulty.elem_type, free.elem_type)
    if isinstance(faulty, SOptional) and isinstance(free, SOptional):
        return more_permissive(faulty.elem_type, free.elem_type)
    return False


def limit_memory(gb: float = 6.0):
    """A mutant that propagates garbage (e.g. byte-swapped shape targets) can make an evaluator try to
    allocate terabytes: cap the address space so that it raises MemoryError instead of getting the
    whole check killed."""
    import resource

    lim = int(gb * 2**30)
    soft, hard = resource.getrlimit(resource.RLIMIT_AS)
    if hard != resource.RLIM_INFINITY:
        lim = min(lim, hard)
    resource.setrlimit(resource.RLIMIT_AS, (lim, hard))


def single_threaded_ort():
    """Worker processes run many tiny sessions side by side: one thread each (no semantic effect)."""
    import onnxruntime

    if getattr(onnxruntime.SessionOptions, "_verif_single", False):
        return
    real = onnxruntime.SessionOptions

    def SessionOptions(*a, **k):
        o = real(*a, **k)
        o.intra_op_num_threads = 1
        o.inter_op_num_threads = 1
        return o

    SessionOptions._verif_single = True  # type: ignore[attr-defined]
    onnxruntime.SessionOptions = SessionOptions


# --------------------------------------------------------------------------- scripted backend

class BackendBoom(Exception):
    """An Exception subclass the backend invents."""


class BackendBaseBoom(BaseException):
    """Not an `Exception`: must not be swallowed (KeyboardInterrupt-like)."""


EXC_CLASSES: list = [ValueError, RuntimeError, KeyError, TypeError, BackendBoom, AssertionError,
                     NotImplementedError, IndexError, AttributeError, StopIteration, OSError,
                     ZeroDivisionError, RecursionError, MemoryError, SystemError, ImportError,
                     # round 8: more of the Exception hierarchy (resource exhaustion, arithmetic, lookup, warnings
                     # raised as errors ...): ALL of them are "any exception" of the statement
                     OverflowError, FloatingPointError, ArithmeticError, LookupError, BufferError, EOFError, TimeoutError,
                     ConnectionError, PermissionError, ReferenceError, NameError, UnboundLocalError, ModuleNotFoundError,
                     StopAsyncIteration, UserWarning, DeprecationWarning, RuntimeWarning, Exception]
BASE_EXC_CLASSES: list = [KeyboardInterrupt, BackendBaseBoom, SystemExit, GeneratorExit]


class NeedsArgsBoom(Exception):
    """A subclass with required extra constructor arguments (cannot be re-created as `type(e)(str(e))`)."""

    def __init__(self, code, where, *, hint):
        super().__init__(code, where)
        self.code, self.where, self.hint = code, where, hint


class StrRaisesBoom(Exception):
    """`str(e)` / `repr(e)` themselves raise."""

    def __str__(self):
        raise RuntimeError("__str__ of the backend's exception raised")

    __repr__ = __str__


class EmptyStrBoom(Exception):
    def __str__(self):
        return ""


# exception VALUES (round 10b): how the instance is made from the class chosen by `id`
EXC_VALUES: list = [
    ("noargs", lambda c: c()),
    ("empty", lambda c: c("")),
    ("whitespace", lambda c: c("  \n\t ")),
    ("newline-first", lambda c: c("\nsecond line")),
    ("multiline", lambda c: c("first\nsecond\r\nthird")),
    ("long", lambda c: c("x" * 100000)),
    ("non-ascii", lambda c: c("ошибка \u65e5\u672c \U0001f4a5 \udcff")),
    ("braces", lambda c: c("{} {0} {name} %s %d %(x)s %")),
    ("none-arg", lambda c: c(None)),
    ("int-args", lambda c: c(2, "x")),
    ("bytes-arg", lambda c: c(b"\xff\xfe")),
    ("tuple-arg", lambda c: c(("a", 1), ["b"])),
    ("needs-args", lambda c: NeedsArgsBoom(7, "kernel", hint="h")),
    ("str-raises", lambda c: StrRaisesBoom("x")),
    ("empty-str", lambda c: EmptyStrBoom("x")),
    ("chained", lambda c: _chained(c)),
]
EXC_VALUE_CLASSES = [ValueError, KeyError, RuntimeError, AssertionError, NotImplementedError, OSError, Exception, BackendBoom]


def _chained(c):
    try:
        try:
            raise KeyError()
        except KeyError as inner:
            raise c() from inner
    except Exception as e:  # noqa: BLE001
        return e


def exc_instance(isexc: bool, i: int, val=None) -> BaseException:
    cls = (EXC_CLASSES if isexc else BASE_EXC_CLASSES)
    if val is None or not isexc:
        e = cls[i % len(cls)]("scripted backend fault")
    else:
        e = EXC_VALUES[val % len(EXC_VALUES)][1](cls[i % len(cls)])
    return e


class _Out:
    def __init__(self, name):
        self.name = name


class ScriptedBackend:
    """Replaces the third-party evaluators by a script `fn(model) -> backend-json | None`.

    `None` means "behave like the real evaluator for this call". `at` ('init' | 'run') says where a
    scripted exception is raised.
    """

    def __init__(self, fn: Callable[[Any], Any], at: str = "run"):
        self.fn = fn
        self.at = at
        self.calls = 0
        self.log: list = []  # one entry per backend call: what the session actually did

    def _make(self, real_factory, model_arg, as_model):
        outer = self
        self.calls += 1
        script = self.fn(as_model(model_arg))
        entry: dict = {}
        self.log.append(entry)

        def record_exc(e):
            entry.clear()
            entry["raise"] = {"isExc": isinstance(e, Exception), "id": 0}

        if script is None:
            try:
                real = real_factory()
            except BaseException as e:  # noqa: BLE001
                record_exc(e)
                raise

            class Recording:
                def __init__(self):
                    self.output_names = (list(real.output_names) if hasattr(real, "output_names")
                                         else [o.name for o in real.get_outputs()])
                    entry["names"] = list(self.output_names)
                    entry["objs"] = []

                def get_outputs(self):
                    return [_Out(n) for n in self.output_names]

                def run(self, names, feed):
                    try:
                        res = real.run(names, feed)
                    except BaseException as e:  # noqa: BLE001
                        record_exc(e)
                        raise
                    entry["objs"] = list(res)
                    return res

            return Recording()

        class Session:
            def __init__(self):
                if "raise" in script and outer.at == "init":
                    e = exc_instance(script["raise"]["isExc"], script["raise"]["id"], script["raise"].get("val"))
                    record_exc(e)
                    raise e
                self.output_names = list(script.get("names", []))
                entry["names"] = list(self.output_names)
                entry["objs"] = []

            def get_outputs(self):
                return [_Out(n) for n in self.output_names]

            def run(self, _names, _feed):
                if "raise" in script:
                    e = exc_instance(script["raise"]["isExc"], script["raise"]["id"], script["raise"].get("val"))
                    record_exc(e)
                    raise e
                if script.get("noniterable"):
                    record_exc(TypeError())
                    return None
                res = [mk_ref(v) for v in script["vals"]]
                entry["objs"] = list(res)
                return res

        return Session()

    @contextlib.contextmanager
    def installed(self):
        import onnx
        import onnx.reference
        import onnxruntime

        real_ref = onnx.reference.ReferenceEvaluator
        real_ort = onnxruntime.InferenceSession

        def fake_ref(model, *a, **k):
            return self._make(lambda: real_ref(model, *a, **k), model, lambda m: m)

        def fake_ort(model_bytes, *a, **k):
            def as_model(b):
                m = onnx.ModelProto()
                m.ParseFromString(b)
                return m

            return self._make(lambda: real_ort(model_bytes, *a, **k), model_bytes, as_model)

        onnx.reference.ReferenceEvaluator = fake_ref
        onnxruntime.InferenceSession = fake_ort
        try:
            yield self
        finally:
            onnx.reference.ReferenceEvaluator = real_ref
            onnxruntime.InferenceSession = real_ort


@contextlib.contextmanager
def backend_setting(sel: str):
    """Set the value-prop backend switch ('none' | 'reference' | 'onnxruntime') and restore it."""
    import spox._value_prop as vp

    prev = vp._VALUE_PROP_BACKEND
    vp._VALUE_PROP_BACKEND = {"none": vp.ValuePropBackend.NONE,
                              "reference": vp.ValuePropBackend.REFERENCE,
                              "onnxruntime": vp.ValuePropBackend.ONNXRUNTIME}[sel]
    try:
        yield
    finally:
        vp._VALUE_PROP_BACKEND = prev


# ------------------------------------------------------------------------------- node runners

def exc_name(e: BaseException) -> str:
    try:
        text = str(e)
    except BaseException:  # noqa: BLE001
        text = ""
    for i, c in enumerate(EXC_CLASSES):
        if type(e) is c and text.strip("'\"") == "scripted backend fault":
            return f"Backend:true:{i}"
    for i, c in enumerate(BASE_EXC_CLASSES):
        if type(e) is c:
            return f"Backend:false:{i}"
    return type(e).__name__


def describe_ctx(node) -> dict:
    """What the model needs to know about a constructed node (`NodeCtx`)."""
    ins = []
    seen = set()
    for key, var in node.inputs.get_vars().items():
        if id(var) in seen:  # a Var in two slots keeps its first name in the singleton scope
            continue
        seen.add(id(var))
        ins.append({"name": key, "which": var._which_output, "type": canon_type(var.type),
                    "hasValue": var._value is not None})
    outs = [{"key": key, "type": canon_type(var.type)}
            for key, var in node.outputs.get_vars().items()]
    has_sub = next(iter(node.subgraphs), None) is not None
    return {"inputs": ins, "outputs": outs, "hasSubgraph": has_sub}


def observe(build: Callable[[], Any]) -> dict:
    """Run a node construction; canonical outcome like the driver's `resultJson` (+ the node)."""
    with warnings.catch_warnings(record=True) as rec:
        warnings.simplefilter("always")
        try:
            node = build()
        except BaseException as e:  # noqa: BLE001 - the outcome *is* the exception class
            try:
                detail = str(e)[:200]
            except BaseException:  # noqa: BLE001 - an exception whose __str__ raises
                detail = f"<{type(e).__name__}: __str__ raised>"
            return {"raised": exc_name(e), "detail": detail, "node": None}
    nwarn = sum(1 for w in rec if "does not type-check" in str(w.message))
    outs = [{"key": key, "value": canon_pv(var._value)}
            for key, var in node.outputs.get_vars().items()]
    return {"outs": outs, "nwarn": nwarn, "node": node}


_SCRIPTED_CACHE: dict = {}


def scripted_class(base):
    """A subclass of a real StandardNode class whose *type inference* is scripted (the type oracle
    is a parameter of the model); everything else - singleton model, `propagate_values_onnx`,
    `Node.inference` - is the real code."""
    if base not in _SCRIPTED_CACHE:
        class Scripted(base):  # type: ignore[misc, valid-type]
            script_types: dict = {}

            def infer_output_types(self):
                return dict(type(self).script_types)

        Scripted.__name__ = "Scripted" + base.__name__
        _SCRIPTED_CACHE[base] = Scripted
    return _SCRIPTED_CACHE[base]


def const_var(dt="i64", shape=(2,), pid=7):
    import spox.opset.ai.onnx.v17 as op

    return op.constant(value=mk_array(dt, shape, pid))


def identity_node(x, out_type):
    import spox.opset.ai.onnx.v17 as op

    cls = scripted_class(op._Identity)
    cls.script_types = {} if out_type is None else {"output": mk_type(out_type)}
    return cls(cls.Attributes(), cls.Inputs(input=x))


def topk_node(x, k, types):
    import spox.opset.ai.onnx.v17 as op
    from spox._attributes import AttrInt64

    cls = scripted_class(op._TopK)
    cls.script_types = {key: mk_type(t) for key, t in types.items() if t is not None}
    return cls(
        cls.Attributes(axis=AttrInt64(-1, name="axis"), largest=AttrInt64(1, name="largest"),
                       sorted=AttrInt64(1, name="sorted")),
        cls.Inputs(X=x, K=k),
    )


def split_node(x, types: list):
    import spox.opset.ai.onnx.v17 as op
    from spox._attributes import AttrInt64

    cls = scripted_class(op._Split)
    cls.script_types = {f"outputs_{i}": mk_type(t) for i, t in enumerate(types) if t is not None}
    return cls(cls.Attributes(axis=AttrInt64(0, name="axis")), cls.Inputs(input=x, split=None),
               out_variadic=len(types))


def untyped_var():
    """A Var whose type is unknown (type inference gave nothing)."""
    with warnings.catch_warnings():
        warnings.simplefilter("ignore")
        with backend_setting("none"):
            return identity_node(const_var(), None).outputs.output


def compare_outcome(model: dict, real: dict) -> Optional[str]:
    """None if the model's answer and the observed outcome agree, else a description."""
    if "error" in model:
        return f"model error {model['error']}"
    if "raised" in model or "raised" in real:
        if model.get("raised") != real.get("raised"):
            return f"model raised={model.get('raised')} real raised={real.get('raised')} {real.get('detail', '')}"
        return None
    mo, ro = model["outs"], real["outs"]
    if [o["key"] for o in mo] != [o["key"] for o in ro]:
        return f"output keys differ: {[o['key'] for o in mo]} vs {[o['key'] for o in ro]}"
    for a, b in zip(mo, ro):
        if a["value"] != b["value"]:
            return f"output {a['key']}: model {a['value']} real {b['value']}"
    mw = sum(1 for o in mo if o["warn"])
    if mw != real["nwarn"]:
        return f"warnings: model {mw} real {real['nwarn']}"
    return None


# ------------------------------------------------------------------------- result universe

def result_universe() -> list:
    """≈40 raw result shapes a backend may return for one output."""
    A = lambda dt, shape, pid=3: {"r": "arr", "dt": dt, "shape": list(shape), "pid": pid}  # noqa: E731
    L = lambda *xs: {"r": "list", "xs": list(xs)}  # noqa: E731
    N = {"r": "none"}
    out = [
        A("i64", [2]), A("i64", [3]), A("i64", [2, 1]), A("i64", []), A("f64", [2]), A("f32", [2]),
        A("f32", [2, 3], 4), A("f32", [5, 3], 4), A("i32", [2]), A("bool", [2], 1),
        A("str", [2]), A("object", [2]), A("objmixed", [2]), A("longlong", [2]), A("ulonglong", [2]), A("u64", [2]),
        A("other", [2]), A("f16", [2]), A("c64", [2]),
        N,
        {"r": "scalar", "dt": "f64", "pid": 3}, {"r": "scalar", "dt": "i64", "pid": 3},
        {"r": "scalar", "dt": "bool", "pid": 1}, {"r": "scalar", "dt": "str", "pid": 3},
        {"r": "scalar", "dt": "f32", "pid": 3},
        {"r": "opaque", "pid": 3}, {"r": "ragged"},
        L(), L(A("i64", [2])), L(A("i64", [2]), A("i64", [2], 5)), L(A("i64", [2]), A("f64", [2], 5)),
        L(A("f64", [3]), A("str", [1], 5)), L(A("i64", [2]), N), L(N), L(L(A("i64", [2]))),
        L(L(A("i64", [2]), A("i64", [2], 5))), L(L(A("f64", [2])), L(A("i64", [2], 5))),
        L(A("i64", [3])), L(A("f64", [1])), L({"r": "scalar", "dt": "i64", "pid": 3}),
        L({"r": "opaque", "pid": 3}), L(A("longlong", [2])), L(A("object", [2]), A("str", [2], 5)),
        L({"r": "ragged"}),
    ]
    # --- appended (positions above are referred to by index elsewhere): for every element class
    # right dtype / wrong shape, wrong rank, 0-d vs (1,), empty; object arrays of str / bytes / mixed /
    # arbitrary objects in right and wrong shapes; the same inside lists (Sequence / Optional payloads)
    M = lambda shape, mix, pid=3: {"r": "arr", "dt": "objmixed", "shape": list(shape), "pid": pid, "mix": mix}  # noqa: E731
    out += [
        A("object", [3]), A("object", [2, 1]), A("object", []), A("object", [1]), A("object", [0], 0),
        A("object", [1, 2]), A("str", [3]), A("str", [2, 1]), A("str", []), A("str", [1]), A("str", [0], 0),
        A("bool", [3], 1), A("bool", [], 1), A("bool", [2, 1], 1), A("bool", [1], 1), A("bool", [0], 0),
        A("i64", [0], 0), A("i64", [1]), A("i64", [1, 2]), A("f32", [3]), A("f32", [0, 3], 0), A("f32", [2, 3, 1], 4),
        A("u8", [2]), A("i8", [2]),
        M([2], "bytes"), M([2], "mixed"), M([3], "bytes"), M([3], "mixed"), M([3], "opaque"), M([], "bytes"),
        {"r": "scalar", "dt": "other", "pid": 3},
        L(A("object", [3])), L(A("object", [2]), A("object", [3], 5)), L(A("str", [2]), A("object", [2, 1], 5)),
        L(A("object", [2]), A("object", [2], 5)), L(M([2], "bytes")), L(A("str", [2]), M([2], "mixed", 5)),
        L(A("str", [3])), L(A("object", [])), L(A("bool", [2], 1), A("bool", [3], 1)), L(L(A("object", [3]))),
    ]
    return out


def declared_universe() -> list:
    return [
        T("i64", [2]), T("f32", [None, 3]), T("str", [2]), T("i64", None),
        Seq(T("i64", [2])), Opt(T("i64", [2])), Seq(T("str", None)), Opt(Seq(T("i64", [2]))),
        Seq(Seq(T("i64", [2]))),
        # appended: string / bool element classes with constant shapes, also inside containers
        T("bool", [2]), T("str", []), T("str", [None]), T("str", [2, 1]), Seq(T("str", [2])), Opt(T("str", [2])),
        Seq(T("bool", [2])), T("f32", [2, 3]),
    ]


# ------------------------------------------------------------------------- shape grid (round 10b)

GRID_DECL = [0, 1, 3, "N", None]     # declared dimension: constant 0 / 1 / k, named, unknown
GRID_ACT = [0, 1, 3, 4]              # actual extent: 0, 1, k, k+1


def _arr(dt, shape, pid=3):
    n = 1
    for d in shape:
        n *= d
    return {"r": "arr", "dt": dt, "shape": list(shape), "pid": (pid if n else 0)}


def shape_grid() -> list:
    """(declared type, raw array) pairs: declared dims x actual extents EXHAUSTIVELY for ranks 0-3 (right element
    type), plus rank +-1 neighbours - the constant dimension 0 must accept the extent 0 only."""
    import itertools

    out = []
    for rank in range(4):
        for decl in itertools.product(GRID_DECL, repeat=rank):
            for act in itertools.product(GRID_ACT, repeat=rank):
                out.append((T("i64", list(decl)), _arr("i64", act)))
            base = [d if isinstance(d, int) else 3 for d in decl]
            out.append((T("i64", list(decl)), _arr("i64", base + [1])))          # rank + 1
            out.append((T("i64", list(decl)), _arr("i64", base + [0])))
            if rank:
                out.append((T("i64", list(decl)), _arr("i64", base[:-1])))       # rank - 1
    for decl in itertools.product(GRID_DECL, repeat=2):                          # another element class, in containers
        for act in itertools.product(GRID_ACT, repeat=2):
            out.append((T("str", list(decl)), _arr("str", act)))
            out.append((Seq(T("i64", list(decl))), {"r": "list", "xs": [_arr("i64", [3, 3], 5), _arr("i64", act)]}))
            out.append((Opt(T("i64", list(decl))), _arr("i64", act)))
    return out


def dim_faults(decl: list, dt="i64") -> list:
    """Ill-typed-array faults, one per dimension: the fault-free array of a declared shape with ONE extent changed
    (0 -> 1, 0 -> 3, k -> 0, k -> k-1, k -> k+1), rank +-1; right element type throughout."""
    base = [d if isinstance(d, int) else 2 for d in decl]
    outs = [base]
    for i, d in enumerate(base):
        for nd in ([1, 3] if d == 0 else [0, d - 1, d + 1]):
            if nd != d and nd >= 0:
                outs.append(base[:i] + [nd] + base[i + 1:])
    outs += [base + [1], base + [0], [1] + base]
    if base:
        outs.append(base[:-1])
    seen, res = set(), []
    for sh in outs:
        if tuple(sh) not in seen:
            seen.add(tuple(sh))
            res.append(_arr(dt, sh, 7))
    return res


ZERO_DECLS = [[0], [0, 2], [2, 0], [2, 0, 3], [0, 0], [None, 0], ["N", 0], [0, None], [1], [3], [], [1, 0, 1]]
