"""Inlined LEGACY-opset models fed with constants (C07, feedback round 6, class 1).

`spox.inline(model)` of a model that imports an old default-domain opset (6..13, and 14..20 next to
newer companions): `_Inline.propagate_values` evaluates *the model as written* (its own opset imports),
`spox.build` re-targets it with `onnx.version_converter`. For operators whose signature is unchanged but
whose meaning changed between versions (Softmax family before / from 13, Reduce* without axes, attribute
forms of Squeeze / Unsqueeze / Split / Pad / Clip / Slice / TopK / Upsample, Gemm / Add-6 broadcast,
BatchNormalization / Dropout test-mode flags, Cast to string ...) the propagated value and the value
the built model computes can only agree if both sides use the semantics of the imported version.

A template yields a *spec* (pure JSON, replayable):
  {"ver": 11, "nodes": [{"op": "Softmax", "ins": ["x"], "outs": ["y"], "attrs": {...}}],
   "inputs": [{"name": "x", "dt": "f32", "shape": [2,3,4], "data": [...]}],
   "inits": [{"name": "axes", "dt": "i64", "shape": [1], "data": [1]}], "outputs": ["y"]}
`legacy_model(spec)` turns it into a ModelProto whose output types are what onnxruntime (fallback:
onnx.reference) reports for the model AS WRITTEN on the spec's data (generation only; nothing here
judges the property).
"""
from __future__ import annotations

import json
from typing import Optional

import numpy as np

NP = {"i64": np.int64, "i32": np.int32, "f32": np.float32, "f64": np.float64, "bool": np.bool_,
      "str": np.str_, "f16": np.float16, "u8": np.uint8, "i8": np.int8, "i16": np.int16, "u16": np.uint16,
      "u32": np.uint32, "u64": np.uint64}


def _onnx_elem(dt: str) -> int:
    import onnx

    return {"i64": onnx.TensorProto.INT64, "i32": onnx.TensorProto.INT32, "f32": onnx.TensorProto.FLOAT,
            "f64": onnx.TensorProto.DOUBLE, "bool": onnx.TensorProto.BOOL, "str": onnx.TensorProto.STRING,
            "f16": onnx.TensorProto.FLOAT16, "u8": onnx.TensorProto.UINT8, "i8": onnx.TensorProto.INT8,
            "i16": onnx.TensorProto.INT16, "u16": onnx.TensorProto.UINT16, "u32": onnx.TensorProto.UINT32,
            "u64": onnx.TensorProto.UINT64}[dt]


def arr_of(d: dict) -> np.ndarray:
    if d["dt"] == "str":
        return np.array(d["data"], dtype=object).reshape(tuple(d["shape"]))
    return np.array(d["data"], dtype=NP[d["dt"]]).reshape(tuple(d["shape"]))


def _attr(v):
    """JSON attribute value -> what onnx.helper.make_node takes ({"t": ...} is a tensor)."""
    import onnx.numpy_helper as nh

    if isinstance(v, dict) and "t" in v:
        return nh.from_array(arr_of({"dt": v["t"], "shape": v["shape"], "data": v["data"]}))
    return v


_MODELS: dict = {}


def legacy_model(spec: dict):
    """ModelProto for the spec (cached). Raises if neither evaluator can run the model as written."""
    import onnx
    import onnx.helper as oh
    import onnx.numpy_helper as nh

    key = json.dumps(spec, sort_keys=True)
    if key in _MODELS:
        return _MODELS[key]
    nodes = [oh.make_node(n["op"], list(n["ins"]), list(n["outs"]), domain=n.get("domain", ""),
                          **{k: _attr(v) for k, v in n.get("attrs", {}).items()}) for n in spec["nodes"]]
    ins = [oh.make_tensor_value_info(i["name"], _onnx_elem(i["dt"]), list(i["shape"])) for i in spec["inputs"]]
    inits = [nh.from_array(arr_of(i), i["name"]) for i in spec.get("inits", [])]
    outs = [onnx.ValueInfoProto(name=o) for o in spec["outputs"]]
    imports = [oh.make_operatorsetid("", spec["ver"])] + [oh.make_operatorsetid(d, v) for d, v in spec.get("domains", [])]
    model = oh.make_model(oh.make_graph(nodes, "legacy", ins, outs, inits), opset_imports=imports, ir_version=8)
    feed = {i["name"]: arr_of(i) for i in spec["inputs"]}
    res = None
    try:
        import onnxruntime

        opts = onnxruntime.SessionOptions()
        opts.log_severity_level = 4
        res = onnxruntime.InferenceSession(model.SerializeToString(), opts).run(None, feed)
    except Exception:  # noqa: BLE001
        import onnx.reference

        res = onnx.reference.ReferenceEvaluator(model).run(None, feed)
    del model.graph.output[:]
    for name, r in zip(spec["outputs"], res):
        r = np.asarray(r)
        et = onnx.TensorProto.STRING if r.dtype.kind in "OUS" else oh.np_dtype_to_tensor_dtype(r.dtype)
        model.graph.output.append(oh.make_tensor_value_info(name, et, list(r.shape)))
    onnx.checker.check_model(model)
    _MODELS[key] = model
    return model


def main_op(spec: dict) -> str:
    return spec.get("focus") or spec["nodes"][-1]["op"]


# ------------------------------------------------------------------------------------- templates

def _vals(rng, dt, n):
    if dt in ("f32", "f64", "f16"):
        return [rng.choice([0.5, 1.5, -2.25, 3.0, 0.125, 7.75, -0.375, 2.0, -1.0, 0.0, 4.5]) for _ in range(n)]
    if dt == "bool":
        return [bool(rng.randrange(2)) for _ in range(n)]
    if dt.startswith("u"):
        return [rng.randrange(0, 9) for _ in range(n)]
    return [rng.randrange(-4, 9) for _ in range(n)]


def _inp(rng, name, dt, shape, data=None):
    n = int(np.prod(shape)) if shape else 1
    return {"name": name, "dt": dt, "shape": list(shape), "data": data if data is not None else _vals(rng, dt, n)}


def _shape(rng, ranks=(3, 3, 4, 2)):
    r = rng.choice(ranks)
    return [rng.choice([2, 3, 4]) for _ in range(r)]


REDUCE = ["ReduceSum", "ReduceMean", "ReduceMax", "ReduceMin", "ReduceProd", "ReduceL1", "ReduceL2",
          "ReduceLogSumExp", "ReduceSumSquare"]

# template name -> default-domain versions worth importing (each a different signature / meaning band)
TEMPLATES = {
    "softmax": [6, 9, 11, 12, 13, 17],
    "reduce": [6, 11, 12, 13, 17, 18],
    "squeeze": [6, 11, 12, 13, 17],
    "unsqueeze": [6, 11, 12, 13, 17],
    "split": [6, 11, 12, 13, 17, 18],
    "pad": [6, 10, 11, 13, 17, 18],
    "clip": [6, 10, 11, 12, 13],
    "upsample": [7, 9, 10, 11, 13, 18],
    "cast_string": [6, 9, 13, 17, 19],
    "gemm": [6, 7, 9, 11, 13],
    "batchnorm": [6, 7, 9, 14, 15],
    "dropout": [6, 7, 10, 12, 13],
    "topk": [6, 9, 10, 11],
    "slice": [6, 9, 10, 11, 13],
    "arith6": [6, 7, 13, 14],
    "variadic": [6, 8, 12, 13],
    "onehot": [9, 10, 11],
    "scatter": [9, 10, 11, 13, 16, 18],
    "argmax": [6, 11, 12, 13],
    "flatten": [6, 9, 11, 13],
    "cumsum": [11, 14],
    "gather": [6, 11, 13],
    "depthtospace": [6, 11, 13],
    "pool": [7, 8, 10, 11, 12, 19],
    "lppool": [6, 11, 18],
    "shape": [6, 13, 15, 19],
    "reshape": [6, 13, 14, 19],
    "dft": [17, 20],
    "groupnorm": [18, 21],
    "mod_round": [10, 11, 13],
    "compare": [7, 9, 11, 12, 13, 16, 19],
    "instnorm_lrn": [6, 13],
}


def gen_spec(rng, template: str, ver: Optional[int] = None) -> dict:
    """One inlined-model spec for the template at (a random / the given) imported version."""
    ver = ver or rng.choice(TEMPLATES[template])
    t = template
    N = lambda op, ins, outs, **attrs: {"op": op, "ins": ins, "outs": outs, "attrs": {k: v for k, v in attrs.items() if v is not None}}  # noqa: E731
    fdt = rng.choice(["f32", "f32", "f64"])
    spec: dict = {"ver": ver, "inits": [], "outputs": ["y"]}
    if t == "softmax":
        shape = _shape(rng, (3, 3, 4, 2, 3))
        axis = rng.choice([None, None, 0, 1, len(shape) - 1, -1, -2])
        if ver < 11 and axis is not None and axis < 0:
            axis = None
        opn = rng.choice(["Softmax", "LogSoftmax", "Hardmax"])
        spec.update(nodes=[N(opn, ["x"], ["y"], axis=axis)],
                    inputs=[_inp(rng, "x", "f32" if opn == "Hardmax" else fdt, shape)])  # (onnxruntime has no float64 Hardmax-13)
    elif t == "reduce":
        shape = _shape(rng)
        op = rng.choice(REDUCE)
        axes = rng.choice([None, None, [0], [1], [len(shape) - 1], [0, 2] if len(shape) > 2 else [0, 1], [-1], []])
        if ver < 11 and axes and min(axes) < 0:
            axes = [len(shape) - 1]
        keep = rng.choice([None, 0, 1])
        as_input = ver >= 18 or (op == "ReduceSum" and ver >= 13)
        if not as_input:
            if axes == []:
                axes = None
            spec.update(nodes=[N(op, ["x"], ["y"], axes=axes, keepdims=keep)], inputs=[_inp(rng, "x", fdt, shape)])
        else:
            noop = rng.choice([None, 0, 1]) if axes in (None, []) else None
            ins = ["x"] + ([] if axes is None else ["axes"])
            if axes is not None:
                spec["inits"].append({"name": "axes", "dt": "i64", "shape": [len(axes)], "data": axes})
            spec.update(nodes=[N(op, ins, ["y"], keepdims=keep, noop_with_empty_axes=noop)], inputs=[_inp(rng, "x", fdt, shape)])
    elif t in ("squeeze", "unsqueeze"):
        if t == "squeeze":
            shape = rng.choice([[1, 3, 1], [2, 1, 3, 1], [1, 1, 4], [3, 1]])
            ones = [i for i, d in enumerate(shape) if d == 1]
            axes = rng.choice([None, ones, [ones[0]], [ones[-1] - len(shape)] if ver >= 11 else [ones[-1]]])
            opn = "Squeeze"
        else:
            shape = _shape(rng, (2, 3, 1))
            axes = rng.choice([[0], [1], [0, len(shape) + 1], [len(shape)], [-1] if ver >= 11 else [1], [2, 0]if ver >= 13 else [0, 2]])
            opn = "Unsqueeze"
        if ver < 13:
            spec.update(nodes=[N(opn, ["x"], ["y"], axes=axes)], inputs=[_inp(rng, "x", fdt, shape)])
        else:
            ins = ["x"] + ([] if axes is None else ["axes"])
            if axes is not None:
                spec["inits"].append({"name": "axes", "dt": "i64", "shape": [len(axes)], "data": axes})
            spec.update(nodes=[N(opn, ins, ["y"])], inputs=[_inp(rng, "x", fdt, shape)])
    elif t == "split":
        shape = rng.choice([[4, 3], [2, 4, 3], [3, 6], [2, 2, 6]])
        axis = rng.choice([None, 0, 1, len(shape) - 1] + ([-1] if ver >= 11 else []))
        ax = 0 if axis is None else axis
        d = shape[ax]
        sizes = rng.choice([None, [1, d - 1], [d - 1, 1], [d // 2, d - d // 2]])
        spec["outputs"] = ["y", "z"]
        if ver < 13:
            spec.update(nodes=[N("Split", ["x"], ["y", "z"], axis=axis, split=sizes)], inputs=[_inp(rng, "x", fdt, shape)])
        else:
            ins = ["x"] + ([] if sizes is None else ["split"])
            if sizes is not None:
                spec["inits"].append({"name": "split", "dt": "i64", "shape": [2], "data": sizes})
            extra = {"num_outputs": 2} if (ver >= 18 and sizes is None) else {}
            spec.update(nodes=[N("Split", ins, ["y", "z"], axis=axis, **extra)], inputs=[_inp(rng, "x", fdt, shape)])
    elif t == "pad":
        shape = _shape(rng, (2, 3, 3))
        r = len(shape)
        pads = [rng.choice([0, 0, 1, 2]) for _ in range(2 * r)]
        mode = rng.choice([None, "constant", "reflect", "edge"])
        if mode == "reflect":
            pads = [min(p, shape[i % r] - 1) for i, p in enumerate(pads)]
        val = rng.choice([None, 1.5, -2.0])
        if ver < 11:
            spec.update(nodes=[N("Pad", ["x"], ["y"], pads=pads, mode=mode, value=val if mode in (None, "constant") else None)],
                        inputs=[_inp(rng, "x", fdt, shape)])
        else:
            spec["inits"].append({"name": "pads", "dt": "i64", "shape": [2 * r], "data": pads})
            ins = ["x", "pads"]
            if val is not None and mode in (None, "constant"):
                spec["inits"].append({"name": "cv", "dt": fdt, "shape": [], "data": [val]})
                ins.append("cv")
            spec.update(nodes=[N("Pad", ins, ["y"], mode=mode)], inputs=[_inp(rng, "x", fdt, shape)])
    elif t == "clip":
        shape = _shape(rng)
        lo, hi = rng.choice([(None, None), (-1.0, None), (None, 2.0), (-1.0, 2.0), (0.5, 0.5)])
        dt = fdt if ver < 12 else rng.choice([fdt, "i64", "i32"])
        if ver < 11:
            spec.update(nodes=[N("Clip", ["x"], ["y"], min=lo, max=hi)], inputs=[_inp(rng, "x", fdt, shape)])
        else:
            ins = ["x", "lo" if lo is not None else "", "hi" if hi is not None else ""]
            while ins and ins[-1] == "":
                ins.pop()
            cvt = (lambda v: int(v)) if dt.startswith("i") else (lambda v: v)
            if lo is not None:
                spec["inits"].append({"name": "lo", "dt": dt, "shape": [], "data": [cvt(lo)]})
            if hi is not None:
                spec["inits"].append({"name": "hi", "dt": dt, "shape": [], "data": [cvt(hi)]})
            spec.update(nodes=[N("Clip", ins, ["y"])], inputs=[_inp(rng, "x", dt, shape)])
    elif t == "upsample":
        shape = [1, rng.choice([1, 2]), rng.choice([2, 3]), rng.choice([2, 3])]
        scales = [1.0, 1.0, rng.choice([2.0, 3.0, 1.5]), rng.choice([2.0, 1.0, 2.5])]
        mode = rng.choice([None, "nearest", "linear"])
        x = _inp(rng, "x", "f32", shape)
        if ver <= 7:
            spec.update(nodes=[N("Upsample", ["x"], ["y"], scales=scales, mode=mode)], inputs=[x])
        elif ver == 9:
            spec["inits"].append({"name": "scales", "dt": "f32", "shape": [4], "data": scales})
            spec.update(nodes=[N("Upsample", ["x", "scales"], ["y"], mode=mode)], inputs=[x])
        elif ver == 10:
            spec["inits"].append({"name": "scales", "dt": "f32", "shape": [4], "data": scales})
            spec.update(nodes=[N("Resize", ["x", "scales"], ["y"], mode=mode)], inputs=[x])
        else:
            spec["inits"].append({"name": "scales", "dt": "f32", "shape": [4], "data": scales})
            ctm = rng.choice([None, "asymmetric", "align_corners", "pytorch_half_pixel"])
            nm = rng.choice([None, "floor", "ceil", "round_prefer_ceil"]) if mode in (None, "nearest") else None
            if ver < 13:
                spec["inits"].append({"name": "roi", "dt": "f32", "shape": [0], "data": []})
            spec.update(nodes=[N("Resize", ["x", "roi" if ver < 13 else "", "scales"], ["y"], mode=mode,
                                 coordinate_transformation_mode=ctm, nearest_mode=nm)], inputs=[x])
    elif t == "cast_string":
        shape = _shape(rng, (1, 2, 3))
        n = int(np.prod(shape))
        which = rng.choice(["f2s", "i2s", "s2f", "s2i", "f2i", "f2b", "d2f"])
        if which in ("f2s", "i2s") and ver >= 9:
            dt = "f32" if which == "f2s" else "i64"
            data = ([rng.choice([0.5, 1.0, -2.25, 0.1, 1e10, 3.0, 1e-7, 100.0, float("inf"), float("nan")]) for _ in range(n)]
                    if which == "f2s" else None)
            spec.update(nodes=[N("Cast", ["x"], ["y"], to=8)], inputs=[_inp(rng, "x", dt, shape, data)])
        elif which in ("s2f", "s2i") and ver >= 9:
            data = [rng.choice(["1", "2.5", "-3", "1e2", "0.1", "+7", "NaN", "INF", "-INF"] if which == "s2f" else ["1", "-3", "7", "+4", "12"]) for _ in range(n)]
            spec.update(nodes=[N("Cast", ["x"], ["y"], to=1 if which == "s2f" else 7)], inputs=[_inp(rng, "x", "str", shape, data)])
        elif which == "f2b":
            spec.update(nodes=[N("Cast", ["x"], ["y"], to=9)], inputs=[_inp(rng, "x", "f32", shape, [rng.choice([0.0, 0.5, -0.0, 2.0, -1.0]) for _ in range(n)])])
        elif which == "d2f":
            spec.update(nodes=[N("Cast", ["x"], ["y"], to=1)], inputs=[_inp(rng, "x", "f64", shape, [rng.choice([0.1, 1e-50, 3.0000000001, 16777217.0, -2.5]) for _ in range(n)])])
        else:
            spec.update(nodes=[N("Cast", ["x"], ["y"], to=rng.choice([7, 6]))],
                        inputs=[_inp(rng, "x", fdt, shape, [rng.choice([0.5, 1.5, -2.5, 2.5, -0.5, 3.99, -3.99, 7.0]) for _ in range(n)])])
    elif t == "gemm":
        m, k, n = rng.choice([2, 3]), rng.choice([2, 3]), rng.choice([2, 4])
        ta, tb = rng.choice([None, 0, 1]), rng.choice([None, 0, 1])
        a = _inp(rng, "a", fdt, [k, m] if ta else [m, k])
        b = _inp(rng, "b", fdt, [n, k] if tb else [k, n])
        cs = rng.choice([[m, n], [n], [1, n], [m, 1], [1], []] if ver >= 7 else [[m, n], [n], [1]])
        alpha, beta = rng.choice([None, 0.5, 2.0]), rng.choice([None, 0.5, 0.0])
        attrs = {"alpha": alpha, "beta": beta, "transA": ta, "transB": tb}
        if ver < 7:
            attrs["broadcast"] = 1 if cs != [m, n] else rng.choice([None, 1])
            attrs["beta"] = None  # (onnx.reference's Gemm_6 ignores beta; onnxruntime cannot run Gemm-6 at all)
        ins = ["a", "b", "c"]
        inputs = [a, b, _inp(rng, "c", fdt, cs)]
        if ver >= 11 and rng.random() < 0.3:
            ins, inputs = ["a", "b"], [a, b]
        spec.update(nodes=[N("Gemm", ins, ["y"], **attrs)], inputs=inputs)
    elif t == "batchnorm":
        shape = rng.choice([[2, 3, 2], [1, 2, 2, 2], [2, 3], [2, 2, 3, 2]])
        c = shape[1]
        attrs = {"epsilon": rng.choice([None, 1e-3, 0.5])}
        if ver < 7:
            attrs["is_test"] = 1
        if ver < 9:
            attrs["spatial"] = rng.choice([None, 1])
        if ver >= 14:
            attrs["training_mode"] = rng.choice([None, 0])
        inputs = [_inp(rng, "x", "f32", shape), _inp(rng, "s", "f32", [c]), _inp(rng, "b", "f32", [c]),
                  _inp(rng, "m", "f32", [c]), _inp(rng, "v", "f32", [c], [rng.choice([0.5, 1.0, 2.0, 4.0]) for _ in range(c)])]
        spec.update(nodes=[N("BatchNormalization", ["x", "s", "b", "m", "v"], ["y"], **attrs)], inputs=inputs)
    elif t == "dropout":
        shape = _shape(rng)
        attrs = {}
        if ver < 7:
            attrs["is_test"] = 1
        if ver < 12:
            attrs["ratio"] = rng.choice([None, 0.25, 0.9])
        outs = ["y"]
        if ver >= 10 and rng.random() < 0.5:
            outs = ["y", "mask"]
            spec["outputs"] = outs
        ins = ["x"]
        if ver >= 12 and rng.random() < 0.5:
            spec["inits"].append({"name": "ratio", "dt": "f32", "shape": [], "data": [0.75]})
            ins.append("ratio")
            if rng.random() < 0.5:
                spec["inits"].append({"name": "tm", "dt": "bool", "shape": [], "data": [False]})
                ins.append("tm")
        spec.update(nodes=[N("Dropout", ins, outs, **attrs)], inputs=[_inp(rng, "x", fdt, shape)])
    elif t == "topk":
        shape = _shape(rng, (2, 3, 3))
        axis = rng.choice([None, 0, 1, len(shape) - 1])
        d = shape[-1 if axis is None else axis]
        k = rng.randrange(1, d + 1)
        spec["outputs"] = ["y", "i"]
        vals = list(range(int(np.prod(shape))))
        rng.shuffle(vals)
        x = _inp(rng, "x", "f32", shape, [v * 0.5 for v in vals])
        if ver < 10:
            spec.update(nodes=[N("TopK", ["x"], ["y", "i"], k=k, axis=axis)], inputs=[x])
        else:
            spec["inits"].append({"name": "k", "dt": "i64", "shape": [1], "data": [k]})
            extra = {"largest": rng.choice([None, 0, 1]), "sorted": rng.choice([None, 1])} if ver >= 11 else {}
            spec.update(nodes=[N("TopK", ["x", "k"], ["y", "i"], axis=axis, **extra)], inputs=[x])
    elif t == "slice":
        shape = _shape(rng, (2, 3, 3))
        r = len(shape)
        axes = rng.choice([None, [0], [1], [r - 1], [0, r - 1]])
        na = r if axes is None else len(axes)
        starts = [rng.choice([0, 1, -1, -2]) for _ in range(na)]
        ends = [rng.choice([1, 2, 100, -1, 2**31]) for _ in range(na)]
        if ver < 10:
            spec.update(nodes=[N("Slice", ["x"], ["y"], starts=starts, ends=ends, axes=axes)], inputs=[_inp(rng, "x", fdt, shape)])
        else:
            steps_ = rng.choice([None, [rng.choice([1, 2, -1]) for _ in range(na)]])
            spec["inits"] += [{"name": "st", "dt": "i64", "shape": [na], "data": starts}, {"name": "en", "dt": "i64", "shape": [na], "data": ends}]
            ins = ["x", "st", "en"]
            if axes is not None or steps_ is not None:
                spec["inits"].append({"name": "ax", "dt": "i64", "shape": [na], "data": axes if axes is not None else list(range(r))})
                ins.append("ax")
                if steps_ is not None:
                    spec["inits"].append({"name": "sp", "dt": "i64", "shape": [na], "data": steps_})
                    ins.append("sp")
            spec.update(nodes=[N("Slice", ins, ["y"])], inputs=[_inp(rng, "x", fdt, shape)])
    elif t == "arith6":
        op = rng.choice(["Add", "Sub", "Mul", "Div"])
        shape = _shape(rng, (3, 4, 2))
        dt = rng.choice(["f32", "f64", "i64", "i32"]) if ver >= 7 or op != "x" else "f32"
        bdata = None
        if ver < 7:
            # Add-6: `broadcast` + `axis` (suffix matching unless axis is given)
            ax = rng.choice([None, 0, 1, len(shape) - 1])
            how = rng.choice(["same", "suffix", "axis", "scalar"])
            if how == "same":
                bshape, attrs = shape, {}
            elif how == "scalar":
                bshape, attrs = [], {"broadcast": 1}
            elif how == "suffix":
                bshape, attrs = shape[1:], {"broadcast": 1}
            else:
                ax = ax or 0
                bshape, attrs = shape[ax:ax + 1], {"broadcast": 1, "axis": ax}
            spec["focus"] = "Arith6"
        else:
            bshape = rng.choice([shape, shape[1:], [1] + shape[1:], [shape[0]] + [1] * (len(shape) - 1), []])
            attrs = {}
        if op == "Div":
            n = int(np.prod(bshape)) if bshape else 1
            bdata = [rng.choice([1, 2, -2, 3, -3, 4]) for _ in range(n)]
            if dt.startswith("f"):
                bdata = [float(v) for v in bdata]
        spec.update(nodes=[N(op, ["x", "b"], ["y"], **attrs)], inputs=[_inp(rng, "x", dt, shape), _inp(rng, "b", dt, bshape, bdata)])
    elif t == "variadic":
        op = rng.choice(["Min", "Max", "Sum", "Mean"])
        shape = _shape(rng, (2, 3))
        dt = rng.choice(["f32", "f64"]) if ver < 12 or op in ("Sum", "Mean") else rng.choice(["f32", "i64", "i32", "f64"])
        k = rng.choice([1, 2, 3])
        shapes = [shape] + [shape if ver < 8 else rng.choice([shape, shape[1:], [1] * len(shape), []]) for _ in range(k - 1)]
        names = ["x", "b", "c"][:k]
        spec.update(nodes=[N(op, names, ["y"])], inputs=[_inp(rng, nm, dt, s) for nm, s in zip(names, shapes)])
    elif t == "onehot":
        shape = _shape(rng, (1, 2, 3))
        depth = rng.choice([3, 4])
        n = int(np.prod(shape))
        lo = -depth if ver >= 11 else 0
        idx = [rng.randrange(lo, depth) for _ in range(n)]
        axis = rng.choice([None, 0, -1, 1 if len(shape) >= 1 else 0])
        spec["inits"] += [{"name": "depth", "dt": "i64", "shape": [], "data": [depth]} if ver >= 11 else {"name": "depth", "dt": "i64", "shape": [1], "data": [depth]},
                          {"name": "values", "dt": "f32", "shape": [2], "data": [rng.choice([0.0, -1.0]), rng.choice([1.0, 5.0])]}]
        spec.update(nodes=[N("OneHot", ["x", "depth", "values"], ["y"], axis=axis)], inputs=[_inp(rng, "x", "i64", shape, idx)])
    elif t == "scatter":
        shape = rng.choice([[3, 3], [2, 3, 2], [4]])
        axis = rng.choice([None, 0, len(shape) - 1])
        ax = axis or 0
        ishape = list(shape)
        ishape[ax] = rng.choice([1, 2])
        n = int(np.prod(ishape))
        # unique indices along the axis (duplicates are unspecified without a reduction)
        idx = np.zeros(ishape, dtype=np.int64)
        it = np.nditer(idx, flags=["multi_index"])
        for _ in it:
            mi = it.multi_index
            idx[mi] = (mi[ax] * 2 + sum(mi)) % shape[ax] if ishape[ax] == 1 else (mi[ax] + sum(mi[:ax]) + sum(mi[ax + 1:])) % shape[ax]
        if ishape[ax] == 2 and shape[ax] < 2:
            ishape[ax] = 1
        if ver >= 11 and rng.random() < 0.4:
            idx = np.where(idx > 0, idx - shape[ax], idx)  # negative indices (from 11)
        opn = "Scatter" if ver < 11 else "ScatterElements"
        attrs = {"axis": axis}
        if ver >= 16 and rng.random() < 0.5:
            attrs["reduction"] = rng.choice(["add", "mul"] + (["max", "min"] if ver >= 18 else []))
        spec.update(nodes=[N(opn, ["x", "i", "u"], ["y"], **attrs)],
                    inputs=[_inp(rng, "x", fdt, shape), _inp(rng, "i", "i64", ishape, [int(v) for v in idx.reshape(-1)]), _inp(rng, "u", fdt, ishape)])
    elif t == "argmax":
        shape = _shape(rng)
        n = int(np.prod(shape))
        axis = rng.choice([None, 0, 1, len(shape) - 1] + ([-1] if ver >= 11 else []))
        attrs = {"axis": axis, "keepdims": rng.choice([None, 0, 1])}
        if ver >= 12:
            attrs["select_last_index"] = rng.choice([None, 0, 1])
        spec.update(nodes=[N(rng.choice(["ArgMax", "ArgMin"]), ["x"], ["y"], **attrs)],
                    inputs=[_inp(rng, "x", "f32", shape, [float(rng.randrange(3)) for _ in range(n)])])  # many ties
    elif t == "flatten":
        shape = _shape(rng, (3, 4, 2, 1))
        axis = rng.choice([None, 0, 1, len(shape), len(shape) - 1] + ([-1, -len(shape)] if ver >= 11 else []))
        dt = "f32" if ver < 9 else rng.choice(["f32", "i64", "bool", "str"])
        x = _inp(rng, "x", dt, shape) if dt != "str" else _inp(rng, "x", "str", shape, [rng.choice(["a", "bc", ""]) for _ in range(int(np.prod(shape)))])
        spec.update(nodes=[N("Flatten", ["x"], ["y"], axis=axis)], inputs=[x])
    elif t == "cumsum":
        shape = _shape(rng)
        spec["inits"].append({"name": "ax", "dt": rng.choice(["i64", "i32"]), "shape": [], "data": [rng.choice([0, 1, -1, len(shape) - 1])]})
        spec.update(nodes=[N("CumSum", ["x", "ax"], ["y"], exclusive=rng.choice([None, 0, 1]), reverse=rng.choice([None, 0, 1]))],
                    inputs=[_inp(rng, "x", rng.choice(["f32", "f64", "i64", "i32"]), shape)])
    elif t == "gather":
        shape = _shape(rng)
        axis = rng.choice([None, 0, 1, len(shape) - 1] + ([-1] if ver >= 11 else []))
        d = shape[axis or 0]
        ishape = rng.choice([[2], [1, 2], [], [2, 2]])
        n = int(np.prod(ishape)) if ishape else 1
        idx = [rng.randrange(-d if ver >= 11 else 0, d) for _ in range(n)]
        spec.update(nodes=[N("Gather", ["x", "i"], ["y"], axis=axis)],
                    inputs=[_inp(rng, "x", fdt, shape), _inp(rng, "i", rng.choice(["i64", "i32"]), ishape, idx)])
    elif t == "depthtospace":
        bs = 2
        shape = [1, 8, rng.choice([1, 2]), rng.choice([2, 3])]
        attrs = {"blocksize": bs}
        if ver >= 11:
            attrs["mode"] = rng.choice([None, "DCR", "CRD"])
        opn = rng.choice(["DepthToSpace", "DepthToSpace", "SpaceToDepth"])
        if opn == "SpaceToDepth":
            shape, attrs = [1, 2, 2, 4], {"blocksize": 2}
        spec.update(nodes=[N(opn, ["x"], ["y"], **attrs)], inputs=[_inp(rng, "x", "f32", shape, [float(i) for i in range(int(np.prod(shape)))])])
    elif t == "pool":
        shape = [1, rng.choice([1, 2]), rng.choice([4, 5]), rng.choice([4, 5])]
        opn = rng.choice(["MaxPool", "AveragePool"])
        attrs = {"kernel_shape": rng.choice([[2, 2], [3, 3], [2, 3]]), "strides": rng.choice([None, [2, 2], [1, 2]]),
                 "pads": rng.choice([None, [1, 1, 1, 1], [0, 1, 0, 1]]), "auto_pad": None}
        if rng.random() < 0.25:
            attrs["pads"] = None
            attrs["auto_pad"] = rng.choice(["SAME_UPPER", "VALID"])  # (SAME_LOWER: onnx.reference pads differently from onnxruntime at every version)
        if ver >= 10:
            attrs["ceil_mode"] = rng.choice([None, 0, 1])
        if opn == "AveragePool":
            attrs["count_include_pad"] = rng.choice([None, 0, 1])
        if opn == "MaxPool" and ver >= 10:
            attrs["dilations"] = rng.choice([None, [1, 1], [2, 1]])
        if opn == "AveragePool" and ver >= 19:
            attrs["dilations"] = rng.choice([None, [1, 1], [2, 1]])
        # (MaxPool's Indices output is left out: onnx.reference computes other indices than onnxruntime at
        # every version - a third-party disagreement that has nothing to do with versions)
        spec.update(nodes=[N(opn, ["x"], list(spec["outputs"]), **attrs)], inputs=[_inp(rng, "x", "f32", shape)])
    elif t == "lppool":
        shape = [1, 2, 4, 4]
        if rng.random() < 0.5:
            spec.update(nodes=[N("GlobalLpPool", ["x"], ["y"], p=rng.choice([None, 1, 2, 3]))], inputs=[_inp(rng, "x", "f32", shape)])
        else:
            attrs = {"kernel_shape": [2, 2], "p": rng.choice([None, 1, 2, 3]), "strides": rng.choice([None, [2, 2]]), "pads": rng.choice([None, [1, 1, 0, 0]])}
            if ver >= 18:  # (only the defaults: onnx.reference and onnxruntime disagree on LpPool-18 ceil_mode / dilations)
                attrs["ceil_mode"] = rng.choice([None, 0])
                attrs["dilations"] = rng.choice([None, [1, 1]])
            spec.update(nodes=[N("LpPool", ["x"], ["y"], **attrs)], inputs=[_inp(rng, "x", "f32", shape)])
    elif t == "shape":
        shape = _shape(rng, (3, 4, 2))
        attrs = {}
        if ver >= 15:
            attrs = {"start": rng.choice([None, 0, 1, -1, -2]), "end": rng.choice([None, 1, 2, -1, 100])}
        op = rng.choice(["Shape", "Shape", "Size"])
        spec.update(nodes=[N(op, ["x"], ["y"], **(attrs if op == "Shape" else {}))], inputs=[_inp(rng, "x", fdt, shape)])
    elif t == "reshape":
        shape = rng.choice([[2, 3, 4], [4, 3], [2, 0, 3] if ver >= 14 else [2, 6], [6, 2, 2]])
        n = int(np.prod(shape))
        tgt = rng.choice([[0, -1], [-1], [2, -1], [0, 0, -1] if len(shape) >= 3 else [0, -1], [n] if n else [0, 6]])
        attrs = {}
        if ver >= 14 and n == 0:
            tgt = rng.choice([[3, 0, 2], [0, 6], [2, 0, -1] if False else [0, 3, 2]])
            attrs = {"allowzero": rng.choice([None, 0, 1])}
            if attrs["allowzero"] != 1:
                tgt = [2, 0, 3]
            elif tgt[0] == 0 and False:
                pass
        spec["inits"].append({"name": "t", "dt": "i64", "shape": [len(tgt)], "data": tgt})
        spec.update(nodes=[N("Reshape", ["x", "t"], ["y"], **attrs)], inputs=[_inp(rng, "x", fdt, shape)])
    elif t == "dft":
        n = rng.choice([4, 5])
        shape = rng.choice([[1, n, 1], [2, n, 2], [1, 3, n, 1]])
        axis = rng.choice([None, 1, len(shape) - 2, -2])
        inv, ones = rng.choice([None, 0, 1]), rng.choice([None, 0, 1])
        if shape[-1] == 2 or inv:
            ones = None
        if ver < 20:
            spec.update(nodes=[N("DFT", ["x"], ["y"], axis=axis, inverse=inv, onesided=ones)], inputs=[_inp(rng, "x", "f32", shape)])
        else:
            ins = ["x"]
            if axis is not None:
                spec["inits"].append({"name": "ax", "dt": "i64", "shape": [], "data": [axis]})
                ins = ["x", "", "ax"]
            spec.update(nodes=[N("DFT", ins, ["y"], inverse=inv, onesided=ones)], inputs=[_inp(rng, "x", "f32", shape)])
    elif t == "groupnorm":
        g, cpg = rng.choice([(1, 2), (2, 2), (2, 1), (3, 2)])
        c = g * cpg
        shape = [rng.choice([1, 2]), c, rng.choice([2, 3])]
        per = g if ver < 21 else c
        spec.update(nodes=[N("GroupNormalization", ["x", "s", "b"], ["y"], num_groups=g, epsilon=rng.choice([None, 0.5]))],
                    inputs=[_inp(rng, "x", "f32", shape), _inp(rng, "s", "f32", [per]), _inp(rng, "b", "f32", [per])])
    elif t == "mod_round":
        shape = _shape(rng, (1, 2, 3))
        n = int(np.prod(shape))
        which = rng.choice(["Mod", "Mod", "Round", "BitShift", "IsInf"])
        if which == "Mod":
            dt = rng.choice(["i64", "i32", "f32"])
            fm = 1 if dt == "f32" else rng.choice([None, 0, 1])
            den = [rng.choice([2, -2, 3, -3, 4]) for _ in range(n)]
            num = [rng.choice([-7, 7, -9, 8, 5, -5]) for _ in range(n)]
            cv = float if dt == "f32" else int
            spec.update(nodes=[N("Mod", ["x", "b"], ["y"], fmod=fm)], inputs=[_inp(rng, "x", dt, shape, [cv(v) for v in num]), _inp(rng, "b", dt, shape, [cv(v) for v in den])])
        elif which == "Round" and ver >= 11:
            spec.update(nodes=[N("Round", ["x"], ["y"])], inputs=[_inp(rng, "x", fdt, shape, [rng.choice([0.5, 1.5, 2.5, -0.5, -1.5, 0.49, 3.7]) for _ in range(n)])])
        elif which == "BitShift" and ver >= 11:
            spec.update(nodes=[N("BitShift", ["x", "b"], ["y"], direction=rng.choice(["LEFT", "RIGHT"]))],
                        inputs=[_inp(rng, "x", "u8", shape, [rng.randrange(256) for _ in range(n)]), _inp(rng, "b", "u8", shape, [rng.randrange(9) for _ in range(n)])])
        else:
            attrs = {"detect_negative": rng.choice([None, 0, 1]), "detect_positive": rng.choice([None, 0, 1])}
            spec.update(nodes=[N("IsInf", ["x"], ["y"], **attrs)], inputs=[_inp(rng, "x", "f32", shape, [rng.choice([float("inf"), float("-inf"), 1.0, float("nan")]) for _ in range(n)])])
    elif t == "compare":
        op = rng.choice(["Equal", "Less", "Greater"] + (["LessOrEqual", "GreaterOrEqual"] if ver >= 12 else []))
        shape = _shape(rng, (2, 3))
        if op == "Equal":
            dts = ["i64", "i32", "bool"] + (["f32"] if ver >= 11 else []) + (["str"] if ver >= 19 else [])
        else:
            dts = ["f32", "f64"] + (["i64", "i32"] if ver >= 9 else [])
        dt = rng.choice(dts)
        bshape = rng.choice([shape, shape[1:], []])
        n1, n2 = int(np.prod(shape)), int(np.prod(bshape)) if bshape else 1
        mk = (lambda n: [rng.choice(["a", "b", ""]) for _ in range(n)]) if dt == "str" else (lambda n: [rng.randrange(3) for _ in range(n)] if dt != "bool" else [bool(rng.randrange(2)) for _ in range(n)])
        cv = float if dt in ("f32", "f64") else (lambda v: v)
        spec.update(nodes=[N(op, ["x", "b"], ["y"])], inputs=[_inp(rng, "x", dt, shape, [cv(v) for v in mk(n1)]), _inp(rng, "b", dt, bshape, [cv(v) for v in mk(n2)])])
    elif t == "instnorm_lrn":
        shape = [2, 3, 2, 2]
        # (LRN is left out: onnx.reference leaves the last channel unnormalised at every version)
        # (LpNormalization likewise: onnx.reference divides by the signed sum for p=1)
        which = rng.choice(["InstanceNormalization", "Hardmax", "MeanVarianceNormalization" if ver >= 9 else "Hardmax"])
        if which == "InstanceNormalization":
            spec.update(nodes=[N(which, ["x", "s", "b"], ["y"], epsilon=rng.choice([None, 0.5]))],
                        inputs=[_inp(rng, "x", "f32", shape), _inp(rng, "s", "f32", [3]), _inp(rng, "b", "f32", [3])])
        elif which == "LRN":
            spec.update(nodes=[N(which, ["x"], ["y"], size=rng.choice([1, 2, 3]), alpha=rng.choice([None, 0.5]), bias=rng.choice([None, 2.0]))], inputs=[_inp(rng, "x", "f32", shape)])
        elif which == "LpNormalization":
            spec.update(nodes=[N(which, ["x"], ["y"], axis=rng.choice([None, 0, 1, -1]), p=rng.choice([None, 1, 2]))],
                        inputs=[_inp(rng, "x", "f32", shape, [rng.choice([0.5, 1.5, -2.25, 3.0]) for _ in range(24)])])
        elif which == "Hardmax":
            spec.update(nodes=[N(which, ["x"], ["y"], axis=rng.choice([None, 0, 2]))], inputs=[_inp(rng, "x", "f32", shape)])
        else:
            spec.update(nodes=[N(which, ["x"], ["y"], axes=rng.choice([None, [0, 1], [1, 2, 3]]))], inputs=[_inp(rng, "x", "f32", shape, [float(i % 5) + 0.5 * (i % 3) for i in range(24)])])
    else:
        raise ValueError(template)
    return spec


# how many times the per-template count: operators whose signature did NOT change while their meaning did
# are the ones on which "evaluate under other opset imports" silently computes something else
WEIGHT = {"softmax": 4, "onehot": 2, "gather": 2}

COMPANIONS = [None, None, "v17", "v19", "v21"]


def gen_legacy_program(rng, template: Optional[str] = None, ver: Optional[int] = None) -> list:
    """const inputs -> inline(legacy model) -> downstream operator(s) [-> newer-opset companion]."""
    template = template or rng.choice(sorted(TEMPLATES))
    spec = gen_spec(rng, template, ver)
    steps: list = []
    args = []
    n_in = len(spec["inputs"])
    arg_at = rng.randrange(n_in) if rng.random() < 0.12 else None  # sometimes one operand is a model input: no value then
    for k, i in enumerate(spec["inputs"]):
        if k == arg_at and i["dt"] in ("f32", "f64", "i64", "i32") and template not in ("scatter", "gather", "onehot"):
            steps.append({"op": "arg", "dt": i["dt"], "shape": i["shape"]})
        else:
            st = {"op": "const", "how": rng.choice(["value", "value", "init"]) if i["dt"] != "str" else "value",
                  "dt": i["dt"], "shape": i["shape"], "data": i["data"]}
            steps.append(st)
        args.append(k)
    nout = len(spec["outputs"])
    steps.append({"op": "inline_legacy", "spec": spec, "args": args, "how": rng.choice(["pos", "kw"])})
    first = n_in
    comp = rng.choice(COMPANIONS)
    if spec["ver"] > 17 and comp in (None, "v17"):
        comp = rng.choice(["v19", "v21", None])
    nvars = n_in + nout
    for j in range(nout):
        steps.append({"op": "identity_m", "mod": comp or "v17", "args": [first + j]})
        nvars += 1
    # a downstream consumer of the first result: its shape as data, and the value itself once more
    steps.append({"op": "shape", "args": [first]})
    steps.append({"op": "identity_m", "mod": comp or "v17", "args": [nvars]})
    return steps
