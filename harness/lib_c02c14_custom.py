"""User-defined operator classes for the C02 program specs (kept in a module WITHOUT
`from __future__ import annotations`: spox reads the dataclass field types at class creation)."""
from dataclasses import dataclass

from spox import Var
from spox._fields import BaseAttributes, BaseInputs, BaseOutputs
from spox._node import Node, OpType


def make_custom(ident: str, domain: str):
    """A user-defined operator (one input, one output of the same type), as tests/test_custom_operator.py
    defines one. Returns its constructor function."""

    class _Custom(Node):
        op_type = OpType(ident, domain, 1)

        @dataclass
        class Attributes(BaseAttributes):
            pass

        @dataclass
        class Inputs(BaseInputs):
            X: Var

        @dataclass
        class Outputs(BaseOutputs):
            Y: Var

        def infer_output_types(self):
            return {"Y": self.inputs.X.type} if self.inputs.X.type is not None else {}

    def call(x):
        return _Custom(_Custom.Attributes(), _Custom.Inputs(x)).outputs.Y

    return call
