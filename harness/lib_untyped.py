"""User-defined operators whose outputs are untyped / partially typed (C12 history pool).

Kept in a module WITHOUT `from __future__ import annotations`: spox reads the dataclass field types
at class creation. Uses the documented custom-operator recipe (spox._node.Node); callers guard the
import and register 'not observable' if it is gone.
"""
from dataclasses import dataclass

import numpy as np

from spox import Tensor, Var
from spox._fields import BaseAttributes, BaseInputs, BaseOutputs
from spox._node import Node, OpType


def make(kind: str):
    """kind 'untyped': output type None; 'partial': float32 tensor of unknown rank."""

    class _Opaque(Node):
        op_type = OpType("Opaque" + kind.capitalize(), "verif.untyped", 1)

        @dataclass
        class Attributes(BaseAttributes):
            pass

        @dataclass
        class Inputs(BaseInputs):
            X: Var

        @dataclass
        class Outputs(BaseOutputs):
            Y: Var

        def infer_output_types(self):
            return {} if kind == "untyped" else {"Y": Tensor(np.float32, None)}

    def call(x):
        return _Opaque(_Opaque.Attributes(), _Opaque.Inputs(x)).outputs.Y

    return call
