"""C18 — a user-defined operator INSIDE an inlined model, next to default-domain nodes that need
opset adaptation ("composes with ... inlining like any other").

Generated class of programs: an ONNX model written against ai.onnx 11..17 that contains
  * default-domain nodes whose schema changed on the way to 18..21 (Reduce* with an `axes` attribute,
    ReduceSum/Squeeze/Unsqueeze/Split with attribute-carried axes/split, Softmax with the old
    flatten-to-2D meaning) and fillers that did not change,
  * one or more user-defined operators (several domains, versions, 1-2 inputs / outputs, optional
    empty input, float / int-list / string attributes) before / between / after them, consuming and
    feeding them,
  * optionally an `ai.onnx.ml` node, optionally everything inside the branches of an `If`,
  * built with onnx.helper, or by spox itself from a custom `Node` class at opset 17,
is `spox.inline`d into a program whose other operators require ai.onnx 18 / 19 / 20 / 21, optionally
next to a custom operator of the same domain at another version.

Oracle (public API + ModelProto only): the build succeeds; `onnx.checker.check_model(full_check=True)`
accepts the model (no schema for the custom domain registered - ONNX permits unknown domains), i.e.
every default-domain node is valid at the imported version; the custom nodes are there verbatim
(operator, domain, arity incl. empty names, attributes); the custom domain is imported at the highest
version used; and the values computed by `onnx.reference` (custom operators implemented in Python)
equal a numpy evaluation of the original model's meaning.
"""
import warnings

DOMAINS = ["com.microsoft", "my.domain", "custom.ns.v2", "acme"]
TARGETS = [18, 19, 20, 21]

# default-domain steps: name -> (lowest, highest source opset at which the spelling is valid, needs conversion)
STEPS = {
    "reducemean_attr": (7, 17, True),
    "reducemax_attr": (7, 17, True),
    "reducel2_attr": (7, 17, True),
    "reducesum_attr": (7, 12, True),
    "unsq_sq_attr": (7, 12, True),
    "split_attr": (7, 12, True),
    "softmax_old": (7, 12, True),
    # the converter turns these attributes into graph INITIALIZERS of the converted model
    "pad_attr": (7, 10, True),
    "clip_attr": (7, 10, True),
    # Upsample: `scales` attribute (7-8) -> input (9) -> Resize (10 ->): again an initializer after conversion
    "upsample_attr": (7, 8, True),
    "upsample_input": (9, 9, True),
    "resize10": (10, 10, True),
    "relu": (7, 17, False),
    "add_self": (7, 17, False),
}
CUSTOMS = ["ScaleShift", "AddMul", "MaybeBias", "Tagged"]


# ----------------------------------------------------------------------------- generation (pure data)
def gen_spec(rng, idx: int):
    variant = ["chain", "chain", "chain", "if-body", "ml", "spox-built"][idx % 6]
    src = rng.randrange(11, 18)
    if idx % 5 == 0:
        src = rng.choice([11, 12])  # the attribute-carried spellings
    if idx % 4 == 3:
        src = rng.choice([7, 8, 9, 10])   # Pad / Clip / Upsample with attributes: conversion introduces initializers
    target = TARGETS[(idx // 2) % 4]
    dom = DOMAINS[idx % len(DOMAINS)]
    cv = 1 + idx % 4
    avail = [s for s, (lo, hi, _) in STEPS.items() if lo <= src <= hi]
    need = [s for s in avail if STEPS[s][2]]
    n_steps = rng.randrange(1, 4)
    steps = [rng.choice(need)] + [rng.choice(avail) for _ in range(n_steps - 1)]
    if src <= 10:
        steps[0] = ["pad_attr", "clip_attr", {7: "upsample_attr", 8: "upsample_attr", 9: "upsample_input", 10: "resize10"}[src]][(idx // 4 + idx // 12) % 3]
    rng.shuffle(steps)
    chain = [("d", s) for s in steps]
    n_custom = rng.randrange(1, 4)
    for j in range(n_custom):
        op = CUSTOMS[(idx + j) % len(CUSTOMS)]
        pos = [0, len(chain), rng.randrange(0, len(chain) + 1)][(idx + j) % 3]
        k = rng.choice([2.0, -0.5, 1.5])
        chain.insert(pos, ("c", op, k, dom if j < 2 else DOMAINS[(idx + 1) % len(DOMAINS)]))
    spec = {"variant": variant, "src": src, "target": target, "cv": cv, "chain": [list(c) for c in chain],
            "outer_custom": (idx % 3 == 1), "outer_cv": 1 + (idx + 2) % 5, "twice": idx % 7 == 3,
            "kw": idx % 2 == 0, "vp": ["default", "none"][idx % 2 if idx % 4 == 0 else 0]}
    if variant == "spox-built":
        spec["src"] = 17
        spec["chain"] = [["c", "ScaleShift", 2.0, dom], ["d", "reducemean_attr"], ["c", "ScaleShift", -0.5, dom]]
    return spec


# ----------------------------------------------------------------------------- the original model + its meaning
def np_step(np, name, x):
    if name == "reducemean_attr":
        return x.mean(axis=1, keepdims=True)
    if name == "reducemax_attr":
        return x.max(axis=2, keepdims=True)
    if name == "reducel2_attr":
        return np.sqrt((x.astype(np.float64) ** 2).sum(axis=0, keepdims=True)).astype(np.float32)
    if name == "reducesum_attr":
        return x.sum(axis=-1, keepdims=True)
    if name == "unsq_sq_attr":
        return x
    if name == "split_attr":
        return x[..., :1]
    if name == "softmax_old":  # opset < 13: coerced to 2-D at axis 1
        f = x.reshape(x.shape[0], -1).astype(np.float64)
        e = np.exp(f - f.max(1, keepdims=True))
        return (e / e.sum(1, keepdims=True)).reshape(x.shape).astype(np.float32)
    if name == "pad_attr":
        return np.pad(x, [(0, 0)] * (x.ndim - 1) + [(1, 2)], constant_values=0.5)
    if name == "clip_attr":
        return np.clip(x, -0.25, 0.75)
    if name in ("upsample_attr", "upsample_input", "resize10"):
        return np.repeat(x, 2, axis=-1)
    if name == "relu":
        return np.maximum(x, 0)
    if name == "add_self":
        return x + x
    if name == "scaler":
        return ((x - np.float32(0.5)) * np.float32(2.0)).astype(np.float32)
    raise KeyError(name)


def np_custom(np, op, k, x):
    k = np.float32(k)
    if op == "ScaleShift":
        return x * k + np.float32(1.0)
    if op == "AddMul":  # two outputs (X+Y, X*Y) with Y = X; the chain goes on with their difference k*(a) - b ... keep first
        return x + x
    if op == "MaybeBias":
        return x + k
    if op == "Tagged":
        return x * k
    raise KeyError(op)


def onnx_nodes(onnx, chain, x_name, prefix, shape, np):
    """-> (nodes, output name, gold function pieces). Shapes are tracked with numpy on a dummy."""
    h = onnx.helper
    nodes, cur = [], x_name
    dummy = np.zeros(shape, dtype=np.float32)
    customs = []
    for i, c in enumerate(chain):
        out = f"{prefix}v{i}"
        if c[0] == "d":
            s = c[1]
            if s == "split_attr" and dummy.shape[-1] < 2:
                s = "relu"
            if s == "reducemean_attr":
                nodes.append(h.make_node("ReduceMean", [cur], [out], axes=[1], keepdims=1, name=f"{prefix}n{i}"))
            elif s == "reducemax_attr":
                nodes.append(h.make_node("ReduceMax", [cur], [out], axes=[2], keepdims=1, name=f"{prefix}n{i}"))
            elif s == "reducel2_attr":
                nodes.append(h.make_node("ReduceL2", [cur], [out], axes=[0], keepdims=1, name=f"{prefix}n{i}"))
            elif s == "reducesum_attr":
                nodes.append(h.make_node("ReduceSum", [cur], [out], axes=[-1], keepdims=1, name=f"{prefix}n{i}"))
            elif s == "unsq_sq_attr":
                nodes.append(h.make_node("Unsqueeze", [cur], [out + "u"], axes=[0], name=f"{prefix}n{i}a"))
                nodes.append(h.make_node("Squeeze", [out + "u"], [out], axes=[0], name=f"{prefix}n{i}b"))
            elif s == "split_attr":
                nodes.append(h.make_node("Split", [cur], [out, out + "rest"], axis=-1,
                                         split=[1, dummy.shape[-1] - 1], name=f"{prefix}n{i}"))
            elif s == "softmax_old":
                nodes.append(h.make_node("Softmax", [cur], [out], name=f"{prefix}n{i}"))
            elif s == "pad_attr":
                r = len(dummy.shape)
                nodes.append(h.make_node("Pad", [cur], [out], mode="constant", value=0.5,
                                         pads=[0] * (r - 1) + [1] + [0] * (r - 1) + [2], name=f"{prefix}n{i}"))
            elif s == "clip_attr":
                nodes.append(h.make_node("Clip", [cur], [out], min=-0.25, max=0.75, name=f"{prefix}n{i}"))
            elif s == "upsample_attr":
                nodes.append(h.make_node("Upsample", [cur], [out], mode="nearest",
                                         scales=[1.0] * (len(dummy.shape) - 1) + [2.0], name=f"{prefix}n{i}"))
            elif s in ("upsample_input", "resize10"):
                r = len(dummy.shape)
                nodes.append(h.make_node("Constant", [], [out + "sc"], name=f"{prefix}n{i}c",
                                         value=h.make_tensor(out + "sc", onnx.TensorProto.FLOAT, [r], [1.0] * (r - 1) + [2.0])))
                nodes.append(h.make_node("Upsample" if s == "upsample_input" else "Resize", [cur, out + "sc"], [out],
                                         mode="nearest", name=f"{prefix}n{i}"))
            elif s == "relu":
                nodes.append(h.make_node("Relu", [cur], [out], name=f"{prefix}n{i}"))
            elif s == "add_self":
                nodes.append(h.make_node("Add", [cur, cur], [out], name=f"{prefix}n{i}"))
            elif s == "scaler":
                nodes.append(h.make_node("Scaler", [cur], [out], domain="ai.onnx.ml", offset=[0.5], scale=[2.0], name=f"{prefix}n{i}"))
            dummy = np_step(np, s, dummy)
            c[1] = s
        else:
            _, op, k, dom = c
            if op == "ScaleShift":
                nd = h.make_node("ScaleShift", [cur], [out], domain=dom, k=float(k), b=1.0, name=f"{prefix}c{i}")
            elif op == "AddMul":
                nd = h.make_node("AddMul", [cur, cur], [out, out + "mul"], domain=dom, name=f"{prefix}c{i}")
            elif op == "MaybeBias":
                nd = h.make_node("MaybeBias", [cur, ""], [out], domain=dom, bias=float(k), name=f"{prefix}c{i}")
            else:
                nd = h.make_node("Tagged", [cur], [out], domain=dom, factor=float(k), axes=[0, -1, 2], mode="täg", name=f"{prefix}c{i}")
            nodes.append(nd)
            customs.append(nd)
        cur = out
    return nodes, cur, dummy.shape, customs


def gold(np, chain, x):
    for c in chain:
        x = np_step(np, c[1], x) if c[0] == "d" else np_custom(np, c[1], c[2], x)
    return x


def custom_domains(spec):
    return sorted({c[3] for c in spec["chain"] if c[0] == "c"})


def make_foreign(onnx, np, spec):
    """the model to inline, built with onnx.helper -> (ModelProto, [custom NodeProtos])"""
    h, TP = onnx.helper, onnx.TensorProto
    shape = [2, 3, 4]
    chain = spec["chain"]
    if spec["variant"] == "ml" and not any(c[0] == "d" and c[1] == "scaler" for c in chain):
        chain.insert(len(chain) // 2, ["d", "scaler"])
    X = h.make_tensor_value_info("X", TP.FLOAT, shape)
    inputs = [X]
    if spec["variant"] == "if-body":
        inputs.append(h.make_tensor_value_info("cond", TP.BOOL, []))
        tn, tout, oshape, c1 = onnx_nodes(onnx, chain, "X", "t_", shape, np)
        alt = [list(c) for c in chain if c[0] == "d"] + [list(c) for c in chain if c[0] == "c"]  # same ops, other order
        spec["alt"] = alt
        en, eout, oshape2, c2 = onnx_nodes(onnx, alt, "X", "e_", shape, np)
        tb = h.make_graph(tn, "then_g", [], [h.make_tensor_value_info(tout, TP.FLOAT, list(oshape))])
        eb = h.make_graph(en, "else_g", [], [h.make_tensor_value_info(eout, TP.FLOAT, list(oshape2))])
        nodes = [h.make_node("If", ["cond"], ["Y"], then_branch=tb, else_branch=eb, name="the_if")]
        customs = c1 + c2
        oshape = oshape if tuple(oshape) == tuple(oshape2) else None
    else:
        nodes, out, oshape, customs = onnx_nodes(onnx, chain, "X", "", shape, np)
        nodes.append(h.make_node("Identity", [out], ["Y"], name="fin"))
    Y = h.make_tensor_value_info("Y", TP.FLOAT, None if oshape is None else list(oshape))
    g = h.make_graph(nodes, "foreign", inputs, [Y])
    imps = [h.make_operatorsetid("", spec["src"])] + [h.make_operatorsetid(d, spec["cv"]) for d in custom_domains(spec)]
    if any(c[0] == "d" and c[1] == "scaler" for c in chain):
        imps.append(h.make_operatorsetid("ai.onnx.ml", 3))
    return h.make_model(g, opset_imports=imps, ir_version=8), customs


def custom_node_class(dom, version):
    """a user-defined operator class as docs/manual/unstable.rst prescribes (extension interface)"""
    from dataclasses import dataclass

    from spox._attributes import AttrFloat32
    from spox._fields import BaseAttributes, BaseInputs, BaseOutputs
    from spox._node import Node, OpType
    from spox._var import Var

    class ScaleShift(Node):
        op_type = OpType("ScaleShift", dom, version)

        @dataclass
        class Attributes(BaseAttributes):
            k: AttrFloat32
            b: AttrFloat32

        @dataclass
        class Inputs(BaseInputs):
            X: Var

        @dataclass
        class Outputs(BaseOutputs):
            Y: Var

        attrs: Attributes
        inputs: Inputs
        outputs: Outputs

        def infer_output_types(self):
            return {"Y": self.inputs.X.type} if self.inputs.X.type is not None else {}

    def scale_shift(x, k, b=1.0):
        return ScaleShift(ScaleShift.Attributes(k=AttrFloat32(k, "k"), b=AttrFloat32(b, "b")), ScaleShift.Inputs(x)).outputs.Y

    return scale_shift


def make_foreign_spox(np, spec):
    """the same kind of model, produced by spox itself at opset 17 from a custom Node class"""
    import spox
    import spox.opset.ai.onnx.v17 as op17

    dom = spec["chain"][0][3]
    ss = custom_node_class(dom, spec["cv"])
    x = spox.argument(spox.Tensor(np.float32, (2, 3, 4)))
    y = ss(op17.reduce_mean(ss(x, spec["chain"][0][2]), axes=[1], keepdims=1), spec["chain"][2][2])
    return spox.build({"X": x}, {"Y": y})


def reference_ops(np, domains):
    from onnx.reference.op_run import OpRun

    out = []
    for d in domains:
        def r_ss(self, X, k=None, b=None):
            return (X * np.float32(k) + np.float32(b),)

        def r_am(self, X, Y):
            return (X + Y, X * Y)

        def r_mb(self, X, B=None, bias=None):
            return (X + np.float32(bias) + (0 if B is None else B),)

        def r_tag(self, X, factor=None, axes=None, mode=None):
            return (X * np.float32(factor),)

        out += [type("ScaleShift", (OpRun,), {"op_domain": d, "_run": r_ss}),
                type("AddMul", (OpRun,), {"op_domain": d, "_run": r_am}),
                type("MaybeBias", (OpRun,), {"op_domain": d, "_run": r_mb}),
                type("Tagged", (OpRun,), {"op_domain": d, "_run": r_tag})]
    return out


def all_nodes(graph):
    for n in graph.node:
        yield n
        for a in n.attribute:
            if a.type == 5:  # GRAPH
                yield from all_nodes(a.g)
            for g in a.graphs:
                yield from all_nodes(g)


def node_sig(onnx, n):
    return (n.op_type, n.domain, tuple(bool(x) for x in n.input), len(n.output),
            tuple(sorted((a.name, a.type, repr(onnx.helper.get_attribute_value(a))) for a in n.attribute)))


# ----------------------------------------------------------------------------- run one case
def run_spec(spec):
    """-> (verdicts [(key, what)], info dict). Public API + ModelProto only."""
    import copy

    import numpy as np
    import onnx
    import spox
    from onnx.reference import ReferenceEvaluator

    spec = copy.deepcopy(spec)
    var = spec["variant"]
    pre = f"inline-custom:{var}"
    info = {}
    if var == "spox-built":
        with warnings.catch_warnings():
            warnings.simplefilter("ignore")
            foreign = make_foreign_spox(np, spec)
        customs = [n for n in foreign.graph.node if n.domain not in ("", "ai.onnx", "ai.onnx.ml")]
    else:
        foreign, customs = make_foreign(onnx, np, spec)
    info["foreign_imports"] = [[o.domain, o.version] for o in foreign.opset_import]
    info["foreign_domains"] = [n.domain for n in foreign.graph.node]
    info["foreign_ops"] = [f"{n.domain}::{n.op_type}" if n.domain else n.op_type for n in all_nodes(foreign.graph)]
    mods = {18: "v18", 19: "v19", 20: "v20", 21: "v21"}
    opm = __import__(f"spox.opset.ai.onnx.{mods[spec['target']]}", fromlist=["x"])
    x_val = (np.arange(24, dtype=np.float32).reshape(2, 3, 4) - 9) / 7
    verdicts = []
    doms = custom_domains(spec)
    try:
        with warnings.catch_warnings():
            warnings.simplefilter("ignore")
            ctx = spox._future.value_prop_backend(spox._future.ValuePropBackend.NONE) if spec.get("vp") == "none" else None
            if ctx is not None:
                ctx.__enter__()
            try:
                a = spox.argument(spox.Tensor(np.float32, (2, 3, 4)))
                feeds = {"a": x_val}
                ins = {"a": a}
                pre_v = opm.relu(a) if spec.get("twice") else a
                args = {"X": pre_v}
                if var == "if-body":
                    cnd = spox.argument(spox.Tensor(np.bool_, ()))
                    ins["cnd"] = cnd
                    args["cond"] = cnd
                f = spox.inline(foreign)
                res = f(**args) if spec.get("kw") else f(*args.values())
                y = res["Y"]
                outs = {"y": y}
                if spec.get("twice"):
                    y_b = spox.inline(foreign)(**{**args, "X": a})["Y"]
                    outs["y_b"] = y_b
                # something that requires the target opset
                t = spec["target"]
                aux = {18: lambda v: opm.reduce_l1(v, keepdims=1), 19: lambda v: opm.identity(v),
                       20: lambda v: opm.gelu(v), 21: lambda v: opm.identity(v)}[t](y)
                outs["aux"] = aux
                if spec.get("outer_custom"):
                    outs["oc"] = custom_node_class(doms[0], spec["outer_cv"])(a, 3.0)
                built = spox.build(ins, outs)
            finally:
                if ctx is not None:
                    ctx.__exit__(None, None, None)
    except Exception as e:  # noqa: BLE001
        return [(f"{pre}:raises", f"inlining a model (ai.onnx {spec['src']} + custom domain(s) {doms}: {info['foreign_ops']}) into a "
                 f"program at opset {spec['target']} raises {type(e).__name__}: {str(e)[:200]}")], info
    imports = {}
    for o in built.opset_import:
        imports[o.domain] = o.version
    info["imports"] = imports
    info["built_ops"] = [n.op_type for n in all_nodes(built.graph)]
    # (1) valid at the imported versions
    try:
        onnx.checker.check_model(built, full_check=True)
    except Exception as e:  # noqa: BLE001
        verdicts.append((f"{pre}:checker", f"built model (imports {imports}) is refused by onnx.checker (full_check): {str(e)[:250]}"))
    if imports.get("", 0) < spec["target"]:
        verdicts.append((f"{pre}:import", f"default domain imported at {imports.get('')} but the program uses operators of opset {spec['target']}"))
    # (2) custom nodes verbatim
    want = sorted(node_sig(onnx, n) for n in customs for _ in range(2 if spec.get("twice") else 1))
    got_nodes = [n for n in all_nodes(built.graph) if n.domain not in ("", "ai.onnx", "ai.onnx.ml")]
    if spec.get("outer_custom"):
        extra = [n for n in built.graph.node if n.op_type == "ScaleShift" and n.domain == doms[0] and len(n.attribute) == 2
                 and any(a_.name == "k" and a_.f == 3.0 for a_ in n.attribute)]
        for n in extra[:1]:
            got_nodes = [m for m in got_nodes if m is not n]
        if not extra:
            verdicts.append((f"{pre}:verbatim", "the outer custom node is missing from the built model"))
    got = sorted(node_sig(onnx, n) for n in got_nodes)
    if got != want:
        verdicts.append((f"{pre}:verbatim", f"custom nodes of the inlined model are not emitted verbatim: expected {want}, got {got}"))
    # (3) imports of the custom domains: highest version used
    for d in doms:
        w = spec["cv"]
        if spec.get("outer_custom") and d == doms[0]:
            w = max(w, spec["outer_cv"])
        if imports.get(d) != w:
            verdicts.append((f"{pre}:custom-import", f"custom domain {d!r} imported at {imports.get(d)}, highest version used is {w}"))
    if any(c[0] == "d" and c[1] == "scaler" for c in spec["chain"]) and "ai.onnx.ml" not in imports:
        verdicts.append((f"{pre}:custom-import", "ai.onnx.ml is used by the inlined model but not imported"))
    # (4) values
    if not any(k.endswith(":checker") for k, _ in verdicts):
        try:
            ops = reference_ops(np, doms)
            for cond in ([True, False] if var == "if-body" else [None]):
                feed = dict(feeds)
                if cond is not None:
                    feed["cnd"] = np.array(cond)
                names = [o.name for o in built.graph.output]
                r = dict(zip(names, ReferenceEvaluator(built, new_ops=ops).run(None, feed)))
                chain = spec["chain"] if var != "if-body" or cond else spec["alt"]
                src_in = np.maximum(x_val, 0) if spec.get("twice") else x_val
                exp = gold(np, chain, src_in)
                if r["y"].shape != exp.shape or not np.allclose(r["y"], exp, rtol=1e-4, atol=1e-5):
                    verdicts.append((f"{pre}:values", f"built model computes {np.asarray(r['y']).ravel()[:4].tolist()} (shape {r['y'].shape}), the inlined "
                                     f"model (opset {spec['src']}) means {exp.ravel()[:4].tolist()} (shape {exp.shape})" + ("" if cond is None else f" for cond={cond}")))
                    break
                if spec.get("twice"):
                    exp_b = gold(np, chain, x_val)
                    if not np.allclose(r["y_b"], exp_b, rtol=1e-4, atol=1e-5):
                        verdicts.append((f"{pre}:values", "second inlined copy computes other values than the model means"))
                        break
        except Exception as e:  # noqa: BLE001
            verdicts.append((f"{pre}:values", f"the built model cannot be evaluated by onnx.reference (custom ops implemented in Python): {type(e).__name__}: {str(e)[:200]}"))
    return verdicts, info


def adapt_decision(spec_or_model, target):
    """what the Lean model is asked: (default-domain source version or None, has default nodes, target)"""
    m = spec_or_model
    src = [o.version for o in m.opset_import if o.domain in ("", "ai.onnx")]
    return {"src": max(src) if src else None, "target": target,
            "domains": sorted({n.domain for n in m.graph.node})}
