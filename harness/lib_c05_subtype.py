"""C05, round 10 - tie H for Model/Subtype.lean.

The model's `subtype` / `compatible` / `shapeLe` / `propCheck` / `checkedProp` are evaluated by the driver
on generated inputs and compared with the real `Type._subtype`, `Shape.__le__`, `PropValue.check` and
the second loop of `Node.inference` (a real node class whose `infer_output_types` /
`propagate_values` are replaced by the generated answers). Every access to a spox internal is guarded
by the caller: a failure to observe becomes `ck.broken("correspondence", ...)`, never exit 2.
"""
from __future__ import annotations

import collections
import copy
import warnings

import numpy as np

from harness import lib_c05 as L

ELEMS = [1, 7, 9, 11, 6, 10, 2, 13]  # float32 int64 bool double int32 float16 uint8 uint64
CONSTS = [0, 1, 2, 3, 5]
SYMS = ["N", "M", "unk__0", "batch"]


def gen_shape(rng):
    r = rng.random()
    if r < 0.15:
        return None
    rank = rng.choice([0, 1, 1, 2, 2, 3, 4])
    out = []
    for _ in range(rank):
        q = rng.random()
        out.append(rng.choice(CONSTS) if q < 0.55 else rng.choice(SYMS) if q < 0.8 else None)
    return out


def gen_type(rng, depth=0):
    r = rng.random()
    if depth < 2 and r < 0.12:
        return {"seq": gen_type(rng, depth + 1)}
    if depth < 2 and r < 0.22:
        return {"opt": gen_type(rng, depth + 1)}
    return {"t": rng.choice(ELEMS), "s": gen_shape(rng)}


def _leaf(ty):
    while "t" not in ty:
        ty = ty.get("seq") or ty.get("opt")
    return ty


def mutate(rng, ty):
    """a type that differs from `ty` in (at most) one place - the interesting neighbours"""
    ty = copy.deepcopy(ty)
    how = rng.choice(["same", "dim", "dim", "dim", "rank", "unrank", "elem", "ctor", "wrap"])
    leaf = _leaf(ty)
    if how == "dim" and leaf["s"]:
        i = rng.randrange(len(leaf["s"]))
        leaf["s"][i] = rng.choice([None, rng.choice(SYMS), rng.choice(CONSTS)])
    elif how == "rank" and leaf["s"] is not None:
        if leaf["s"] and rng.random() < 0.5:
            leaf["s"].pop()
        else:
            leaf["s"].append(rng.choice(CONSTS + [None]))
    elif how == "unrank":
        leaf["s"] = None if leaf["s"] is not None else gen_shape(rng)
    elif how == "elem":
        leaf["t"] = rng.choice(ELEMS)
    elif how == "ctor":
        if "seq" in ty:
            ty = {"opt": ty["seq"]}
        elif "opt" in ty:
            ty = {"seq": ty["opt"]}
        else:
            ty = {"seq": ty}
    elif how == "wrap":
        ty = ty.get("seq") or ty.get("opt") or {"opt": ty}
    return ty, how


def pair_cases(rng, n):
    out = []
    for _ in range(n):
        a = gen_type(rng)
        if rng.random() < 0.8:
            b, how = mutate(rng, a)
        else:
            b, how = gen_type(rng), "independent"
        if rng.random() < 0.5:
            a, b = b, a
        out.append((a, b, how))
    return out


def real_subtype(a, b):
    from spox._type_system import Type

    ta, tb = L.spox_type(a), L.spox_type(b)
    r = {"subtype": bool(ta._subtype(tb)), "top": bool(ta._subtype(Type()))}
    if "t" in a and "t" in b:
        r["shape"] = bool(ta._shape <= tb._shape)
    return r


def check_cases(rng, n):
    """(value element type, value shape, type): mostly near misses of a fitting pair"""
    out = []
    for _ in range(n):
        ty = gen_type(rng) if rng.random() < 0.15 else {"t": rng.choice(ELEMS), "s": gen_shape(rng)}
        leaf = _leaf(ty)
        if leaf["s"] is None:
            shape = [rng.choice(CONSTS) for _ in range(rng.choice([0, 1, 2, 3]))]
        else:
            shape = [d if isinstance(d, int) else rng.choice(CONSTS) for d in leaf["s"]]
        ve = leaf["t"]
        how = rng.choice(["fit", "fit", "dim", "rank", "elem"])
        if how == "dim" and shape:
            i = rng.randrange(len(shape))
            shape[i] = rng.choice([c for c in CONSTS if c != shape[i]])
        elif how == "rank":
            if shape and rng.random() < 0.5:
                shape.pop()
            else:
                shape.append(rng.choice(CONSTS))
        elif how == "elem":
            ve = rng.choice([e for e in ELEMS if e != ve])
        out.append((ve, shape, ty, how))
    return out


def real_check(ve, shape, ty):
    from spox._value_prop import PropValue

    with warnings.catch_warnings():
        warnings.simplefilter("ignore")
        return bool(PropValue(L.spox_type(ty), np.zeros(tuple(shape), dtype=L.NP_OF[ve])).check())


_TEMPLATES: dict = {}


def _template(name):
    """a real node (made through the public constructor) whose class / attrs / inputs are reused"""
    if name in _TEMPLATES:
        return _TEMPLATES[name]
    import spox.opset.ai.onnx.v17 as op
    from spox import Tensor, argument

    x = argument(Tensor(np.float32, (2, 3)))
    if name == "Identity":
        var, keys = op.identity(x), ["output"]
    elif name == "TopK":
        var, keys = op.top_k(x, argument(Tensor(np.int64, (1,))))[0], ["Values", "Indices"]
    else:
        var, keys = op.dropout(x)[0], ["output", "mask"]
    node = var._op
    base = type(node)

    class Sub(base):  # the two hooks answer what the case says; everything else is the real Node
        _case_types: dict = {}
        _case_vals: dict = {}

        def infer_output_types(self):
            return dict(type(self)._case_types)

        def propagate_values(self):
            return dict(type(self)._case_vals)

    got = list(node.outputs.get_vars().keys())
    if got != keys:
        raise RuntimeError(f"output keys of {name}: {got} != {keys}")
    _TEMPLATES[name] = (Sub, node.attrs, node.inputs, keys)
    return _TEMPLATES[name]


def attach_cases(rng, n):
    out = []
    for _ in range(n):
        name = rng.choice(["Identity", "TopK", "Dropout"])
        keys = {"Identity": ["output"], "TopK": ["Values", "Indices"], "Dropout": ["output", "mask"]}[name]
        tys, raw = [], []
        for k in keys:
            if rng.random() < 0.15:
                tys.append([k, None])
                ty = {"t": rng.choice(ELEMS), "s": gen_shape(rng)}
            else:
                ty = {"t": rng.choice(ELEMS), "s": gen_shape(rng)}
                tys.append([k, ty])
            if rng.random() < 0.85:
                ve, shape, _, how = check_cases_for(rng, ty)
                raw.append({"key": k, "e": ve, "shape": shape, "digest": f"{k}:{ve}:{shape}"})
        if rng.random() < 0.1:  # a value for a key that is no output: ignored
            raw.append({"key": "nope", "e": 1, "shape": [1], "digest": "nope"})
        out.append((name, tys, raw))
    return out


def check_cases_for(rng, ty):
    leaf = ty
    if leaf["s"] is None:
        shape = [rng.choice(CONSTS) for _ in range(rng.choice([0, 1, 2]))]
    else:
        shape = [d if isinstance(d, int) else rng.choice(CONSTS) for d in leaf["s"]]
    ve = leaf["t"]
    how = rng.choice(["fit", "fit", "fit", "dim", "rank", "elem"])
    if how == "dim" and shape:
        i = rng.randrange(len(shape))
        shape[i] = rng.choice([c for c in CONSTS if c != shape[i]])
    elif how == "rank":
        shape.append(rng.choice(CONSTS))
    elif how == "elem":
        ve = rng.choice([e for e in ELEMS if e != ve])
    return ve, shape, ty, how


def real_attach(name, tys, raw):
    """run the real Node.__init__ / Node.inference with the generated answers; which outputs carry a
    value afterwards (key, digest), and the types they carry"""
    Sub, attrs, inputs, keys = _template(name)
    Sub._case_types = {k: L.spox_type(t) for k, t in tys if t is not None}
    Sub._case_vals = {r["key"]: np.zeros(tuple(r["shape"]), dtype=L.NP_OF[r["e"]]) for r in raw}
    dig = {r["key"]: r["digest"] for r in raw}
    with warnings.catch_warnings():
        warnings.simplefilter("ignore")
        node = Sub(attrs, inputs)
    vals, types = [], []
    for k, v in node.outputs.get_vars().items():
        types.append([k, L.from_spox_type(v.type)])
        if v._value is not None:
            vals.append([k, dig.get(k, "?")])
    return vals, types


def run_stage(ck, brk, n_pairs, n_checks, n_attach):
    """returns the evidence dict; registers mismatches through `brk`"""
    rng = ck.rng
    ev: dict = {"pairs": collections.Counter(), "checks": collections.Counter(), "attach": collections.Counter()}
    reqs, meta = [], []
    # 1. _subtype / Shape.__le__
    try:
        for a, b, how in pair_cases(rng, n_pairs):
            real = real_subtype(a, b)
            reqs.append({"k": "subtype", "a": a, "b": b})
            meta.append(("subtype", (a, b, how), real))
            if "shape" in real:
                reqs.append({"k": "shape", "a": a, "b": b})
                meta.append(("shape", (a, b, how), real["shape"]))
    except Exception as e:  # noqa: BLE001
        brk(ck, "correspondence", "Type._subtype / Shape.__le__ not observable", f"{type(e).__name__}: {e}"[:300])
    # 2. PropValue.check
    try:
        for ve, shape, ty, how in check_cases(rng, n_checks):
            real = real_check(ve, shape, ty)
            reqs.append({"k": "check", "e": ve, "shape": shape, "ty": ty})
            meta.append(("check", (ve, shape, ty, how), real))
    except Exception as e:  # noqa: BLE001
        brk(ck, "correspondence", "PropValue.check not observable", f"{type(e).__name__}: {e}"[:300])
    # 3. the attach loop of Node.inference on a real node class
    try:
        for name, tys, raw in attach_cases(rng, n_attach):
            vals, types = real_attach(name, tys, raw)
            if types != [[k, t] for k, t in tys]:
                ev["attach"]["types_touched"] += 1
                brk(ck, "correspondence", "Node.inference: output types differ from what infer_output_types answered",
                    f"{name}: answered {tys}, Vars carry {types}"[:500])
            reqs.append({"k": "attach", "raw": raw, "tys": tys})
            meta.append(("attach", (name, tys, raw), vals))
    except Exception as e:  # noqa: BLE001
        brk(ck, "correspondence", "Node.inference attach loop not observable", f"{type(e).__name__}: {e}"[:300])
    if not reqs:
        return ev
    ans = ck.driver().ask_many("C05", [{"rel": reqs[i:i + 200]} for i in range(0, len(reqs), 200)])
    flat = []
    for a in ans:
        if "rel" not in a:
            brk(ck, "correspondence", "relation request not answered by the model", str(a)[:300])
            return ev
        flat += a["rel"]
    for (kind, case, real), got in zip(meta, flat):
        if kind == "subtype":
            a, b, how = case
            ev["pairs"][f"{how}:{'le' if real['subtype'] else 'not-le'}"] += 1
            ok = isinstance(got, dict) and got.get("subtype") == real["subtype"] and got.get("compatible") == real["subtype"]
            if not real["top"]:
                ok = False
            # proved: tyLe => subtype; observed here on the real relation
            if isinstance(got, dict) and got.get("tyle") and not real["subtype"]:
                ok = False
            if not ok:
                ev["pairs"]["mismatch"] += 1
                brk(ck, "correspondence", "Type._subtype", f"a={a} b={b}: real {real}, model {got}"[:500])
        elif kind == "shape":
            a, b, how = case
            ev["pairs"]["shape_le" if real else "shape_not_le"] += 1
            if got != real:
                ev["pairs"]["mismatch"] += 1
                brk(ck, "correspondence", "Shape.__le__", f"a={a['s']} b={b['s']}: real {real}, model {got}"[:400])
        elif kind == "check":
            ve, shape, ty, how = case
            ev["checks"][f"{how}:{'pass' if real else 'fail'}"] += 1
            if got != real:
                ev["checks"]["mismatch"] += 1
                brk(ck, "correspondence", "PropValue.check", f"value elem={ve} shape={shape} type={ty}: real {real}, model {got}"[:400])
        else:
            name, tys, raw = case
            ev["attach"]["cases"] += 1
            ev["attach"]["values_offered"] += len(raw)
            ev["attach"]["values_attached"] += len(real)
            if not (isinstance(got, dict) and got.get("checked") == real and got.get("one") == real):
                ev["attach"]["mismatch"] += 1
                brk(ck, "correspondence", "Node.inference: which propagated values are attached",
                    f"{name}: types {tys} raw {raw}: real {real}, model {got}"[:600])
    return {k: dict(v) for k, v in ev.items()}
